"""C23 — IR -> WebAssembly translation preserves behaviour (IR.tla + Wasm.tla, idiom T/B).

For every IR module of the corpus (harness/irgen_wasm.py: one tiny function per (type, operator, observer) and per
cast, random structured programs, random control-flow graphs; generated C programs through c_to_ir for the wasm
architecture) ppci.wasm.ir_to_wasm is called; an exception is the outcome "rejected" (counted, allowed); the produced
components.Module is projected (harness/project_wasm.py) and
  1. Wasm.tla executes the exported function on every argument vector (TLC run 1, NextEmit prints the observation:
     status, results, non-zero memory cells, calls of imported functions);
  2. the observation is handed to IR.tla as the case's `obs` record (return value cut to the IR return type,
     bytes of every IR global read at the address ppci2wasm gave it, external calls with arguments cut to the
     declared types) and TLC (run 2) executes the IR module itself and checks ObsMatchesImpl: whenever the IR
     execution is fully defined the wasm module must return normally with the same value, the same final bytes
     of every global and the same sequence of external calls.
A module whose wasm form cannot be executed by the model (ill-typed stack, bad index: status "stuck") counts as a
wrong translation.  Undefined IR executions (division by zero, shift >= width, poison, out of bounds) are skipped.
"""
import contextlib
import io
import os
import random
import re

from engines import c02, c22
from harness import absprog, core, irgen_wasm, project_ir, project_wasm, tlaval, wasm_runner, wasmenc
from harness.tlc import MachineryError
from harness.watchdog import CallTimeout, limited

IR_CFG = """INIT Init
NEXT Next
CHECK_DEADLOCK FALSE
INVARIANT ObsMatchesImpl
INVARIANT TypeOK
"""
EMIT_CFG = """INIT Init
NEXT NextEmit
CHECK_DEADLOCK FALSE
INVARIANT TypeOK
"""
BITS = irgen_wasm.BITS
TYB = {t: b // 8 for t, b in BITS.items()}
TYB["ptr"] = 4
WASM_TY = {"i8": "i32", "u8": "i32", "i16": "i32", "u16": "i32", "i32": "i32", "u32": "i64", "i64": "i64", "u64": "i64",
           "ptr": "i32"}
PTR_BYTES = 4


def translate(make):
    """-> (wasm module | None, layout {global name: address}, outcome).  Layout = the address table of the compiler
    instance that produced the module (its `global_labels`), captured by wrapping create_wasm_module."""
    from ppci.wasm import ppci2wasm

    captured = {}
    orig = ppci2wasm.IrToWasmCompiler.create_wasm_module

    def spy(self):
        captured["labels"] = dict(getattr(self, "global_labels", {}))
        return orig(self)

    ppci2wasm.IrToWasmCompiler.create_wasm_module = spy
    try:
        with contextlib.redirect_stdout(io.StringIO()):       # ppci2wasm prints debugging lines
            wm = limited(lambda: ppci2wasm.ir_to_wasm(make()), 20, "ir_to_wasm")
        return wm, captured.get("labels", {}), "ok"
    except CallTimeout:
        return None, {}, "timeout"
    except Exception as e:   # rejected: allowed outcome
        return None, {}, "rejected:" + type(e).__name__
    finally:
        ppci2wasm.IrToWasmCompiler.create_wasm_module = orig


NARROW = ("i8", "u8", "i16", "u16")
BAD_CASTS = ({(s, d) for s in ("i32", "u32") for d in NARROW} | {("i64", "u32"), ("u64", "u32"), ("i8", "u32"),
             ("i16", "u32"), ("i32", "u32"), ("i32", "u64")})


def feature_tag(pm):
    """Which of the value-representation features of ppci2wasm a projected IR module touches (part of the violation
    key of random programs, so that known findings can be listed per feature)."""
    tags = set()
    for f in pm["funcs"]:
        for b in f["blocks"]:
            for i in b["ins"]:
                if i["k"] in ("binop", "unop", "cjmp"):
                    t = i["ty"] if i["k"] != "cjmp" else i.get("aty", "")
                    if t in NARROW:
                        tags.add("narrow")
                    elif t == "u32":
                        tags.add("u32")
                elif i["k"] == "cast" and (i.get("aty"), i["ty"]) in BAD_CASTS:
                    tags.add("cast")
    return "{%s}" % ",".join(sorted(tags)) if tags else ""


def wasm_arg(v, t):
    """The wasm value by which an IR value of type t is handed over: its own (sign / zero) extension."""
    return project_wasm.limbs(v, 4 if WASM_TY[t] == "i32" else 8)


def parse_obs(raw):
    """<< "OBS", case, module, call, Obs, why, steps >> values printed by Wasm_Run.NextEmit."""
    out = {}
    lines = raw.splitlines()
    k = 0
    while k < len(lines):
        if lines[k].startswith('<< "OBS"'):
            buf = [lines[k]]
            depth = lines[k].count("<<") - lines[k].count(">>")
            while depth > 0 and k + 1 < len(lines):
                k += 1
                buf.append(lines[k])
                depth += lines[k].count("<<") - lines[k].count(">>")
            try:
                v = tlaval.parse("\n".join(buf))
            except Exception as e:
                raise MachineryError("cannot parse observation: %s\n%s" % (e, "\n".join(buf)[:500]))
            out[(v[1], v[3])] = {"obs": v[4], "why": v[5], "steps": v[6]}
        k += 1
    return out


def mem_bytes(obs, addr, n):
    cells = obs["mem"]
    cells = cells[1] if isinstance(cells, tuple) else cells
    d = {a: b for a, b in cells}
    return [d.get(addr + k, 0) for k in range(n)]


def build_corpus(ctx):
    rng = ctx.rng
    thorough = ctx.tier == "thorough"
    out = []
    pats = (irgen_wasm.patterns(random.Random(rng.randrange(1 << 30)), thorough) + irgen_wasm.cast_patterns()
            + irgen_wasm.cond_patterns() + irgen_wasm.layout_patterns() + irgen_wasm.fptr_patterns())
    for key, make, fn, ptys, ext in pats:
        prng = random.Random(sum(ord(ch) * (k + 1) for k, ch in enumerate(key)))
        nv = 6 if thorough else (2 if key.startswith("cond") else 5)
        vecs = c02.int_vectors(ptys, prng, nv)
        # boundary pairs that overflow the narrow type
        for t in set(ptys):
            lo, hi = (-(1 << (BITS[t] - 1)), (1 << (BITS[t] - 1)) - 1) if t[0] == "i" else (0, (1 << BITS[t]) - 1)
            vecs += [[hi] * len(ptys), [lo] + [hi] * (len(ptys) - 1), [hi, 1][:len(ptys)], [hi // 2 + 1, 2][:len(ptys)]]
            if key.startswith("fptr"):
                vecs = [[s_, x_] for s_ in (0, 1, 2, 3) for x_ in (2, 10)]
            if key.startswith("layout"):
                vecs = vecs[:3] + [[0x11223344, 0x55667788]]
            if key.startswith("cond"):
                vecs += [[lo, lo], [hi, lo], [5, 5], [4, 5], [5, 4], [lo + 1, lo], [hi - 1, hi]]
        out.append({"key": key, "make": make, "fn": fn, "ptys": ptys, "vecs": vecs, "ext": [], "src": "harness/irgen_wasm.py " + key})
    for k in range(150 if thorough else 14):
        seed = rng.randrange(1 << 30)

        def make(seed=seed):
            return irgen_wasm.gen_arith(random.Random(seed))[0]

        try:
            _, info = irgen_wasm.gen_arith(random.Random(seed))
        except Exception:
            ctx.cov["generator_failed"] = ctx.cov.get("generator_failed", 0) + 1
            continue
        prng = random.Random(seed + 1)
        ext = [{"name": n, "rets": [project_ir.limbs(prng.randrange(-5, 40), 4) for _ in range(8)]} for n, _ in info["externs"]]
        out.append({"key": "arith%d" % seed, "make": make, "fn": info["main"], "ptys": info["params"],
                    "vecs": c02.int_vectors(info["params"], prng, 6 if thorough else 4), "ext": ext,
                    "src": "irgen_wasm.gen_arith(random.Random(%d))" % seed})
    for k in range(300 if thorough else 40):
        seed = rng.randrange(1 << 30)

        def make(seed=seed):
            return irgen_wasm.gen_cfg(random.Random(seed))

        prng = random.Random(seed + 1)
        vecs = [[a, b] for a in (0, 1, 2, 5, 10, 15) for b in (0, 7)]
        prng.shuffle(vecs)
        out.append({"key": "cfg%d" % seed, "make": make, "fn": "f", "ptys": ["i32", "i32"],
                    "vecs": vecs[:8 if thorough else 4], "ext": [], "src": "irgen_wasm.gen_cfg(random.Random(%d))" % seed})
    for k in range(40 if thorough else 10):
        seed = rng.randrange(1 << 30)
        prng = random.Random(seed)
        prog = absprog.Gen(prng, max_funcs=3, max_stmts=6, max_depth=3, types=["i32"]).program()
        src = absprog.render_c(prog)

        def make(src=src):
            from ppci.lang.c import CBuilder, COptions
            from ppci.utils.reporting import DummyReportGenerator
            from ppci.wasm.arch import WasmArchitecture

            return CBuilder(WasmArchitecture().info, COptions()).build(io.StringIO(src), None,
                                                                       reporter=DummyReportGenerator())

        f, vecs = absprog.arg_vectors(prog, prng, 5 if thorough else 3)
        from harness import optcorpus

        out.append({"key": "c%d" % seed, "make": make, "fn": f["n"], "ptys": None, "vecs": vecs,
                    "ext": optcorpus.ext_stubs(prog, prng), "src": src})
    return out


class Engine:
    LEVEL = "model_checking"

    def run(self, ctx):
        ctx.rule("IR modules: one function per (type x operator x observer) and per supported cast on boundary + seeded "
                 "vectors, random structured programs (globals, calls, function pointers, externals), random control-flow "
                 "graphs (reducible and irreducible), generated C programs compiled for the wasm architecture; each module "
                 "translated by ir_to_wasm; Wasm.tla executes the produced module, IR.tla the source, TLC checks "
                 "ObsMatchesImpl per (module, argument vector); distinct = distinct (module, vector) compared")
        ctx.assume("harness/project_ir.py and harness/project_wasm.py report the modules faithfully; the address of an IR "
                   "global in linear memory is the one recorded in the compiler's own label table (global_labels)")
        ctx.assume("IR values travel in wasm values of the type ppci2wasm chose (i8/i16/i32/ptr in i32, u32/i64/u64 in "
                   "i64): arguments are passed as the (sign- or zero-) extension of the IR value, results are compared on "
                   "the bytes of the IR type only")
        corpus = build_corpus(ctx)
        if ctx.only is not None:
            corpus = [p for p in corpus if p["key"] == ctx.only["key"].split(":", 1)[1].rsplit("@", 1)[0].split("{")[0]]
        wasm_cases, meta = [], []
        outcomes = {}
        for p in corpus:
            try:
                irm = p["make"]()
                pm = project_ir.project_module(irm, ptr_bytes=PTR_BYTES)
            except Exception as e:   # front-end / generator trouble: not this property's business
                outcomes["source_failed"] = outcomes.get("source_failed", 0) + 1
                continue
            fdef = [f for f in pm["funcs"] if f["name"] == p["fn"]]
            if not fdef:
                continue
            ptys = [q["ty"] for q in fdef[0]["params"]]
            if any(t not in WASM_TY for t in ptys) or fdef[0]["ret"] not in list(WASM_TY) + [""]:
                outcomes["float_signature"] = outcomes.get("float_signature", 0) + 1
                continue
            wm, layout, outcome = translate(p["make"])
            outcomes[outcome.split(":")[0]] = outcomes.get(outcome.split(":")[0], 0) + 1
            ctx.count(None)
            if wm is None:
                if outcome == "timeout":
                    ctx.violation("C23:%s@compile" % p["key"], "ir_to_wasm does not terminate on %s" % p["src"][:200],
                                  {"source": p["src"]})
                continue
            try:
                wp = project_wasm.strip(project_wasm.project_module(wm))
            except Exception as e:
                ctx.violation("C23:%s@module" % p["key"], "produced module cannot be inspected: %r" % e, {"source": p["src"]})
                continue
            vecs = [v for v in p["vecs"] if len(v) == len(ptys)]
            for vi, vec in enumerate(vecs):
                tag = feature_tag(pm) if p["key"].startswith("arith") or (p["key"][0] == "c" and p["key"][1].isdigit()) else ""
                wasm_cases.append({"id": "%s%s@%d" % (p["key"], tag, vi), "mods": [wp], "ext": p["ext"], "fuel": 10000,
                                   "calls": [{"fn": p["fn"], "args": [wasm_arg(v, t) for v, t in zip(vec, ptys)]}]})
                meta.append({"p": p, "pm": pm, "vec": vec, "ptys": ptys, "ret": fdef[0]["ret"], "layout": layout, "wm": wm})
        ctx.cov["translation_outcomes"] = outcomes
        if not wasm_cases:
            return
        # ---- run 1: the wasm side -------------------------------------------------------------------
        res = c22.run_wasm(ctx, wasm_cases, cfg=EMIT_CFG, label="Wasm.tla executes ir_to_wasm output")
        for e in res.errors:
            raise MachineryError("unexpected TLC error in the wasm run: %s" % e)
        observed = parse_obs(res.raw)
        ir_cases, ir_meta = [], []
        skipped = {}
        for k, (wc, mt) in enumerate(zip(wasm_cases, meta), start=1):
            o = observed.get((k, 1)) or observed.get((k, 0))
            if o is None:
                raise MachineryError("no observation for wasm case %s" % wc["id"])
            ob = o["obs"]
            st = ob["status"]
            if st == "outofmodel":
                skipped[st] = skipped.get(st, 0) + 1
                continue
            # (a wasm execution that is still running after 10 x the IR step budget counts as not terminating)
            outcome = "ok" if st == "ok" else ("trap:" + o["why"] if st == "trap" else "error:" + st + ":" + o["why"])
            rt = mt["ret"]
            ret = []
            if st == "ok" and rt:
                ret = ob["ret"][0][:TYB[rt]] if len(ob["ret"]) == 1 else [255] * 16
            globs = []
            for g in mt["pm"]["globals"]:
                if g["k"] == "var":
                    a = mt["layout"].get(g["name"])
                    globs.append({"name": g["name"], "bytes": mem_bytes(ob, a, g["size"]) if isinstance(a, int) else [256]})
            xargs = {g["name"]: g["args"] for g in mt["pm"]["globals"] if g["k"] == "xfn"}
            calls = []
            for c in ob["calls"]:
                tys = xargs.get(c["name"], [])
                calls.append({"name": c["name"], "args": [w[:TYB.get(t, len(w))] for w, t in zip(c["args"], tys)]})
            obs = {"outcome": outcome, "ret": ret, "globals": globs if st == "ok" else [], "hascalls": st == "ok", "calls": calls}
            ir_cases.append({"id": wc["id"], "mods": [mt["pm"]], "fn": mt["p"]["fn"],
                             "argv": [[project_ir.limbs(v, TYB[t]) for v, t in zip(mt["vec"], mt["ptys"])]],
                             "ext": mt["p"]["ext"], "fuel": 1500, "obs": obs})
            ir_meta.append((wc, mt, o))
            ctx.count(wc["id"])
        ctx.cov["skipped_wasm"] = skipped
        for wc, mt, o in ir_meta[:3]:
            ctx.sample({"case": wc["id"], "args": mt["vec"], "wasm_status": o["obs"]["status"], "wasm_ret": o["obs"]["ret"]})
        # ---- run 2: the IR side judges ---------------------------------------------------------------
        path = ctx.trace_file(ir_cases)
        res2 = ctx.tlc("IR", IR_CFG, label="IR.tla judges the wasm observation", env={"TRACE_FILE": path},
                       continue_=True, workers=8, heap="8g")
        os.unlink(path)
        ctx.cov["traces_validated_against_impl"] += len(ir_cases)
        seen = set()
        for e in res2.errors:
            st = e.last
            i = st.get("i")
            if e.kind != "invariant" or e.name != "ObsMatchesImpl" or not isinstance(i, int) or i < 1:
                raise MachineryError("unexpected TLC error in the IR run: %s\n%s" % (e, e.text[:1000]))
            wc, mt, o = ir_meta[i - 1]
            key = "C23:%s" % wc["id"]
            if key in seen:
                continue
            seen.add(key)
            ob = ir_cases[i - 1]["obs"]
            wat = ""
            try:
                wat = mt["wm"].to_string()[:6000]
            except Exception:
                pass
            ctx.violation(key, "%s(%s): IR semantics gives ret=%s, the wasm module produced by ir_to_wasm gives %s ret=%s%s" % (
                mt["p"]["fn"], mt["vec"], st.get("ret"), ob["outcome"], ob["ret"],
                "" if ob["outcome"] != "ok" else " (or differs in globals / external calls)"),
                {"source": mt["p"]["src"][:4000], "args": mt["vec"], "ir_ret": st.get("ret"), "wasm_obs": ob, "wat": wat})
