"""C38 — constant folding agrees with run-time arithmetic (ConstFold.tla over IROps, idioms M + E)."""
from harness import core, enc
from harness.tlc import MachineryError

MC_CFG = """CONSTANT BVals <- %s
INIT Init
NEXT Next
CHECK_DEADLOCK FALSE
INVARIANT LawAddSubMul
INVARIANT LawDivU
INVARIANT LawDivS
INVARIANT LawDefined
INVARIANT LawCmp
INVARIANT LawShift
INVARIANT LawBits
INVARIANT LawResize
INVARIANT Law2
"""
EVAL_CFG = """INIT Init
NEXT Next
CHECK_DEADLOCK FALSE
INVARIANT ValueAgrees
INVARIANT InRange
INVARIANT NoInternalError
"""
TYPES = {"i8": 8, "u8": 8, "i16": 16, "u16": 16, "i32": 32, "u32": 32, "i64": 64, "u64": 64}
OPS = ["+", "-", "*", "/", "%", "|", "&", "^", "<<", ">>", "rol", "ror"]


def rng_of(t):
    b = TYPES[t]
    return (-(1 << (b - 1)), (1 << (b - 1)) - 1) if t[0] == "i" else (0, (1 << b) - 1)


def tyvals(t, rng, n_extra, full8=False):
    b = TYPES[t]
    lo, hi = rng_of(t)
    if full8 and b == 8:
        return list(range(lo, hi + 1))
    s = {x for x in (0, 1, 2, 3, 7, b - 1, b, b + 1, -1, -2, -7, lo, hi, lo + 1, hi - 1, hi // 2 + 1, 100, -100) if lo <= x <= hi}
    for _ in range(n_extra):
        s.add(rng.randrange(lo, hi + 1))
    return sorted(s)


def fold_one(build):
    """build(ir, fn) constructs the body and returns the instruction whose folding is observed."""
    from ppci import ir
    from ppci.binutils.debuginfo import DebugDb
    from ppci.opt.constantfolding import ConstantFolder

    m = ir.Module("cf", debug_db=DebugDb())
    return m, ir, ConstantFolder


def observe(ret_ins, ty, ir):
    """What the returned operand is after folding."""
    v = ret_ins.result
    b = TYPES[ty]
    lo, hi = rng_of(ty)
    if isinstance(v, ir.Const):
        val = v.value
        if not isinstance(val, int):
            return {"folded": True, "v": enc.limbs(0, b // 8), "inrange": False}
        return {"folded": True, "v": enc.limbs(val, b // 8), "inrange": bool(lo <= val <= hi)}
    return {"folded": False, "v": enc.limbs(0, b // 8), "inrange": True}


def records(ctx):
    from ppci import ir
    from ppci.binutils.debuginfo import DebugDb
    from ppci.opt.constantfolding import ConstantFolder

    rng = ctx.rng
    thorough = ctx.tier == "thorough"
    recs = []

    def run(build, ty):
        m = ir.Module("cf", debug_db=DebugDb())
        fn = ir.Function("f", ir.Binding.GLOBAL, getattr(ir, ty))
        m.add_function(fn)
        blk = ir.Block("entry")
        fn.add_block(blk)
        fn.entry = blk
        try:
            build(fn, blk)
        except Exception as e:  # could not even build (e.g. type check in ir.py)
            return None
        try:
            ConstantFolder().run(m)
        except Exception as e:
            return {"outcome": "error:" + type(e).__name__, "folded": False,
                    "v": enc.limbs(0, TYPES[ty] // 8), "inrange": True}
        o = observe(blk.instructions[-1], ty, ir)
        o["outcome"] = "ok"
        o["_blk"] = blk
        return o

    for ty in TYPES:
        T = getattr(ir, ty)
        nb = TYPES[ty] // 8
        av = tyvals(ty, rng, 2 if not thorough else 10, full8=thorough)
        bv = tyvals(ty, rng, 2 if not thorough else 10)
        for op in OPS:
            for a in av:
                for b in bv:
                    def build(fn, blk, a=a, b=b, op=op):
                        ca = ir.Const(a, "a", T)
                        cb = ir.Const(b, "b", T)
                        r = ir.Binop(ca, op, cb, "r", T)
                        for x in (ca, cb, r, ir.Return(r)):
                            blk.add_instruction(x)
                    o = run(build, ty)
                    if o is None:
                        continue
                    o.pop("_blk", None)
                    o.update(k="binop", ty=ty, op=op, a=enc.limbs(a, nb), b=enc.limbs(b, nb),
                             key="C38:binop:%s:%s:a=%d,b=%d" % (ty, op, a, b))
                    recs.append(o)
        # casts of constants from every other integer type
        for fty in TYPES:
            FT = getattr(ir, fty)
            for a in tyvals(fty, rng, 2):
                def build(fn, blk, a=a):
                    ca = ir.Const(a, "a", FT)
                    r = ir.Cast(ca, "r", T)
                    for x in (ca, r, ir.Return(r)):
                        blk.add_instruction(x)
                o = run(build, ty)
                if o is None:
                    continue
                o.pop("_blk", None)
                o.update(k="cast", ty=ty, fromty=fty, a=enc.limbs(a, TYPES[fty] // 8),
                         key="C38:cast:%s->%s:a=%d" % (fty, ty, a))
                recs.append(o)
        # chains (y op1 c1) op2 c2
        cvals = tyvals(ty, rng, 2)
        cs = sorted(set(cvals[:: max(1, len(cvals) // 9)]) | {x for x in (1, 5, rng_of(ty)[1], rng_of(ty)[0], rng_of(ty)[1] - 1)})
        ys = [enc.limbs(y, nb) for y in (tyvals(ty, rng, 0, full8=True) if TYPES[ty] == 8 else tyvals(ty, rng, 6))]
        for op1 in ("+", "-", "*"):
            for op2 in ("+", "-", "*"):
                if not thorough and op1 != op2 and "*" in (op1, op2):
                    continue
                for c1 in cs:
                    for c2 in cs:
                        def build(fn, blk, c1=c1, c2=c2, op1=op1, op2=op2):
                            y = ir.Parameter("y", T)
                            fn.add_parameter(y)
                            k1 = ir.Const(c1, "c1", T)
                            k2 = ir.Const(c2, "c2", T)
                            t = ir.Binop(y, op1, k1, "t", T)
                            r = ir.Binop(t, op2, k2, "r", T)
                            for x in (k1, k2, t, r, ir.Return(r)):
                                blk.add_instruction(x)
                        o = run(build, ty)
                        if o is None:
                            continue
                        blk = o.pop("_blk", None)
                        rec = {"k": "chain", "ty": ty, "op1": op1, "c1": enc.limbs(c1, nb), "op2": op2,
                               "c2": enc.limbs(c2, nb), "ys": ys, "outcome": o["outcome"], "folded": False,
                               "rop": "+", "rc": enc.limbs(0, nb), "inrange": True,
                               "key": "C38:chain:%s:(y%s%d)%s%d" % (ty, op1, c1, op2, c2)}
                        if blk is not None:
                            r = blk.instructions[-1].result
                            fn_params = blk.function.arguments
                            if isinstance(r, ir.Binop) and r.a is fn_params[0] and isinstance(r.b, ir.Const):
                                val = r.b.value
                                lo, hi = rng_of(ty)
                                rec.update(folded=True, rop=r.operation, rc=enc.limbs(val, nb),
                                           inrange=bool(isinstance(val, int) and lo <= val <= hi))
                        recs.append(rec)
    return recs


class Engine:
    LEVEL = "model_checking"

    def run(self, ctx):
        ctx.rule("M: Words/IROps operators = integer arithmetic on all 1-byte operand pairs (b restricted to a boundary "
                 "set in the quick tier) + 2-byte laws; E: ConstantFolder run on one tiny function per case: every "
                 "Binop.ops operator x boundary/random operand pairs of all 8 integer types (8-bit a exhaustive in thorough), "
                 "casts of constants between all integer types, chains (y op1 c1) op2 c2; TLC judges "
                 "ValueAgrees / InRange / NoInternalError against IROps (the semantics IR.tla executes); "
                 "distinct = distinct (type, operator, operands)")
        ctx.assume("a case is 'folded' when the returned operand became an ir.Const (chains: y op const)")
        if ctx.only is None:
            res = ctx.tlc("Words_MC", MC_CFG % ("BFull" if ctx.tier == "thorough" else "BQuick"), label="Words laws")
            for e in res.errors:
                raise MachineryError("Words law fails in the specification itself: %s" % e)
        recs = records(ctx)
        if ctx.only is not None:
            recs = [r for r in recs if r["key"] == ctx.only["key"]]
        nfold = 0
        for r in recs:
            ctx.count(r["key"], nontrivial=r["folded"] or r["outcome"] != "ok")
            nfold += bool(r["folded"])
        ctx.cov["folded_cases"] = nfold
        for r in [x for x in recs if x["folded"]][:: max(1, nfold // 4)][:5]:
            ctx.sample({k: r[k] for k in ("key", "v", "inrange") if k in r})
        core.eval_records(ctx, "ConstFold", EVAL_CFG, recs, keyfn=lambda r: r["key"],
                          whatfn=lambda r, e: "%s: folder outcome %s folded=%s value=%s inrange=%s" % (
                              r["key"], r["outcome"], r["folded"], r.get("v", r.get("rc")), r["inrange"]))
