"""C31 — regular-expression automata vs. Regex.tla (idioms M + E).

Python only enumerates expressions, drives ppci.lang.tools.regex and records
what it did; TLC parses the expression text with the specification's own
parser (Regex.tla: ParseRegex) and decides acceptance / tokenisation from the
denotational semantics (Matches, Tokens)."""
import contextlib
import io
import itertools
import os
import re
import sys

from harness import core

MC_CFG = """CONSTANT MaxSize = %d
CONSTANT MaxLen = %d
CONSTANT ParseSize = %d
INIT Init
NEXT Next
CHECK_DEADLOCK FALSE
INVARIANT StatesDistinct
INVARIANT StatesAreDerivatives
INVARIANT TransSound
INVARIANT TransDeterministic
INVARIANT TableTotal
INVARIANT ErrorState
INVARIANT OnlyErrorIsDead
INVARIANT LawNullable
INVARIANT LawDeriv
INVARIANT LawAccepts
INVARIANT LawParse
INVARIANT WalkInv
INVARIANT Theorem
INVARIANT ScanInv
INVARIANT ScanResult
INVARIANT ScanUndefined
"""
MC_ACTIONS = ("Expand", "Seal", "Choose", "WalkStep", "WalkEnd", "ScanAdvance", "ScanEmit", "ScanFail", "ScanDone")
EVAL_CFG = """INIT Init
NEXT Next
CHECK_DEADLOCK FALSE
INVARIANT Conforms
INVARIANT NotVacuous
"""

# Deterministic stand-in for a time-out: a budget of Python-level function calls.  Measured on
# 1 500 random expressions per size (tree with the proposed fixes, where every compile terminates):
# size<=6 needs < 23 000 calls, size 7 < 90 000, size 8 < 185 000; an expression whose derivative
# set keeps growing never returns.
def call_budget(size):
    return 200000 if size <= 6 else 1000000 if size == 7 else 2000000


MAX_BUDGET = 4000000


class Budget(Exception):
    pass


def limited(fn, *args, budget=MAX_BUDGET):
    """fn(*args) under a budget of Python function calls (not wall clock)."""
    cnt = [0]

    def prof(frame, event, arg):
        if event == "call":
            cnt[0] += 1
            if cnt[0] > budget:
                sys.setprofile(None)
                raise Budget()

    sys.setprofile(prof)
    try:
        return fn(*args)
    finally:
        sys.setprofile(None)


# ---------------------------------------------------------------- expressions
# Python-side trees: ("leaf", text, json) | (op, x) | (op, l, r); `json` is the
# Regex.tla AST of the leaf.
def leaf(text, cs=None):
    """cs: the characters of a class leaf (used only by kind "ast"; kind "text" is parsed by the specification)."""
    if text == ".":
        return ("leaf", text, {"op": "any"})
    if text == "":
        return ("leaf", text, {"op": "eps"})      # only as a whole expression
    if cs is not None:
        return ("leaf", text, {"op": "class", "cs": sorted(ord(c) for c in cs)})
    return ("leaf", text, {"op": "sym", "c": ord(text[-1])})


UNARY = {"star": "*", "plus": "+", "opt": "?"}


def asts(n, leaves):
    if n == 1:
        yield from leaves
        return
    for u in UNARY:
        for x in asts(n - 1, leaves):
            yield (u, x)
    for k in range(1, n - 1):
        for x in asts(k, leaves):
            for y in asts(n - 1 - k, leaves):
                yield ("cat", x, y)
                yield ("alt", x, y)


def random_ast(rng, n, leaves):
    if n == 1:
        return rng.choice(leaves)
    if n == 2 or rng.random() < 0.35:
        return (rng.choice(list(UNARY)), random_ast(rng, n - 1, leaves))
    k = rng.randrange(1, n - 1)
    return (rng.choice(("cat", "alt")), random_ast(rng, k, leaves), random_ast(rng, n - 1 - k, leaves))


def show(t, ctx=0):
    """Concrete syntax with minimal parentheses (alt 0 < cat 1 < postfix 2 < atom 3).
    Not trusted: the specification parses the text itself."""
    op = t[0]
    if op == "leaf":
        return t[1]
    if op in UNARY:
        s, p = show(t[1], 3) + UNARY[op], 2
    elif op == "cat":
        s, p = show(t[1], 1) + show(t[2], 2), 1
    else:
        s, p = show(t[1], 0) + "|" + show(t[2], 1), 0
    return "(" + s + ")" if p < ctx else s


def nodes(t):
    return 1 + sum(nodes(c) for c in t[1:] if isinstance(c, tuple) and t[0] != "leaf")


def to_json(t):
    op = t[0]
    if op == "leaf":
        return t[2]
    if op in UNARY:
        return {"op": op, "x": to_json(t[1])}
    return {"op": op, "l": to_json(t[1]), "r": to_json(t[2])}


def shape(t):
    """Syntactic shape tags used in violation keys (labels only, no verdict):
    nestcat  a concatenation that is an operand of | * + ? or the right operand
             of a concatenation (needs precedence or grouping to be read back)
    dotrep   '.' below * or +
    rep      some * or + occurs (the derivative set can only be infinite then)"""
    tags = set()

    def has_dot(u):
        return (u[0] == "leaf" and u[1] == ".") or any(has_dot(c) for c in u[1:] if isinstance(c, tuple))

    def walk(u, parent, side):
        if u[0] == "leaf":
            return
        if u[0] == "cat" and parent is not None and not (parent == "cat" and side == 0):
            tags.add("nestcat")
        if u[0] in ("star", "plus"):
            tags.add("rep")
            if has_dot(u[1]):
                tags.add("dotrep")
        for k, c in enumerate(u[1:]):
            walk(c, u[0], k)

    walk(t, None, 0)
    return "+".join(sorted(tags)) or "plain"


def build(t):
    """The expression through the combinator API of regex.py (trusted glue for kind "ast")."""
    from ppci.lang.tools.regex import regex as rx

    op = t[0]
    if op == "leaf":
        j = t[2]
        if j["op"] == "any":
            return rx.SIGMA
        if j["op"] == "eps":
            return rx.EPSILON
        if j["op"] == "sym":
            return rx.Symbol(chr(j["c"]))
        return rx.SymbolSet(list(j["cs"]))
    if op == "star":
        return rx.Kleene(build(t[1]))
    if op == "plus":
        x = build(t[1])
        return x + rx.Kleene(x)
    if op == "opt":
        return build(t[1]).optional()
    if op == "cat":
        return build(t[1]) + build(t[2])
    return build(t[1]) | build(t[2])


# ---------------------------------------------------------------- observation
def strings(sigma, n):
    out = []
    for k in range(n + 1):
        out.extend(itertools.product(sigma, repeat=k))
    return out


def walk_table(prog, s):
    """Acceptance of s (tuple of codes) by the returned (transitions, accepts, error)."""
    transitions, accepts, _error = prog
    st = 0
    for c in s:
        nxt = {t[2] for t in transitions[st] if t[0] <= c <= t[1]}
        if len(nxt) != 1:
            raise LookupError("no transition" if not nxt else "ambiguous transition")
        st = nxt.pop()
    return bool(accepts[st])


def observe_accept(arg, sigma, n, budget):
    """compile(arg) and the accepted strings over sigma of length <= n."""
    from ppci.lang.tools import regex

    try:
        prog = limited(regex.compile, arg() if callable(arg) else arg, budget=budget)
        acc = [list(s) for s in strings(sigma, n) if walk_table(prog, s)]
    except Budget:
        return {"ok": False, "exc": "Budget"}, None
    except Exception as e:  # noqa: the outcome class is the observation
        return {"ok": False, "exc": type(e).__name__}, None
    return {"ok": True, "acc": acc}, prog


def outcome_tag(out):
    return "accepted-set" if out["ok"] else "exc=" + out["exc"]


def drain(make_gen, limit):
    """Tokens yielded by the generator make_gen() and how it ended (under the call budget)."""
    toks, fin = [], "done"

    def pull():
        for tk in make_gen():
            toks.append(tk)
            if len(toks) > limit:
                return "overrun"
        return "done"

    try:
        fin = limited(pull)
    except Exception as e:  # noqa
        fin = "exc=" + type(e).__name__
    return toks, fin


def observe_scan(re_text, text):
    from ppci.lang.tools import regex

    try:
        prog = limited(regex.compile, re_text)
    except Exception as e:  # noqa
        return {"fin": "compile:exc=" + type(e).__name__, "toks": []}
    toks, fin = drain(lambda: regex.scan(prog, text), len(text) + 1)
    return {"fin": fin, "toks": [[ord(c) for c in tk] if isinstance(tk, str) else [0] for tk in toks]}


def observe_lexer(rules, text):
    from ppci.lang.tools import regex

    try:
        with contextlib.redirect_stdout(io.StringIO()):
            sc = limited(regex.make_scanner, dict(rules))
    except Exception as e:  # noqa
        return {"fin": "make_scanner:exc=" + type(e).__name__, "toks": []}
    toks, fin = drain(lambda: sc.scan(text), len(text) + 1)
    enc = []
    for tk in toks:
        if isinstance(tk, tuple) and len(tk) == 2 and isinstance(tk[1], str):
            enc.append({"n": str(tk[0]), "t": [ord(c) for c in tk[1]]})
        else:
            enc.append({"n": "?", "t": [0]})
    return {"fin": fin, "toks": enc}


def codes(s):
    return [ord(c) for c in s]


# ---------------------------------------------------------------- case lists
CORE_LEAVES = [leaf("a"), leaf("b"), leaf(".")]
CLASS_LEAVES = [leaf("a"), leaf("c"), leaf("[ab]", "ab"), leaf("[a-c]", "abc"), leaf("[b-c*]", "bc*"), leaf("\\*"),
                leaf("[\\*a]", "*a"), leaf(".")]
# fixed expressions in the style of the repository's tests: (tree, alphabet, max length)
def _l(x):
    return leaf(x) if isinstance(x, str) else x


def cat(*xs):
    t = _l(xs[0])
    for x in xs[1:]:
        t = ("cat", t, _l(x))
    return t


def alt(*xs):
    t = _l(xs[0])
    for x in xs[1:]:
        t = ("alt", t, _l(x))
    return t


def st(x):
    return ("star", _l(x))


def pl(x):
    return ("plus", _l(x))


def op(x):
    return ("opt", _l(x))


def word(w):
    return cat(*w)


_D = leaf("[0-9]", "0123456789")
_AZ = leaf("[a-z]", "abcdefghijklmnopqrstuvwxyz")
FIXED = [
    (leaf(""), "ab", 3), (word("abc"), "abc", 4), (cat("a", st("b"), "c"), "abc", 5), (cat("a", st("b"), "b", "c"), "abc", 5),
    (cat("a", pl("b"), "b", "c"), "abc", 5), (cat("a", op("b"), "b", "c"), "abc", 5), (cat("a", op("b"), "c"), "abc", 4),
    (cat("a", ".", "c"), "abc", 4), (cat("a", st("."), "c"), "acx", 5), (cat("a", leaf("[bc]", "bc"), "d"), "abcd", 3),
    (cat("a", leaf("[b-d]", "bcd"), "e"), "abde", 3), (cat(pl(_D), "h", "i"), "09hi", 5), (pl(_AZ), "az0", 4),
    (pl(" "), " a", 4), (leaf("[=\\-\\+]", "=-+"), "=-+\\", 2), (pl(_D), "059a", 4),
    (cat(op("a"), op("a"), "a", "a"), "a", 6), (cat(op("a"), op("a"), op("a"), "a", "a", "a"), "a", 7),
    (cat(st(alt("a", "b")), "a", "b", "b"), "ab", 6), (cat(st(alt(word("ab"), word("cd"))), "e"), "abcde", 4),
    (cat("a", st(alt("b", "c")), "d"), "abcd", 4), (cat(alt("a", "b"), alt("c", "d")), "abcd", 3),
    (alt(word("ab"), word("cd")), "abcd", 3), (alt("a", "b", "c"), "abc", 2), (alt(word("ab"), word("cd"), word("ef")), "abcdef", 2),
    (pl(word("ab")), "ab", 6), (st(alt("a", word("bc"))), "abc", 5),
    (cat("a", "\\.", "b"), "a.bx", 3), (cat("a", "\\|", "b"), "a|b", 3), (cat("\\(", "a", "\\)"), "(a)", 3), (cat("a", "\\*"), "a*", 3),
    (cat("\\[", "a", "\\]"), "[a]", 3), (cat("\\\\", "a"), "\\a", 3), (word("a-b"), "a-b", 3), (leaf("[a\\-c]", "a-c"), "abc-", 2),
    (leaf("[a\\]]", "a]"), "a]b", 2), (leaf("[.]", "."), ".a", 2), (leaf("[a-ce-f]", "abcef"), "abcdefg", 1),
    (cat(leaf("[ab]", "ab"), leaf("[bc]", "bc")), "abc", 3), (cat(st(leaf("[ab]", "ab")), op("c")), "abc", 4),
    (cat("x", pl(leaf("[0-2]", "012")), op("y")), "x012y", 4), (cat(pl(alt("a", "b")), "c"), "abc", 4),
    (st(cat(op("a"), "b")), "ab", 5), (st(cat(st("a"), "b")), "ab", 5), (cat(alt("a", op("b")), "c"), "abc", 3),
    (cat("a", op(word("bc")), "d"), "abcd", 4), (alt(word("if"), pl(_AZ)), "ifz", 3), (alt("=", word("==")), "=a", 3),
]
# named token rules for make_scanner + alphabets for the texts
LEXERS = [
    ([("identifier", "[a-z]+"), ("space", " +"), ("operator", "[=\\-\\+]"), ("number", "[0-9]+")], "az 0=-+9"),
    ([("kw", "if"), ("id", "[a-z]+"), ("ws", " ")], "ifz "),
    ([("a", "a"), ("ab", "ab"), ("b", "b+")], "ab"),
    ([("num", "[0-9]+"), ("dot", "\\."), ("real", "[0-9]+\\.[0-9]+")], "01."),
    ([("eq", "="), ("eqeq", "=="), ("x", "x")], "=x"),
    ([("ab", "ab"), ("abc", "abcd"), ("c", "c")], "abcd"),
]


PUNCT = "+-.\\()[]^"                 # punctuation with a meaning somewhere in the syntax
PUNCT_SIGMA = "+,-.\\()[]^0A"       # + witnesses that must stay outside: ',', a digit, an upper-case letter


def escape_cases(ctx):
    """Character classes whose range start / end / both are written as escapes, escaped single members, and
    escapes of every metacharacter outside a class; the alphabet contains the punctuation and witnesses."""
    needs = "][\\^-"
    out = []

    def item(c, esc):
        return ("\\" if esc else "") + c

    for lo, hi in itertools.combinations(sorted(PUNCT), 2):
        cs = "".join(chr(c) for c in range(ord(lo), ord(hi) + 1))
        for es, ee in itertools.product((False, True), repeat=2):
            if (not es and lo in needs) or (not ee and hi in needs):
                continue
            rng_leaf = leaf("[%s-%s]" % (item(lo, es), item(hi, ee)), cs)
            out.append((rng_leaf, PUNCT_SIGMA, 1))
            if es != ee or ctx.tier == "thorough":
                out.append((cat("a", st(rng_leaf), leaf("[x%s-%s0]" % (item(lo, es), item(hi, ee)), cs + "x0")), "a" + PUNCT_SIGMA, 2))
    for c in PUNCT:
        out.append((leaf("[\\%s]" % c, c), PUNCT_SIGMA, 1))
        out.append((leaf("[A\\%s0]" % c, "A0" + c), PUNCT_SIGMA, 1))
        out.append((cat("A", "\\" + c, op("0")), PUNCT_SIGMA, 3 if ctx.tier == "thorough" else 2))
    meta = "|()[].*+?\\^${}"
    for c in meta:
        out.append((leaf("\\" + c), meta + "a", 1))
    out.append((leaf("[" + "".join("\\" + c for c in meta) + "]", meta), meta + "a0", 1))
    out.append((leaf("[|().*+?${}]", "|().*+?${}"), meta + "a0", 1))
    out.append((cat(*["\\" + c for c in meta]), meta, 0))          # only the empty string is in reach: must be rejected
    out.append((alt(*["\\" + c for c in meta]), meta + "a", 1))
    out.append((pl(leaf("[+-\\-]", "+,-")), PUNCT_SIGMA, 2))
    out.append((alt(leaf("[(-\\)]", "()"), "x"), "x" + PUNCT_SIGMA, 1))
    return out


def naive(t):
    """Print without any parentheses (concatenation = juxtaposition, postfix operators, '|')."""
    if t[0] == "leaf":
        return t[1]
    if t[0] in UNARY:
        return naive(t[1]) + UNARY[t[0]]
    return naive(t[1]) + ("" if t[0] == "cat" else "|") + naive(t[2])


def colliding_pairs(max_size):
    """Pairs of different ASTs over {a, b} whose unparenthesised prints coincide, e.g. (ab)* and ab*:
    aimed at normalisation code that identifies sub-expressions by their printed form."""
    groups = {}
    for size in range(1, max_size + 1):
        for t in asts(size, CORE_LEAVES[:2]):
            groups.setdefault(naive(t), []).append((size, t))
    out = []
    for k in sorted(groups):
        for (n1, r1), (n2, r2) in itertools.combinations(groups[k], 2):
            out.append((max(n1, n2), r1, r2))
    return out


def collide_cases(ctx):
    rng = ctx.rng
    pairs = colliding_pairs(5)
    small = [p for p in pairs if p[0] <= 4]
    big = [p for p in pairs if p[0] == 5]
    if ctx.tier == "thorough":
        six = [p for p in colliding_pairs(6) if p[0] == 6]
        chosen = small + big + rng.sample(six, 300)
    else:
        chosen = small + rng.sample(big, 60)
    a = leaf("a")
    for _, r1, r2 in chosen:
        for t in (("alt", r1, r2), ("alt", r2, r1), ("star", ("alt", r1, r2)), ("cat", ("alt", r1, r2), a)):
            yield ("collide", t, show(t), codes("ab"), 5)


def accept_cases(ctx):
    """(family, tree-or-None, text, alphabet codes, n)"""
    rng = ctx.rng
    thorough = ctx.tier == "thorough"
    cases = []
    full = 5 if thorough else 4
    n = 6 if thorough else 5
    for size in range(1, full + 1):
        for t in asts(size, CORE_LEAVES):
            cases.append(("core", t, show(t), codes("ab"), n))
    seen = {c[2] for c in cases}
    for size, count in ((6, 1000), (7, 250), (8, 100), (9, 60)) if thorough else ((5, 200), (6, 40), (7, 30), (8, 30), (9, 30)):
        got = 0
        while got < count:
            t = random_ast(rng, size, CORE_LEAVES)
            s = show(t)
            if s not in seen:
                seen.add(s)
                cases.append(("core", t, s, codes("ab"), 5))
                got += 1
    for size in range(1, 4):
        for t in asts(size, CLASS_LEAVES):
            cases.append(("class", t, show(t), codes("abc*"), 3))
    if thorough:
        for _ in range(300):
            t = random_ast(rng, 4, CLASS_LEAVES)
            cases.append(("class", t, show(t), codes("abc*"), 3))
    for t, sigma, k in FIXED:
        cases.append(("fixed", t, show(t), codes(sigma), k))
    cases.extend(collide_cases(ctx))
    for t, sigma, k in escape_cases(ctx):
        cases.append(("escape", t, show(t), codes(sigma), k))
    return cases


class Engine:
    LEVEL = "model_checking"

    def run(self, ctx):
        thorough = ctx.tier == "thorough"
        ctx.rule("M: Regex_MC (compile worklist, table walk, scanner loop as actions; laws of Deriv/Nullable/Accepts) for every "
                 "AST of size<=%s over {a,b,.} and every string over {a,b} of length<=%s; Parse(Show(r))=r for every AST of "
                 "size<=%d over 6 leaves (incl. escapes, a class). "
                 "E: every AST of size<=%d over {a,b,.} (+ seeded samples up to size %d, + size<=3 over class/escape leaves, "
                 "+ %d fixed expressions, + classes whose range start / end / both are escapes, escaped members and escapes of "
                 "every metacharacter over a punctuation alphabet with witnesses, + the directed family r1|r2, r2|r1, (r1|r2)*, (r1|r2)a for pairs of different ASTs "
                 "over {a,b} whose unparenthesised prints coincide, e.g. (ab)* / ab*: all pairs of size<=4 (thorough <=5) "
                 "and a seeded sample of larger ones) printed with minimal parentheses, compiled by ppci regex.compile (kind text) and "
                 "built through the combinator API (kind ast); the set of strings of length<=n accepted by walking the "
                 "returned transition table is compared by TLC with {s : Matches(ParseRegex(text).ast, s)}; regex.scan / "
                 "make_scanner on texts built from TLC-confirmed accepted strings (and perturbed ones) against Tokens "
                 "(longest match). distinct = distinct (kind, expression[, text])"
                 % (("4 (5 for length<=3)", 5, 6, 5, 9, len(FIXED)) if thorough else (4, 3, 5, 4, 9, len(FIXED))))
        ctx.assume("kind ast: the 12-line builder engines/c31.py:build maps AST nodes to ppci combinators (x+ is x + Kleene(x))")
        ctx.assume("a compile that exceeds a budget of Python function calls (200 000 up to 6 AST nodes, 1 000 000 for 7, "
                   "2 000 000 otherwise) is recorded as non-terminating (exc=Budget); terminating compiles need < 1/9 of it")
        ctx.assume("acceptance is observed by walking (transitions, accepts) from state 0; '.' is never applied to a newline")
        if ctx.only is None:
            self.model_check(ctx, thorough)
        try:
            import ppci.lang.tools.regex  # noqa
        except Exception as e:  # noqa: a changed tree may not even import
            ctx.violation("C31:import:exc=%s" % type(e).__name__, "ppci.lang.tools.regex cannot be imported: %s" % e)
            return
        recs = self.accept_records(ctx)
        validated = self.judge(ctx, recs, "accept")
        recs2 = self.scan_records(ctx, validated)
        self.judge(ctx, recs2, "scan")

    # ---- M ------------------------------------------------------------
    def model_check(self, ctx, thorough):
        """Regex_MC exhaustively.  Per-action transition counts are read from a dot dump of the state
        graph (`-coverage` is unusable here: its cost model makes TLC spend minutes on the mutually
        recursive definitions before the first state); the dump is only made for the smaller constants."""
        for size, ln, psize, dump in ((2, 3, 6, True), (4, 5, 1, False), (5, 3, 1, False)) if thorough else ((2, 3, 5, True), (4, 3, 1, False)):
            extra, dot = [], os.path.join(ctx.workdir, "regex_mc.dot")
            if dump:
                extra = ["-dump", "dot,actionlabels", dot]
            res = ctx.tlc("Regex_MC", MC_CFG % (size, ln, psize), label="design size<=%d len<=%d" % (size, ln),
                          coverage=False, extra=extra)
            for e in res.errors:
                raise core.tlcmod.MachineryError("Regex_MC: invariant fails in the specification itself: %s" % e)
            if dump:
                with open(dot) as f:
                    for m in re.finditer(r'label="(\w+)"', f.read()):
                        k = "Regex_MC." + m.group(1)
                        ctx.cov["actions"][k] = ctx.cov["actions"].get(k, 0) + 1
                os.unlink(dot)
        missing = [a for a in MC_ACTIONS if not ctx.cov["actions"].get("Regex_MC." + a)]
        if missing:
            raise core.tlcmod.MachineryError("Regex_MC: actions never taken: %s" % missing)

    # ---- acceptance ---------------------------------------------------
    def accept_records(self, ctx):
        recs = []
        for fam, t, text, sigma, n in accept_cases(ctx):
            tag = shape(t)
            budget = MAX_BUDGET if fam in ("fixed", "collide", "escape") else call_budget(nodes(t))
            out, _ = observe_accept(text, sigma, n, budget)
            recs.append({"kind": "text", "must": True, "re": codes(text), "sigma": sigma, "n": n, "out": out,
                         "key": "C31:text:shape=%s:%s:re=%s" % (tag, outcome_tag(out), text), "retext": text, "fam": fam,
                         "tags": tag})
            out, _ = observe_accept(lambda t=t: build(t), sigma, n, budget)
            recs.append({"kind": "ast", "must": True, "ast": to_json(t), "sigma": sigma, "n": n, "out": out,
                         "key": "C31:ast:shape=%s:%s:re=%s" % (tag, outcome_tag(out), text), "retext": text, "fam": fam})
        return recs

    # ---- scanning -----------------------------------------------------
    def scan_records(self, ctx, validated):
        """validated: text records whose accepted set TLC confirmed to be the
        expression's language up to n -- so `acc` may be used to build texts."""
        rng = ctx.rng
        thorough = ctx.tier == "thorough"
        recs = []
        pool = [r for r in validated if r["out"]["acc"] and [] not in r["out"]["acc"]]
        ctx.cov["scan_skipped_nullable_or_empty"] = len(validated) - len(pool)
        fixed = [r for r in pool if r["fam"] == "fixed"]
        rest = [r for r in pool if r["fam"] != "fixed"]
        rng.shuffle(rest)
        chosen = fixed + rest[: 700 if thorough else 120]
        for r in chosen:
            sigma = "".join(chr(c) for c in r["sigma"])
            words = ["".join(chr(c) for c in w) for w in r["out"]["acc"] if len(w) <= 4]
            if not words:
                continue
            texts = set()
            for _ in range(4 if thorough else 2):
                w = "".join(rng.choice(words) for _ in range(rng.randrange(1, 4)))[:9]
                texts.add(w)
                k = rng.randrange(len(w) + 1)
                texts.add((w[:k] + rng.choice(sigma) + w[k:])[:9])        # perturbed: may not be tokenisable
            texts.add(rng.choice(words) + rng.choice(sigma))
            for text in sorted(texts):
                out = observe_scan(r["retext"], text)
                recs.append({"kind": "scan", "must": True, "re": r["re"], "text": codes(text), "out": out,
                             "key": "C31:scan:%s:re=%s:text=%s" % (out["fin"], r["retext"], text)})
        # lexers: the fixed rule sets + rule sets drawn from the validated pool
        lexers = list(LEXERS)
        small = [r for r in pool if r["fam"] == "core" and len(r["retext"]) <= 6]
        for _ in range(60 if thorough else 20):
            if len(small) >= 3:
                pick = rng.sample(small, rng.randrange(2, 4))
                lexers.append(([("T%d" % k, p["retext"]) for k, p in enumerate(pick)], "ab"))
        by_text = {r["retext"]: r for r in pool}
        for rules, sigma in lexers:
            # shape tags of the rules (union), in the key for the same reason as for single expressions
            tags = set()
            for _, rt in rules:
                tags.update(by_text[rt]["tags"].split("+") if rt in by_text else ["fixed"])
            tag = "+".join(sorted(tags - {"plain"})) or "plain"
            words = []
            for _, rt in rules:
                if rt in by_text:
                    words += ["".join(chr(c) for c in w) for w in by_text[rt]["out"]["acc"] if len(w) <= 3]
            words = words or list(sigma)
            texts = set()
            for _ in range(8 if thorough else 4):
                texts.add("".join(rng.choice(words) for _ in range(rng.randrange(1, 5)))[:9])
                texts.add("".join(rng.choice(sigma) for _ in range(rng.randrange(1, 7))))
            for text in sorted(texts):
                out = observe_lexer(rules, text)
                recs.append({"kind": "lexer", "must": True, "rules": [{"n": nm, "re": codes(rt)} for nm, rt in rules],
                             "text": codes(text), "out": out,
                             "key": "C31:lexer:shape=%s:%s:rules=%s:text=%s" % (tag, out["fin"], ",".join(rt for _, rt in rules), text)})
        return recs

    # ---- TLC decides ----------------------------------------------------
    def judge(self, ctx, recs, label):
        """Evaluate recs in Regex_Eval; report rejected ones; return the text records TLC confirmed."""
        seen, uniq = set(), []
        for r in recs:
            if r["key"] not in seen:
                seen.add(r["key"])
                uniq.append(r)
        recs = uniq
        report = recs
        if ctx.only is not None:
            report = [r for r in recs if r["key"] == ctx.only["key"]]
            # replay of a scan/lexer case: the accept phase still runs in full (unreported) because
            # the scan phase builds its texts from the accepted sets TLC confirmed
            if label == "scan" or report:
                recs = report
        if not recs:
            return []
        for r in report:
            ctx.count(r["key"])
        for r in report[:: max(1, len(report) // 3)][:3]:
            ctx.sample({"key": r["key"], "out": str(r["out"])[:160]})
        wire = [{k: v for k, v in r.items() if k not in ("retext", "fam", "tags")} for r in recs]
        path = ctx.trace_file(wire)
        res = ctx.tlc("Regex_Eval", EVAL_CFG, label=label, env={"TRACE_FILE": path}, continue_=True,
                      coverage=False)      # -coverage makes TLC track every recursive evaluation: out of memory
        ctx.cov["traces_validated_against_impl"] += len(report)
        bad = {}
        for e in res.errors:
            idx = e.last.get("i")
            if not isinstance(idx, int) or not 1 <= idx <= len(recs):
                raise core.tlcmod.MachineryError("TLC error without record index in Regex_Eval: %s\n%s" % (e, e.text[:2000]))
            if e.name == "NotVacuous":
                raise core.tlcmod.MachineryError("C31: the specification does not define the generated case %s" % recs[idx - 1]["key"])
            bad.setdefault(idx - 1, e.name)
        reported = {id(x) for x in report}
        for k in sorted(bad):
            r = recs[k]
            if id(r) in reported:
                ctx.violation(r["key"], self.what(r) + " [clause %s]" % bad[k],
                              {"record": wire[k], "clause": bad[k]})
        return [r for k, r in enumerate(recs) if r["kind"] == "text" and r["out"]["ok"] and k not in bad]

    @staticmethod
    def what(r):
        if r["kind"] in ("text", "ast"):
            o = r["out"]
            if not o["ok"]:
                return "regex.compile(%r) [%s]: %s instead of an automaton" % (r["retext"], r["kind"], o["exc"])
            acc = ["".join(chr(c) for c in w) for w in o["acc"]]
            return "automaton of %r [%s] accepts %s%s of the strings of length<=%d: not the expression's language" % (
                r["retext"], r["kind"], acc[:8], "..." if len(acc) > 8 else "", r["n"])
        toks = [("".join(map(chr, tk["t"])), tk["n"]) if isinstance(tk, dict) else "".join(map(chr, tk)) for tk in r["out"]["toks"][:8]]
        return "%s yielded %s then %s: not the longest-match tokenisation" % (r["kind"], toks, r["out"]["fin"])
