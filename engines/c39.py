"""C39 — bit-manipulation helpers vs. BitFun.tla (idioms M + E)."""
from harness import core, enc

MC_CFG = """CONSTANT MaxW = %d
INIT Init
NEXT Next
CHECK_DEADLOCK FALSE
INVARIANT LawRot
INVARIANT LawRev
INVARIANT LawCount
INVARIANT LawSigned
INVARIANT LawArith
INVARIANT LawNeg
INVARIANT LawShift
INVARIANT LawExt
INVARIANT LawZ
INVARIANT LawBytes
"""
EVAL_CFG = """INIT Init
NEXT Next
CHECK_DEADLOCK FALSE
INVARIANT Conforms
"""


def Z(v):
    return {"ok": True, "z": enc.zint(v)}


def N(v):
    return {"ok": True, "n": v} if isinstance(v, int) and not isinstance(v, bool) and 0 <= v < 2 ** 20 else {"ok": True, "z": enc.zint(v)}


def records(ctx):
    from ppci.utils import bitfun as bf
    from ppci.wasm.execution import runtime as rt

    rng = ctx.rng
    thorough = ctx.tier == "thorough"
    maxw = 10 if thorough else 7
    recs = []

    def add(f, key, out, **kw):
        r = {"f": f, "key": "C39:%s:%s" % (f, key), "out": out}
        r.update(kw)
        recs.append(r)

    def vals(w):
        if w <= maxw:
            return range(1 << w)
        s = set(enc.boundary_values(w))
        for _ in range(60 if thorough else 12):
            s.add(rng.getrandbits(w))
        return sorted(s)

    widths = list(range(1, maxw + 1)) + [16, 32, 64] + ([12, 24, 33, 63] if thorough else [])
    for w in widths:
        for v in vals(w):
            zv = enc.zint(v)
            counts = range(0, 2 * w + 1) if w <= 6 else sorted({0, 1, 2, w - 1, w, w + 1, 2 * w, rng.randrange(w), rng.randrange(3 * w)})
            for n in counts:
                add("rotl", "w=%d,v=%d,n=%d" % (w, v, n), enc.res_of(bf.rotl, v, n, w, wrap=Z), v=zv, w=w, n=n)
                add("rotr", "w=%d,v=%d,n=%d" % (w, v, n), enc.res_of(bf.rotr, v, n, w, wrap=Z), v=zv, w=w, n=n)
            add("reverse_bits", "w=%d,v=%d" % (w, v), enc.res_of(bf.reverse_bits, v, w, wrap=Z), v=zv, w=w)
            add("clz", "w=%d,v=%d" % (w, v), enc.res_of(bf.clz, v, w, wrap=N), v=zv, w=w)
            add("ctz", "w=%d,v=%d" % (w, v), enc.res_of(bf.ctz, v, w, wrap=N), v=zv, w=w)
            add("popcnt", "w=%d,v=%d" % (w, v), enc.res_of(bf.popcnt, v, w, wrap=N), v=zv, w=w)
            add("sign_extend", "w=%d,v=%d" % (w, v), enc.res_of(bf.sign_extend, v, w, wrap=Z), v=zv, w=w)
            add("value_to_bits", "w=%d,v=%d" % (w, v),
                enc.res_of(bf.value_to_bits, v, w, wrap=lambda b: {"ok": True, "bits": [int(x) for x in b]}), v=zv, w=w)
            if w % 8 == 0:
                add("value_to_bytes_big_endian", "w=%d,v=%d" % (w, v),
                    enc.res_of(bf.value_to_bytes_big_endian, v, w // 8, wrap=lambda b: {"ok": True, "bytes": list(b)}), v=zv, w=w)
            # signed / out-of-range arguments for the conversions
            for x in sorted({v, -v, v - (1 << w), v + (1 << w), -v - (1 << w), v - (1 << (w - 1))}):
                zx = enc.zint(x)
                add("to_signed", "w=%d,v=%d" % (w, x), enc.res_of(bf.to_signed, x, w, wrap=Z), v=zx, w=w)
                add("to_unsigned", "w=%d,v=%d" % (w, x), enc.res_of(bf.to_unsigned, x, w, wrap=Z), v=zx, w=w)
                for sg in (True, False):
                    add("correct", "w=%d,v=%d,s=%d" % (w, x, sg), enc.res_of(bf.correct, x, w, sg, wrap=Z), v=zx, w=w, signed=sg)
                add("inrange", "w=%d,v=%d" % (w, x), enc.res_of(bf.inrange, x, w, wrap=lambda t: {"ok": True, "t": bool(t)}), v=zx, w=w)
                add("wrap_negative", "w=%d,v=%d" % (w, x), enc.res_of(bf.wrap_negative, x, w, wrap=Z), v=zx, w=w)
    # bits_to_bytes
    for ln in range(0, 20 if thorough else 12):
        for _ in range(6):
            b = [rng.randrange(2) for _ in range(ln)]
            add("bits_to_bytes", "".join(map(str, b)),
                enc.res_of(lambda x: bf.bits_to_bytes([bool(t) for t in x]), b, wrap=lambda o: {"ok": True, "bytes": list(o)}), bits=b)
    # 32-bit rotates and the ARM immediate encoder
    v32 = set(enc.boundary_values(32))
    for rot in range(16):
        for x in (0, 1, 0x80, 0xFF, 0xA5, 0x81, 0x3F):
            v32.add(bf.rotr(x, 2 * rot, 32))
            v32.add(bf.rotr(x, (2 * rot + 1) % 32, 32))  # odd rotations: mostly unrepresentable
    v32 |= {0x101, 0x102, 0x1FE, 0xFF1, 0xF000000F, 0xC000003F, 0x80000001, 0x40000002}
    for _ in range(400 if thorough else 60):
        v32.add(rng.getrandbits(32))
    for v in sorted(v32):
        zv = enc.zint(v)
        add("encode_imm32", "v=%#x" % v, enc.res_of(bf.encode_imm32, v, wrap=Z), v=zv, w=32)
        for n in (range(0, 32) if v in (1, 0x80000001, 0x12345678 & 0xFFFFFFFF) else (0, 1, 8, 31, rng.randrange(32))):
            add("rotate_left", "v=%#x,n=%d" % (v, n), enc.res_of(bf.rotate_left, v, n, wrap=Z), v=zv, w=32, n=n)
            add("rotate_right", "v=%#x,n=%d" % (v, n), enc.res_of(bf.rotate_right, v, n, wrap=Z), v=zv, w=32, n=n)
    # align
    for a in range(0, 40):
        for m in (1, 2, 3, 4, 8, 16):
            add("align", "a=%d,m=%d" % (a, m), enc.res_of(bf.align, a, m, wrap=N), a=a, m=m)
    # BitView
    for _ in range(300 if thorough else 80):
        ln = rng.randrange(1, 5)
        begin = rng.randrange(0, 3)
        data = [rng.randrange(256) for _ in range(begin + ln + rng.randrange(0, 2))]
        start = rng.randrange(0, ln * 8)
        stop = rng.randrange(start + 1, ln * 8 + 1)
        val = rng.getrandbits(stop - start)

        def setit(data=data, begin=begin, ln=ln, start=start, stop=stop, val=val):
            d = bytearray(data)
            bf.BitView(d, begin, ln)[start:stop] = val
            return d

        add("bitview", "d=%s,b=%d,l=%d,%d:%d=%d" % (bytes(data).hex(), begin, ln, start, stop, val),
            enc.res_of(setit, wrap=lambda o: {"ok": True, "bytes": list(o)}),
            data=data, begin=begin, start=start, stop=stop, val=enc.bits(val, stop - start))
    # wasm runtime wrappers (signed operands)
    for w, pre in ((32, "i32"), (64, "i64")):
        sv = sorted({enc.unzint(enc.zint(x)) - ((1 << w) if x >> (w - 1) else 0) for x in vals(w)})
        for v in sv:
            zv = enc.zint(v)
            for c in sorted({0, 1, w - 1, w, w + 1, -1, -w, rng.randrange(-(1 << (w - 1)), 1 << (w - 1))}):
                add("wasm_rotl", "%s,v=%d,c=%d" % (pre, v, c), enc.res_of(getattr(rt, pre + "_rotl"), v, c, wrap=Z), v=zv, w=w, c=enc.zint(c))
                add("wasm_rotr", "%s,v=%d,c=%d" % (pre, v, c), enc.res_of(getattr(rt, pre + "_rotr"), v, c, wrap=Z), v=zv, w=w, c=enc.zint(c))
            for op in ("clz", "ctz", "popcnt"):
                add("wasm_" + op, "%s,v=%d" % (pre, v), enc.res_of(getattr(rt, "%s_%s" % (pre, op)), v, wrap=N), v=zv, w=w)
            for frm in (8, 16, 32):
                fn = getattr(rt, "%s_extend%d_s" % (pre, frm), None)
                if fn:
                    add("wasm_extend", "%s,from=%d,v=%d" % (pre, frm, v), enc.res_of(fn, v, wrap=Z), v=zv, w=w, **{"from": frm})
    return recs


class Engine:
    LEVEL = "model_checking"

    def run(self, ctx):
        ctx.rule("M: laws of BitSeq/BitFun (bit-string definitions = arithmetic definitions) on every pattern of "
                 "width<=MaxW; E: every recorded call of ppci.utils.bitfun / wasm runtime wrappers (exhaustive for "
                 "widths<=7 (10 thorough), boundary+seeded random for 16/32/64) judged by Allowed(r) in TLC; "
                 "distinct = distinct (function, arguments)")
        ctx.assume("Python-side encoding of integers into sign+magnitude bit strings (harness/enc.py) is correct")
        if ctx.only is None:
            res = ctx.tlc("BitFun_MC", MC_CFG % (8 if ctx.tier == "thorough" else 6), label="laws")
            for e in res.errors:
                raise core.tlcmod.MachineryError("BitFun law fails in the specification itself: %s" % e)
        recs = records(ctx)
        if ctx.only is not None:
            recs = [r for r in recs if r["key"] == ctx.only["key"]]
        for r in recs:
            ctx.count(r["key"])
        for r in recs[:: max(1, len(recs) // 4)]:
            ctx.sample({k: r[k] for k in ("key", "out")})
        core.eval_records(ctx, "BitFun_Eval", EVAL_CFG, recs, keyfn=lambda r: r["key"],
                          whatfn=lambda r, e: "%s returned %s, not the defined result" % (r["key"], _show(r["out"])))


def _show(o):
    if o.get("ok") and "z" in o:
        return str(enc.unzint(o["z"]))
    return str(o)
