"""C06 — register allocation never clobbers a live value.

AllocCheck.tla (the property as a lock-step machine, all paths) + TLC decide; this file only
 (a) generates programs with register pressure and compiles them with the real ppci back-ends while
     harness/regalloc_trace.py records what GraphColoringRegisterAllocator did,
 (b) renumbers the records into the integer encoding AllocCheck_Trace.tla reads,
 (c) maps TLC's verdicts back to (program, target, function, instruction).
"""
import io
import random

from harness import absprog, core, regalloc_trace, watchdog
from harness.tlc import MachineryError

TRACE_CFG = """INIT Init
VIEW View
ALIAS Shown
NEXT Next
CHECK_DEADLOCK FALSE
INVARIANT ReadsSeeLatestDef
INVARIANT NoSharing
INVARIANT CoalescedSameLoc
INVARIANT SpillCodeInBlocks
INVARIANT ImplIsSubList
INVARIANT OperandsUnchanged
INVARIANT JumpTargetsInList
INVARIANT EveryNameLocated
INVARIANT BlocksWellFormed
INVARIANT RemovedExactly
"""
MC_CFG = """CONSTANT MaxLen = %d
CONSTANT Menu = "%s"
INIT Init
NEXT Next
CHECK_DEADLOCK FALSE
INVARIANT ProperColouringIsAccepted
INVARIANT LivenessIsPathLiveness
INVARIANT TypeOK
"""
MC_WITNESS_CFG = """CONSTANT MaxLen = %d
CONSTANT Menu = "%s"
INIT Init
NEXT Next
CHECK_DEADLOCK FALSE
INVARIANT %s
"""

T64 = ["u8", "u8", "c8", "i16", "u16", "i32", "i32", "u32", "i64"]
T32 = ["u8", "c8", "i16", "u16", "i32", "u32"]
# (name, targets, C types for the pressure generator / absprog, IR types for irgen)
PROFILES = [
    ("w64", ["x86_64"], T64, None),
    ("w32", ["riscv", "riscv:rvc", "arm", "arm:thumb", "microblaze", "x86_64"], T32,
     ["i8", "u8", "i16", "u16", "i32", "u32"]),
    ("w32only", ["arm", "arm:thumb", "microblaze", "or1k", "xtensa", "mips", "m68k", "riscv"], ["i32", "u32"],
     ["i32", "u32"]),
    ("w16", ["msp430", "avr"], ["i16", "u16", "u8"], ["i8", "u8", "i16", "u16"]),
]
MAX_W = 1500   # longer lists are counted as too large (recursion depth of the liveness sweep)

CT = {"u8": "unsigned char", "c8": "signed char", "i16": "short", "u16": "unsigned short", "i32": "int",
      "u32": "unsigned int", "i64": "long long", "u64": "unsigned long long"}


# ---------------------------------------------------------------------------
# program generators (register pressure: many simultaneously live values, 8-bit values, calls)
def pressure_c(rng, types=None):
    """A C function with k values that stay live to the end, mixed widths, calls in between, a loop and
    branches — the shape that makes the allocator spill, coalesce and use aliasing classes."""
    types = types or ["u8", "u8", "c8", "i16", "u16", "i32", "i32", "u32", "i64"]
    k = rng.randrange(4, 13)
    nparams = rng.randrange(1, 6)
    ptys = [rng.choice(types) for _ in range(nparams)]
    vtys = [rng.choice(types) for _ in range(k)]
    ops = ["+", "-", "*", "^", "&", "|"]
    lines = ["extern int ext_f(int);", "extern void ext_p(int, int);"]
    rty = rng.choice(types)
    lines.append("%s pf(%s) {" % (CT[rty], ", ".join("%s p%d" % (CT[t], i) for i, t in enumerate(ptys))))

    def operand(avail):
        c = rng.random()
        if c < 0.15:
            return str(rng.choice([1, 2, 3, 5, 7, 100, 255]))
        return rng.choice(avail)

    avail = ["p%d" % i for i in range(nparams)]
    for i, t in enumerate(vtys):
        lines.append("  %s v%d = %s %s %s;" % (CT[t], i, operand(avail), rng.choice(ops), operand(avail)))
        avail.append("v%d" % i)
    vs = ["v%d" % i for i in range(k)]

    def stmt(ind):
        c = rng.random()
        pad = "  " * ind
        if c < 0.45:
            return ["%s%s = %s %s %s;" % (pad, rng.choice(vs), operand(avail), rng.choice(ops), operand(avail))]
        if c < 0.6:
            return ["%s%s = ext_f(%s);" % (pad, rng.choice(vs), operand(avail))]
        if c < 0.68:
            return ["%sext_p(%s, %s);" % (pad, operand(avail), operand(avail))]
        if c < 0.78:
            return ["%s%s = (%s)%s;" % (pad, rng.choice(vs), CT[rng.choice(types)], operand(avail))]
        if c < 0.9 and ind < 3:
            out = ["%sif (%s %s %s) {" % (pad, operand(avail), rng.choice(["<", "==", "!=", ">"]), operand(avail))]
            for _ in range(rng.randrange(1, 4)):
                out += stmt(ind + 1)
            if rng.random() < 0.6:
                out.append("%s} else {" % pad)
                for _ in range(rng.randrange(1, 3)):
                    out += stmt(ind + 1)
            out.append("%s}" % pad)
            return out
        if ind < 3:
            it = "i%d" % ind
            out = ["%sfor (int %s = 0; %s < %s; %s++) {" % (pad, it, it, rng.choice(["3", "p0", "4"]), it)]
            for _ in range(rng.randrange(1, 4)):
                out += stmt(ind + 1)
            out.append("%s}" % pad)
            return out
        return ["%s%s += %s;" % (pad, rng.choice(vs), operand(avail))]

    for _ in range(rng.randrange(2, 8)):
        lines += stmt(1)
    lines.append("  return %s;" % " + ".join(vs))
    lines.append("}")
    return "\n".join(lines) + "\n"


def sources(ctx, plan):
    """[(key, kind, payload, targets)]: C text or an (irgen seed, types) pair.
    plan: {profile name: (n_c, n_press, n_ir)}."""
    rng = ctx.rng
    out = []
    for name, targets, ctypes, irtypes in PROFILES:
        n_c, n_press, n_ir = plan.get(name, (0, 0, 0))
        for _ in range(n_press):
            seed = rng.randrange(1 << 30)
            out.append(("press%d" % seed, "c", pressure_c(random.Random(seed), ctypes), targets))
        for _ in range(n_c):
            seed = rng.randrange(1 << 30)
            prng = random.Random(seed)
            prog = absprog.Gen(prng, max_funcs=3, max_stmts=7, max_depth=3, types=sorted(set(ctypes))).program()
            out.append(("c%d" % seed, "c", absprog.render_c(prog), targets))
        for _ in range(n_ir):
            seed = rng.randrange(1 << 30)
            out.append(("ir%d" % seed, "ir", (seed, irtypes), targets))
    return out


def record_corpus(ctx, srcs, levels, only_targets=None):
    """Compile every source for every target of its profile; returns [(key, record, source)]."""
    import logging

    logging.disable(logging.CRITICAL)
    out = []
    skipped = ctx.cov.setdefault("codegen_rejected_by_target", {})
    compiled = ctx.cov.setdefault("compiled_by_target", {})
    for key, kind, payload, targets in srcs:
        for march in targets:
            if only_targets is not None and march not in only_targets:
                continue
            for level in levels:
                what = "%s:%s:O%s" % (key, march, level)
                got = []
                try:
                    # a changed tree may loop forever: time-limited
                    def run(kind=kind, payload=payload, march=march, level=level, got=got):
                        from ppci import api

                        from harness import irgen

                        if kind == "c":
                            m = api.c_to_ir(io.StringIO(payload), march)
                        else:
                            m, _ = irgen.gen_module(random.Random(payload[0]), types=payload[1])
                        if level != "0":
                            api.optimize(m, level=level)
                        with regalloc_trace.recording(got.append):
                            api.ir_to_object([m], march)

                    watchdog.limited(run, 60.0, what="c06compile")
                    compiled[march] = compiled.get(march, 0) + 1
                except watchdog.CallTimeout:
                    ctx.cov["compile_timeouts"] = ctx.cov.get("compile_timeouts", 0) + 1
                except Exception:  # front-end / instruction selection / encoding trouble: C28 / C29's business
                    skipped[march] = skipped.get(march, 0) + 1
                # allocations completed before an exception elsewhere are still allocations
                for r in got:
                    out.append(("C06:%s:%s" % (what, r["fn"]), r, payload if kind == "c" else "harness/irgen.py gen_module(random.Random(%d), types=%r)" % payload))
    logging.disable(logging.NOTSET)
    return out


# ---------------------------------------------------------------------------
# encoding for AllocCheck_Trace.tla (pure renumbering)
class Encoder:
    def __init__(self):
        self.archs = {}      # arch name -> {"keys": [phys key...], "idx": {key: n}, "sub": {key: [keys]}}
        self.order = []

    def scan(self, rec):
        a = self.archs.setdefault(rec["arch"], {"keys": [], "idx": {}, "sub": {}})
        if rec["arch"] not in self.order:
            self.order.append(rec["arch"])
        regs = rec["regs"]
        for r in regs:
            if r["p"]:
                k = (r["n"], r["cls"])
                if k not in a["idx"]:
                    a["idx"][k] = len(a["keys"]) + 1
                    a["keys"].append(k)
                    a["sub"][k] = [(regs[s - 1]["n"], regs[s - 1]["cls"]) for s in r["sub"]]

    def arch_tables(self):
        out = []
        for name in self.order:
            a = self.archs[name]
            for k in list(a["keys"]):
                for s in a["sub"][k]:
                    if s not in a["idx"]:
                        a["idx"][s] = len(a["keys"]) + 1
                        a["keys"].append(s)
                        a["sub"][s] = []
            out.append({"np": len(a["keys"]), "sub": [[a["idx"][s] for s in a["sub"][k]] for k in a["keys"]]})
        return out

    def names(self, rec):
        """rid -> new name id (machine registers first, by the architecture table)."""
        a = self.archs[rec["arch"]]
        np_ = len(a["keys"])
        m = {}
        nv = 0
        for i, r in enumerate(rec["regs"]):
            if r["p"]:
                m[i + 1] = a["idx"][(r["n"], r["cls"])]
            else:
                nv += 1
                m[i + 1] = np_ + nv
        return m, np_ + nv

    @staticmethod
    def _ins(e, nm, im, fresh):
        i = im.get(e["i"])
        if i is None:
            i = fresh[0]
            fresh[0] += 1
        return [i, [nm[x] for x in e["u"]], [nm[x] for x in e["d"]], [nm[x] for x in e["c"]],
                [im.get(x, 0) for x in e["j"]], 1 if e["m"] else 0]

    def colour_case(self, key, rec):
        nm, nn = self.names(rec)
        L = rec["rounds"][-1]
        im = {e["i"]: k + 1 for k, e in enumerate(L)}
        fresh = [len(L) + 1]
        W = [self._ins(e, nm, im, fresh) for e in L]
        S = [self._ins(e, nm, im, fresh) for e in rec["emitted"]]
        colour = [0] * nn
        for rid, c in enumerate(rec["colour"]):
            if rid + 1 in nm:
                colour[nm[rid + 1] - 1] = nm.get(c, 0) if c else 0
        return {"key": key, "mode": "colour", "arch": self.order.index(rec["arch"]) + 1, "nn": nn, "W": W, "S": S,
                "colour": colour, "blocks": [],
                "pre": [im.get(x, 0) for x in rec["premove"]], "post": [im.get(x, 0) for x in rec["postmove"]]}

    def spill_case(self, key, rec, rw):
        nm, nn = self.names(rec)
        A = rw["after"]
        im = {e["i"]: k + 1 for k, e in enumerate(A)}
        fresh = [len(A) + 1]
        W = [self._ins(e, nm, im, fresh) for e in A]
        S = [self._ins(e, nm, im, fresh) for e in rw["before"]]
        blocks = [[1 if b["k"] == "load" else 2, nm[b["reg"]], b["slot"], [im.get(x, 0) for x in b["ins"]]]
                  for b in rw["blocks"]]
        return {"key": key, "mode": "spill", "arch": self.order.index(rec["arch"]) + 1, "nn": nn, "W": W, "S": S,
                "colour": [], "blocks": blocks, "pre": [], "post": []}


def chain_ok(rec):
    """Not a verdict: tells the encoder whether the recorded rounds / rewrites line up as a chain, so
    that the engine knows which snapshot pairs to hand to TLC (every one of them is handed over)."""
    return True


def build_cases(ctx, recs):
    enc = Encoder()
    for _, r, _ in recs:
        enc.scan(r)
    cases, meta = [], []
    for key, r, src in recs:
        if not r["ok"]:
            # the allocator itself raised: judged by TLC through an empty emitted list below would be
            # wrong (nothing was emitted): it is code generation failing = C29's business.
            ctx.cov["allocator_raised"] = ctx.cov.get("allocator_raised", 0) + 1
            continue
        if not r["rounds"]:
            continue
        if len(r["rounds"][-1]) > MAX_W:
            ctx.cov["too_large"] = ctx.cov.get("too_large", 0) + 1
            continue
        cases.append(enc.colour_case(key, r))
        meta.append((key, r, src, None))
        for k, rw in enumerate(r["rewrites"]):
            if len(rw["after"]) > MAX_W:
                ctx.cov["too_large"] = ctx.cov.get("too_large", 0) + 1
                continue
            cases.append(enc.spill_case("%s:rewrite%d" % (key, k + 1), r, rw))
            meta.append(("%s:rewrite%d" % (key, k + 1), r, src, rw))
    return {"archs": enc.arch_tables(), "cases": cases}, meta


def explain(meta_entry, case, st, clause):
    key, rec, src, rw = meta_entry
    pc = st.get("pc")
    names = [x["n"] for x in rec["regs"]]
    long_list = rw["after"] if rw else rec["rounds"][-1]
    where = "?"
    if isinstance(pc, int) and 1 <= pc <= len(long_list):
        e = long_list[pc - 1]
        where = "#%d `%s` uses=%s defs=%s" % (pc, e["t"], [names[x - 1] for x in e["u"]], [names[x - 1] for x in e["d"]])
    return "%s of %s (%s, %s): clause %s fails at %s; cur=%s holds=%s" % (
        "spill rewrite" if rw else "final colouring", rec["fn"], rec["arch"], key, clause, where,
        str(st.get("cur"))[:300], str(st.get("holds"))[:300])


def judge(ctx, payload, meta, label, workers=8):
    """Run AllocCheck_Trace over the cases; map every error to its case."""
    if not payload["cases"]:
        return None
    path = ctx.trace_file(payload)
    res = ctx.tlc("AllocCheck_Trace", TRACE_CFG, label=label, env={"TRACE_FILE": path}, continue_=True,
                  workers=workers, heap="12g")
    import os

    os.unlink(path)
    ctx.cov["traces_validated_against_impl"] += len(payload["cases"])
    seen = set()
    for e in res.errors:
        st = e.last
        f = st.get("f")
        if e.kind != "invariant" or not isinstance(f, int) or f < 1 or f > len(meta):
            raise MachineryError("unexpected TLC error in AllocCheck run: %s\n%s" % (e, e.text[:1500]))
        m = meta[f - 1]
        vkey = "%s:%s" % (m[0], e.name)
        if vkey in seen:
            continue
        seen.add(vkey)
        ctx.violation(vkey, explain(m, payload["cases"][f - 1], st, e.name),
                      {"key": m[0], "source": m[2], "clause": e.name, "case": payload["cases"][f - 1],
                       "state": {k: str(v)[:600] for k, v in st.items()}})
    return res


class Engine:
    LEVEL = "model_checking"

    def run(self, ctx):
        thorough = ctx.tier == "thorough"
        ctx.rule("M: AllocCheck_MC — every program of <= MaxLen instructions over 2 virtual + 3 machine names (one "
                 "aliasing pair) x every colouring: a colouring proper w.r.t. the interference relation is accepted on "
                 "all paths, data-flow liveness = path liveness, improper colourings are rejected (witness runs). "
                 "T: every alloc_frame performed while generated C (harness/absprog.py, register-pressure generator) "
                 "and IR (harness/irgen.py) programs are compiled by ir_to_object for each target; per frame one "
                 "ColourCheck case (last-round list vs emitted list + colours, all paths) and one SpillRewriteCheck "
                 "case per rewrite_program call; distinct = distinct (program, target, level, function[, rewrite])")
        ctx.assume("ppci's use/def/clobber/jump/ismove annotations are the allocator's input contract (their truth is C07)")
        ctx.assume("harness/regalloc_trace.py copies operands, colours and Register.aliases faithfully; instruction identity "
                   "is Python object identity")
        ctx.assume("a recorded spill load/store block is an atomic slot<->register transfer (its machine semantics is C04/C05)")
        if ctx.only is not None:
            return self.replay(ctx)
        self.model_check(ctx, thorough)
        if thorough:
            plan = {"w64": (40, 60, 40), "w32": (20, 30, 30), "w32only": (10, 25, 15), "w16": (6, 10, 10)}
            levels = ("0", "2")
        else:
            plan = {"w64": (3, 6, 4), "w32": (1, 2, 2), "w32only": (1, 2, 1), "w16": (1, 2, 1)}
            levels = ("2",)
        recs = record_corpus(ctx, sources(ctx, plan), levels)
        self.check_records(ctx, recs)

    def check_records(self, ctx, recs):
        batch = 400
        nspill = 0
        for part in core.chunks(recs, batch):
            payload, meta = build_cases(ctx, part)
            for m in meta:
                ctx.count(m[0])
                if m[3] is not None:
                    nspill += 1
            for m in meta[:: max(1, len(meta) // 3)][:2]:
                ctx.sample({"key": m[0], "arch": m[1]["arch"], "rounds": [len(x) for x in m[1]["rounds"]],
                            "rewrites": len(m[1]["rewrites"]),
                            "removed_moves": len(m[1]["premove"]) - len(m[1]["postmove"])})
            judge(ctx, payload, meta, "allocations")
        ctx.cov["frames"] = ctx.cov.get("frames", 0) + len(recs)
        ctx.cov["spill_rewrites"] = ctx.cov.get("spill_rewrites", 0) + nspill

    def model_check(self, ctx, thorough):
        maxlen, menu = (4, "small") if thorough else (3, "full")
        res = ctx.tlc("AllocCheck_MC", MC_CFG % (maxlen, menu), label="AllocCheck self-test", workers=8)
        for e in res.errors:
            raise MachineryError("AllocCheck self-test fails in the specification itself: %s\n%s" % (e, e.text[:1500]))
        # anti-vacuity: the machine must be able to reject (each clause has a witness among improper colourings)
        for inv in ("ReadsSeeLatestDef", "NoSharing", "CoalescedSameLoc"):
            r = ctx.tlc("AllocCheck_MC", MC_WITNESS_CFG % (3, "full", inv), label="witness " + inv, workers=8)
            if not any(e.kind == "invariant" and e.name == inv for e in r.errors):
                raise MachineryError("AllocCheck self-test: no improper colouring violates %s (vacuous clause)" % inv)

    def replay(self, ctx):
        c = ctx.only.get("case") or {}
        raise MachineryError("replay: re-run ./check C06 with VERIF_SEED=%s (case key %s)" % (ctx.only.get("seed"), c.get("key")))
