"""C06 — register allocation never clobbers a live value.

AllocCheck.tla (the property as a lock-step machine, all paths) + TLC decide; this file only
 (a) generates programs with register pressure and compiles them with the real ppci back-ends while
     harness/regalloc_trace.py records what GraphColoringRegisterAllocator did,
 (b) renumbers the records into the integer encoding AllocCheck_Trace.tla reads,
 (c) maps TLC's verdicts back to (program, target, function, instruction).
"""
import io
import random

from harness import absprog, core, regalloc_trace, watchdog
from harness.tlc import MachineryError

TRACE_CFG = """CONSTANT MaxStates = %d
INIT Init
VIEW View
ALIAS Shown
NEXT Next
CONSTRAINT Budget
CHECK_DEADLOCK FALSE
INVARIANT ReadsSeeLatestDef
INVARIANT NoSharing
INVARIANT CoalescedSameLoc
INVARIANT SpillCodeInBlocks
INVARIANT ImplIsSubList
INVARIANT OperandsUnchanged
INVARIANT JumpTargetsInList
INVARIANT EveryNameLocated
INVARIANT BlocksWellFormed
INVARIANT RemovedExactly
INVARIANT RoundsChain
"""
MC_CFG = """CONSTANT MaxLen = %d
CONSTANT Menu = "%s"
INIT Init
NEXT Next
VIEW View
CHECK_DEADLOCK FALSE
INVARIANT ProperColouringIsAccepted
INVARIANT CorrectRewriteIsAccepted
INVARIANT IncrementalNoSharingIsNoSharing
INVARIANT LivenessIsPathLiveness
INVARIANT TypeOK
"""
MC_WITNESS_CFG = """CONSTANT MaxLen = %d
CONSTANT Menu = "%s"
INIT Init
NEXT Next
VIEW View
CHECK_DEADLOCK FALSE
INVARIANT %s
"""

T64 = ["u8", "u8", "c8", "i16", "u16", "i32", "i32", "u32", "i64"]
T32 = ["u8", "c8", "i16", "u16", "i32", "u32"]
# (name, targets, C types for the pressure generator / absprog, IR types for irgen)
PROFILES = [
    ("w64", ["x86_64"], T64, None),
    ("w32", ["riscv", "riscv:rvc", "arm", "arm:thumb", "microblaze", "x86_64"], T32,
     ["i8", "u8", "i16", "u16", "i32", "u32"]),
    ("w32only", ["arm", "arm:thumb", "microblaze", "or1k", "xtensa", "mips", "m68k", "riscv"], ["i32", "u32"],
     ["i32", "u32"]),
    ("w16", ["msp430", "avr"], ["i16", "u16", "u8"], ["i8", "u8", "i16", "u16"]),
]
MAX_W = 1500   # longer lists are counted as too large (recursion depth of the liveness sweep)

CT = {"u8": "unsigned char", "c8": "signed char", "i16": "short", "u16": "unsigned short", "i32": "int",
      "u32": "unsigned int", "i64": "long long", "u64": "unsigned long long"}


# ---------------------------------------------------------------------------
# program generators (register pressure: many simultaneously live values, 8-bit values, calls)
def pressure_c(rng, types=None, nparams=None):
    """A C function with k values that stay live to the end, mixed widths, calls in between, a loop and
    branches — the shape that makes the allocator spill, coalesce and use aliasing classes."""
    types = types or ["u8", "u8", "c8", "i16", "u16", "i32", "i32", "u32", "i64"]
    k = rng.randrange(4, 13)
    nparams = nparams or rng.randrange(1, 6)
    ptys = [rng.choice(types) for _ in range(nparams)]
    vtys = [rng.choice(types) for _ in range(k)]
    ops = ["+", "-", "*", "^", "&", "|"]
    lines = ["extern int ext_f(int);", "extern void ext_p(int, int);"]
    rty = rng.choice(types)
    lines.append("%s pf(%s) {" % (CT[rty], ", ".join("%s p%d" % (CT[t], i) for i, t in enumerate(ptys))))

    def operand(avail):
        c = rng.random()
        if c < 0.15:
            return str(rng.choice([1, 2, 3, 5, 7, 100, 255]))
        return rng.choice(avail)

    avail = ["p%d" % i for i in range(nparams)]
    for i, t in enumerate(vtys):
        lines.append("  %s v%d = %s %s %s;" % (CT[t], i, operand(avail), rng.choice(ops), operand(avail)))
        avail.append("v%d" % i)
    vs = ["v%d" % i for i in range(k)]

    def stmt(ind):
        c = rng.random()
        pad = "  " * ind
        if c < 0.45:
            return ["%s%s = %s %s %s;" % (pad, rng.choice(vs), operand(avail), rng.choice(ops), operand(avail))]
        if c < 0.6:
            return ["%s%s = ext_f(%s);" % (pad, rng.choice(vs), operand(avail))]
        if c < 0.68:
            return ["%sext_p(%s, %s);" % (pad, operand(avail), operand(avail))]
        if c < 0.78:
            return ["%s%s = (%s)%s;" % (pad, rng.choice(vs), CT[rng.choice(types)], operand(avail))]
        if c < 0.9 and ind < 3:
            out = ["%sif (%s %s %s) {" % (pad, operand(avail), rng.choice(["<", "==", "!=", ">"]), operand(avail))]
            for _ in range(rng.randrange(1, 4)):
                out += stmt(ind + 1)
            if rng.random() < 0.6:
                out.append("%s} else {" % pad)
                for _ in range(rng.randrange(1, 3)):
                    out += stmt(ind + 1)
            out.append("%s}" % pad)
            return out
        if ind < 3:
            it = "i%d" % ind
            out = ["%sfor (int %s = 0; %s < %s; %s++) {" % (pad, it, it, rng.choice(["3", "p0", "4"]), it)]
            for _ in range(rng.randrange(1, 4)):
                out += stmt(ind + 1)
            out.append("%s}" % pad)
            return out
        return ["%s%s += %s;" % (pad, rng.choice(vs), operand(avail))]

    for _ in range(rng.randrange(2, 8)):
        lines += stmt(1)
    lines.append("  return %s;" % " + ".join(vs))
    lines.append("}")
    return "\n".join(lines) + "\n"


def sources(ctx, plan):
    """[(key, kind, payload, targets)]: C text or an (irgen seed, types) pair.
    plan: {profile name: (n_c, n_press, n_ir)}."""
    rng = ctx.rng
    out = [tuple(x) for x in FIXED_SOURCES]
    for name, targets, ctypes, irtypes in PROFILES:
        n_c, n_press, n_ir = plan.get(name, (0, 0, 0))
        for _ in range(n_press):
            seed = rng.randrange(1 << 30)
            out.append(("press%d" % seed, "c", pressure_c(random.Random(seed), ctypes), targets))
        for _ in range(n_c):
            seed = rng.randrange(1 << 30)
            prng = random.Random(seed)
            prog = absprog.Gen(prng, max_funcs=3, max_stmts=7, max_depth=3, types=sorted(set(ctypes))).program()
            out.append(("c%d" % seed, "c", absprog.render_c(prog), targets))
        for _ in range(n_ir):
            seed = rng.randrange(1 << 30)
            out.append(("ir%d" % seed, "ir", (seed, irtypes), targets))
    return out


def record_corpus(ctx, srcs, levels, only_targets=None, steps_every=1):
    """Compile every source for every target of its profile; returns [(key, record, source)]."""
    import logging

    logging.disable(logging.CRITICAL)
    out = []
    skipped = ctx.cov.setdefault("codegen_rejected_by_target", {})
    compiled = ctx.cov.setdefault("compiled_by_target", {})
    for sn, (key, kind, payload, targets) in enumerate(srcs):
        want_steps = steps_every > 0 and sn % steps_every == 0
        for march in targets:
            if only_targets is not None and march not in only_targets:
                continue
            for level in levels:
                what = "%s:%s:O%s" % (key, march, level)
                got = []
                try:
                    # a changed tree may loop forever: time-limited
                    def run(kind=kind, payload=payload, march=march, level=level, got=got, want_steps=want_steps):
                        from ppci import api

                        from harness import irgen

                        if kind == "c":
                            m = api.c_to_ir(io.StringIO(payload), march)
                        else:
                            m, _ = irgen.gen_module(random.Random(payload[0]), types=payload[1])
                        if level != "0":
                            api.optimize(m, level=level)
                        with regalloc_trace.recording(got.append, steps=want_steps):
                            api.ir_to_object([m], march)

                    watchdog.limited(run, 60.0, what="c06compile")
                    compiled[march] = compiled.get(march, 0) + 1
                except watchdog.CallTimeout:
                    ctx.cov["compile_timeouts"] = ctx.cov.get("compile_timeouts", 0) + 1
                except Exception:  # front-end / instruction selection / encoding trouble: C28 / C29's business
                    skipped[march] = skipped.get(march, 0) + 1
                # allocations completed before an exception elsewhere are still allocations
                for r in got:
                    out.append(("C06:%s:%s" % (what, r["fn"]), r, payload if kind == "c" else "harness/irgen.py gen_module(random.Random(%d), types=%r)" % payload))
    logging.disable(logging.NOTSET)
    return out


# ---------------------------------------------------------------------------
# encoding for AllocCheck_Trace.tla (pure renumbering)
class Encoder:
    def __init__(self):
        self.archs = {}      # arch name -> {"keys": [phys key...], "idx": {key: n}, "sub": {key: [keys]}}
        self.order = []

    def scan(self, rec):
        a = self.archs.setdefault(rec["arch"], {"keys": [], "idx": {}, "sub": {}})
        if rec["arch"] not in self.order:
            self.order.append(rec["arch"])
        regs = rec["regs"]
        for r in regs:
            if r["p"]:
                k = (r["n"], r["cls"])
                if k not in a["idx"]:
                    a["idx"][k] = len(a["keys"]) + 1
                    a["keys"].append(k)
                    a["sub"][k] = [(regs[s - 1]["n"], regs[s - 1]["cls"]) for s in r["sub"]]

    def arch_tables(self):
        out = []
        for name in self.order:
            a = self.archs[name]
            for k in list(a["keys"]):
                for s in a["sub"][k]:
                    if s not in a["idx"]:
                        a["idx"][s] = len(a["keys"]) + 1
                        a["keys"].append(s)
                        a["sub"][s] = []
            out.append({"np": len(a["keys"]), "sub": [[a["idx"][s] for s in a["sub"][k]] for k in a["keys"]]})
        return out

    def names(self, rec):
        """rid -> new name id (machine registers first, by the architecture table)."""
        a = self.archs[rec["arch"]]
        np_ = len(a["keys"])
        m = {}
        nv = 0
        for i, r in enumerate(rec["regs"]):
            if r["p"]:
                m[i + 1] = a["idx"][(r["n"], r["cls"])]
            else:
                nv += 1
                m[i + 1] = np_ + nv
        return m, np_ + nv

    @staticmethod
    def _ins(e, nm, im, fresh):
        i = im.get(e["i"])
        if i is None:
            i = fresh[0]
            fresh[0] += 1
        return [i, [nm[x] for x in e["u"]], [nm[x] for x in e["d"]], [nm[x] for x in e["c"]],
                [im.get(x, 0) for x in e["j"]], 1 if e["m"] else 0]

    def colour_case(self, key, rec):
        nm, nn = self.names(rec)
        L = rec["rounds"][-1]
        im = {e["i"]: k + 1 for k, e in enumerate(L)}
        fresh = [len(L) + 1]
        W = [self._ins(e, nm, im, fresh) for e in L]
        S = [self._ins(e, nm, im, fresh) for e in rec["emitted"]]
        colour = [0] * nn
        for rid, c in enumerate(rec["colour"]):
            if rid + 1 in nm:
                colour[nm[rid + 1] - 1] = nm.get(c, 0) if c else 0
        return {"key": key, "mode": "colour", "arch": self.order.index(rec["arch"]) + 1, "nn": nn, "W": W, "S": S,
                "colour": colour, "blocks": [], "chain": chain_pairs(rec),
                "pre": [im.get(x, 0) for x in rec["premove"]], "post": [im.get(x, 0) for x in rec["postmove"]]}

    def spill_case(self, key, rec, rw):
        nm, nn = self.names(rec)
        A = rw["after"]
        im = {e["i"]: k + 1 for k, e in enumerate(A)}
        fresh = [len(A) + 1]
        W = [self._ins(e, nm, im, fresh) for e in A]
        S = [self._ins(e, nm, im, fresh) for e in rw["before"]]
        blocks = [[1 if b["k"] == "load" else 2, nm[b["reg"]], b["slot"], [im.get(x, 0) for x in b["ins"]]]
                  for b in rw["blocks"]]
        return {"key": key, "mode": "spill", "arch": self.order.index(rec["arch"]) + 1, "nn": nn, "W": W, "S": S,
                "colour": [], "blocks": blocks, "chain": [], "pre": [], "post": []}


def sig(snapshot):
    """Identity and operands of every instruction of a snapshot (raw recorder ids)."""
    return [[e["i"], e["u"], e["d"]] for e in snapshot]


def chain_pairs(rec):
    """Pairs of observations of frame.instructions between which nothing may have happened:
    rounds[k] = list before the first rewrite of round k, after(rewrite j) = before(rewrite j+1),
    after(last rewrite of round k) = rounds[k+1].  TLC compares them (clause RoundsChain)."""
    pairs = []
    rws = rec["rewrites"]
    for k, rnd in enumerate(rec["rounds"]):
        mine = [rw for rw in rws if rw["round"] == k + 1]
        prev = sig(rnd)
        for rw in mine:
            pairs.append([prev, sig(rw["before"])])
            prev = sig(rw["after"])
        if k + 1 < len(rec["rounds"]):
            pairs.append([prev, sig(rec["rounds"][k + 1])])
        elif mine:
            pairs.append([prev, []])   # rewrites after the last recorded round: never legal
    return pairs


def shape_tag(listing):
    """A syntactic class of the instruction list, made part of the violation KEY (never of the verdict):
    ':falls-into-label' when some instruction without jumps is directly followed by a jump target, i.e.
    control falls through from one flow-graph node into another (ppci's own code generators end every block
    with a jump; a back-end that drops a branch, or an entry block that is a loop target, produces this)."""
    targets = {j for e in listing for j in e["j"]}
    for a, b in zip(listing, listing[1:]):
        if not a["j"] and b["i"] in targets:
            return ":falls-into-label"
    return ""


FIXED_SOURCES = [
    # regression input for the fall-through defect of FlowGraph (found by the thorough tier on mips, whose
    # back-end emits no branch for a comparison of two constants, so that a block falls into the next label)
    ("fixed-mips-constant-condition", "c", """extern int ext_f(int);
extern void ext_p(int, int);
unsigned int pf(unsigned int p0) {
  int v0 = p0 | p0;
  unsigned int v1 = p0 - p0;
  int v2 = v0 & p0;
  int v3 = v1 ^ v0;
  unsigned int v4 = v1 * v1;
  unsigned int v5 = v4 ^ p0;
  unsigned int v6 = v4 & p0;
  int v7 = v6 + v1;
  unsigned int v8 = v2 & v2;
  int v9 = v5 & v1;
  int v10 = p0 ^ v1;
  int v11 = v7 ^ v9;
  ext_p(v5, 5);
  v7 = (unsigned int)v6;
  if (7 < 2) {
    v8 = v5 - 1;
  } else {
    v3 = (unsigned int)v8;
  }
  v0 = ext_f(v1);
  return v0 + v1 + v2 + v3 + v4 + v5 + v6 + v7 + v8 + v9 + v10 + v11;
}
""", ["mips", "riscv", "x86_64"]),
]


def build_cases(ctx, recs):
    enc = Encoder()
    for _, r, _ in recs:
        enc.scan(r)
    cases, meta = [], []
    for key, r, src in recs:
        if not r["ok"]:
            # the allocator itself raised: judged by TLC through an empty emitted list below would be
            # wrong (nothing was emitted): it is code generation failing = C29's business.
            ctx.cov["allocator_raised"] = ctx.cov.get("allocator_raised", 0) + 1
            continue
        if not r["rounds"]:
            continue
        if len(r["rounds"][-1]) > MAX_W:
            ctx.cov["too_large"] = ctx.cov.get("too_large", 0) + 1
            continue
        ckey = key + shape_tag(r["rounds"][-1])
        cases.append(enc.colour_case(ckey, r))
        meta.append((ckey, r, src, None))
        for k, rw in enumerate(r["rewrites"]):
            if len(rw["after"]) > MAX_W:
                ctx.cov["too_large"] = ctx.cov.get("too_large", 0) + 1
                continue
            skey = "%s:rewrite%d%s" % (key, k + 1, shape_tag(rw["after"]))
            cases.append(enc.spill_case(skey, r, rw))
            meta.append((skey, r, src, rw))
    return {"archs": enc.arch_tables(), "cases": cases}, meta


def explain(meta_entry, case, st, clause):
    key, rec, src, rw = meta_entry
    pc = st.get("pc")
    names = [x["n"] for x in rec["regs"]]
    long_list = rw["after"] if rw else rec["rounds"][-1]
    where = "?"
    if isinstance(pc, int) and 1 <= pc <= len(long_list):
        e = long_list[pc - 1]
        where = "#%d `%s` uses=%s defs=%s" % (pc, e["t"], [names[x - 1] for x in e["u"]], [names[x - 1] for x in e["d"]])
    return "%s of %s (%s, %s): clause %s fails at %s; cur=%s holds=%s" % (
        "spill rewrite" if rw else "final colouring", rec["fn"], rec["arch"], key, clause, where,
        str(st.get("cur"))[:300], str(st.get("holds"))[:300])


def controls(payload):
    """Negative controls (DESIGN 3.9 ii): recorded cases with ONE field corrupted; TLC must reject them.
    Returns [(case, kind)].  Python only corrupts the data; whether it is rejected is TLC's verdict."""
    import copy

    out = []
    count = {"colour": 0, "move": 0, "slot": 0}
    archs = payload["archs"]
    for c in sorted(payload["cases"], key=lambda c: len(c["W"])):   # short cases: short error traces
        np_ = archs[c["arch"] - 1]["np"]
        if len(c["W"]) < 12:
            continue
        if c["mode"] == "colour":
            col = c["colour"]
            if count["colour"] < 4:
                for e in c["S"]:
                    vs = [u for u in e[1] if u > np_]
                    if not e[5] and len(set(vs)) >= 2 and col[vs[0] - 1] != col[vs[1] - 1] and col[vs[1] - 1]:
                        k = copy.deepcopy(c)
                        k["colour"][vs[0] - 1] = col[vs[1] - 1]   # two operands of one instruction share a register
                        k["key"] = "control:colour:" + c["key"]
                        out.append((k, "colour"))
                        count["colour"] += 1
                        break
            if count["move"] < 4:
                loc = lambda r: r if r <= np_ else col[r - 1]
                for n, e in enumerate(c["S"]):
                    if e[5] and len(e[1]) == 1 and len(e[2]) == 1 and loc(e[1][0]) != loc(e[2][0]) and n < 40:
                        k = copy.deepcopy(c)
                        del k["S"][n]                                # a live move between two registers "removed"
                        k["post"] = [x for x in k["post"] if x != e[0]]
                        k["key"] = "control:move:" + c["key"]
                        out.append((k, "move"))
                        count["move"] += 1
                        break
        elif count["slot"] < 4:
            for n, b in enumerate(c["blocks"]):
                if b[0] == 1:
                    k = copy.deepcopy(c)
                    k["blocks"][n][2] = b[2] + 7                     # the reload reads another slot
                    k["key"] = "control:slot:" + c["key"]
                    out.append((k, "slot"))
                    count["slot"] += 1
                    break
    return out


IRC_CFG = """CONSTANTS
 MinN = %d
 MaxN = %d
 MaxPre = %d
 MaxMoves = %d
 Arch = "%s"
 FreeOrder = %s
 AnyRegister = %s
 AnyPop = %s
INIT Init
NEXT Next
CHECK_DEADLOCK FALSE
INVARIANT InvNoException
INVARIANT InvWorklists
INVARIANT InvMovesPartition
INVARIANT InvNodesPartition
INVARIANT InvCacheCoherent
INVARIANT InvMovesLinked
INVARIANT InvEdgesPreserved
INVARIANT InvProperColouring
INVARIANT InvClassRespected
INVARIANT InvComplete
"""
# (MinN, MaxN, MaxPre, MaxMoves, Arch, FreeOrder, AnyRegister, AnyPop)
IRC_QUICK = [(4, 4, 0, 1, "k2", "FALSE", "FALSE", "FALSE")]
# FreeOrder = TRUE (Appel's "any work list may be served next") is not used: the code serves the lists in
# a fixed priority, and under a free order its own assertion in freeze_moves fails for an identity move
# `mov v, v` frozen before it was coalesced (found by TLC; unreachable in the code's order).
IRC_THOROUGH = [(1, 3, 1, 2, "k2", "FALSE", "TRUE", "TRUE"),      # every pop() choice, any register
                (4, 4, 1, 1, "k2", "FALSE", "FALSE", "FALSE"),    # all 4-node graphs, one schedule each
                (1, 3, 2, 2, "pair", "FALSE", "TRUE", "TRUE")]    # aliasing classes (pq-test), every schedule

IRC_TRACE_CFG = """INIT Init
NEXT Next
CHECK_DEADLOCK FALSE
INVARIANT SafeSteps
INVARIANT TraceConforms
INVARIANT InitConforms
INVARIANT StepConforms
INVARIANT NoCodeException
INVARIANT TInvWorklists
INVARIANT TInvMovesPartition
INVARIANT TInvNodesPartition
INVARIANT TInvCacheCoherent
INVARIANT TInvEdgesPreserved
INVARIANT TInvProperColouring
"""
# clauses of IRC_Trace that are the property (a violation); the others say "the code is not the modelled
# algorithm on this run" — legitimate for a changed heuristic — and are reported as notes only
IRC_SAFETY = {"SafeSteps", "TInvProperColouring", "TInvEdgesPreserved"}
IRC_MAX_NODES = 70
IRC_MAX_STEPS = 600


def irc_cases(ctx, recs):
    """One IRC_Trace case per allocation round that was recorded with steps (pure renumbering)."""
    cases, meta = [], []
    for key, rec, src in recs:
        if not rec["ok"]:
            continue
        for k, g in enumerate(rec.get("graphs", [])):
            steps = rec["steps"][k] if k < len(rec["steps"]) else []
            if "exc" in g or not steps:
                continue
            if len(g["nodes"]) > IRC_MAX_NODES or len(steps) > IRC_MAX_STEPS:
                ctx.cov["irc_rounds_too_large"] = ctx.cov.get("irc_rounds_too_large", 0) + 1
                continue
            nids = sorted(n[0] for n in g["nodes"])
            nx = {n: i + 1 for i, n in enumerate(nids)}
            byid = {n[0]: n for n in g["nodes"]}
            rids = set()
            for c in g["classes"]:
                rids |= set(c["regs"])
            for r, al in g["alias"].items():
                rids.add(int(r))
                rids |= set(al)
            rids |= {n[2] for n in g["nodes"] if n[2]}
            rlist = sorted(rids)
            rx = {r: i + 1 for i, r in enumerate(rlist)}
            mx = {m[0]: i + 1 for i, m in enumerate(g["moves"])}

            def proj(p):
                return {"simplify": [nx.get(x, 0) for x in p["simplify"]], "freeze": [nx.get(x, 0) for x in p["freeze"]],
                        "spill": [nx.get(x, 0) for x in p["spill"]], "stack": [nx.get(x, 0) for x in p["stack"]],
                        "wl": [mx.get(x, 0) for x in p["wl"]], "active": [mx.get(x, 0) for x in p["active"]],
                        "coalesced": [mx.get(x, 0) for x in p["coalesced"]],
                        "constrained": [mx.get(x, 0) for x in p["constrained"]], "frozen": [mx.get(x, 0) for x in p["frozen"]]}

            inst = {"N": len(nids), "cls": [byid[n][1] for n in nids], "pre": [rx.get(byid[n][2], 0) for n in nids],
                    "E": [[nx[a], nx[b]] for a, b in g["edges"]], "M": [[nx[m[1]], nx[m[2]]] for m in g["moves"]],
                    "R": len(rlist), "cregs": [[rx[r] for r in c["regs"]] for c in g["classes"]],
                    "ali": [[rx[q] for q in g["alias"].get(str(r), [r])] for r in rlist], "sub": g["sub"]}
            evs = []
            usable = True
            for ev in steps:
                if "exc" in ev:
                    usable = False
                    break
                e = {"ev": ev["ev"], "x": 0, "post": proj(ev["post"]), "assign": [], "spilled": []}
                if ev["ev"] == "coalesc":
                    e["x"] = mx.get(ev["x"], 0)
                elif ev["ev"] == "assign_colors":
                    e["assign"] = [[nx.get(a, 0), rx.get(r, 0)] for a, r in ev["assign"]]
                    e["spilled"] = [nx.get(a, 0) for a in ev["spilled"]]
                else:
                    e["x"] = nx.get(ev["x"], 0)
                evs.append(e)
            if not usable:
                ctx.cov["irc_rounds_unrecorded"] = ctx.cov.get("irc_rounds_unrecorded", 0) + 1
                continue
            ck = "%s:round%d" % (key, k + 1)
            cases.append({"key": ck, "inst": inst, "init": proj(g["init"]), "steps": evs})
            meta.append((ck, rec, src, k))
    return cases, meta


def judge_irc(ctx, cases, meta, workers=8):
    """Replay recorded allocator steps into IRC.tla (IRC_Trace)."""
    import os

    if not cases:
        return None
    path = ctx.trace_file(cases, name="irc.json")
    res = ctx.tlc("IRC_Trace", IRC_TRACE_CFG, label="allocator steps", env={"TRACE_FILE": path}, continue_=True,
                  workers=workers, heap="12g")
    os.unlink(path)
    ctx.cov["traces_validated_against_impl"] += len(cases)
    ctx.cov["irc_rounds_replayed"] = ctx.cov.get("irc_rounds_replayed", 0) + len(cases)
    ctx.cov["irc_steps_replayed"] = ctx.cov.get("irc_steps_replayed", 0) + sum(len(c["steps"]) for c in cases)
    seen = set()
    for e in res.errors:
        st = e.last
        f, l = st.get("f"), st.get("l")
        if e.kind != "invariant" or not isinstance(f, int) or f < 1 or f > len(cases):
            raise MachineryError("unexpected TLC error in IRC_Trace run: %s\n%s" % (e, e.text[:1500]))
        m = meta[f - 1]
        vkey = "%s:steps:%s" % (m[0], e.name)
        if vkey in seen:
            continue
        seen.add(vkey)
        step = cases[f - 1]["steps"][l - 1] if isinstance(l, int) and 1 <= l <= len(cases[f - 1]["steps"]) else None
        if e.name not in IRC_SAFETY:
            ctx.cov["irc_model_deviations"] = ctx.cov.get("irc_model_deviations", 0) + 1
            if ctx.cov["irc_model_deviations"] <= 5:
                ctx.note("allocator run %s leaves the IRC.tla model at step %s (%s): %s [%s] — not a C06 violation by itself" % (
                    m[0], l, step and step["ev"], st.get("why") or "state differs from the model", e.name))
            continue
        ctx.violation(vkey, "allocator work-list run of %s (%s) leaves IRC.tla at step %s (%s): %s [%s]" % (
            m[1]["fn"], m[1]["arch"], l, step and step["ev"], st.get("why") or "state differs from the model", e.name),
            {"key": m[0], "source": m[2], "clause": e.name, "irc_case": cases[f - 1],
             "state": {k: str(v)[:800] for k, v in st.items() if k != "inst"}})
    return res


# clauses by which a control may be rejected (a changed colour also breaks the legality of a
# coalesced move that was deleted, which is met first on some paths)
CONTROL_CLAUSES = {"colour": {"ReadsSeeLatestDef", "NoSharing", "CoalescedSameLoc"}, "move": {"CoalescedSameLoc"},
                   "slot": {"ReadsSeeLatestDef"}}


def judge(ctx, payload, meta, label, workers=8, cap=None, with_controls=True, depth=0):
    """Run AllocCheck_Trace over the cases; map every error to its case."""
    import os

    if not payload["cases"]:
        return None
    cap = cap or (4000000 if ctx.tier == "quick" else 20000000)
    ctl = controls(payload) if with_controls else []
    full = {"archs": payload["archs"], "cases": payload["cases"] + [c for c, _ in ctl]}
    path = ctx.trace_file(full)
    res = ctx.tlc("AllocCheck_Trace", TRACE_CFG % cap, label=label, env={"TRACE_FILE": path}, continue_=True,
                  workers=workers, heap="12g")
    os.unlink(path)
    n = len(meta)
    if res.distinct >= cap:
        # state cap hit: nothing can be concluded for this batch as a whole; split it
        if n == 1:
            ctx.cov["inconclusive_state_cap"] = ctx.cov.get("inconclusive_state_cap", 0) + 1
            ctx.note("state cap %d reached for %s: inconclusive" % (cap, meta[0][0]))
            return res
        half = n // 2
        for lo, hi in ((0, half), (half, n)):
            judge(ctx, {"archs": payload["archs"], "cases": payload["cases"][lo:hi]}, meta[lo:hi], label + "/split",
                  workers=workers, cap=cap, with_controls=False, depth=depth + 1)
        return res
    ctx.cov["traces_validated_against_impl"] += n
    seen = set()
    rejected = {}
    for e in res.errors:
        st = e.last
        f = st.get("f")
        if e.kind != "invariant" or not isinstance(f, int) or f < 1 or f > len(full["cases"]):
            raise MachineryError("unexpected TLC error in AllocCheck run: %s\n%s" % (e, e.text[:1500]))
        if f > n:
            kind = ctl[f - n - 1][1]
            if e.name in CONTROL_CLAUSES[kind]:
                rejected[kind] = rejected.get(kind, 0) + 1
            continue
        m = meta[f - 1]
        vkey = "%s:%s" % (m[0], e.name)
        if vkey in seen:
            continue
        seen.add(vkey)
        case = payload["cases"][f - 1]
        ctx.violation(vkey, explain(m, case, st, e.name),
                      {"key": m[0], "source": m[2], "clause": e.name, "arch": payload["archs"][case["arch"] - 1],
                       "case": case, "texts": [x["t"] for x in (m[3]["after"] if m[3] else m[1]["rounds"][-1])],
                       "regs": [x["n"] for x in m[1]["regs"]],
                       "state": {k: str(v)[:600] for k, v in st.items()}})
    for kind in sorted({k for _, k in ctl}):
        ctx.cov["controls_" + kind] = ctx.cov.get("controls_" + kind, 0) + sum(1 for _, k in ctl if k == kind)
        ctx.cov["controls_rejected_" + kind] = ctx.cov.get("controls_rejected_" + kind, 0) + rejected.get(kind, 0)
        if not rejected.get(kind):
            raise MachineryError("negative control: none of the corrupted '%s' cases was rejected by AllocCheck" % kind)
    return res


class Engine:
    LEVEL = "model_checking"

    def run(self, ctx):
        thorough = ctx.tier == "thorough"
        ctx.rule("M: IRC_MC — the work-list machine of GraphColoringRegisterAllocator (IRC.tla: simplify / coalesce with "
                 "George and Briggs tests and the pq measure / freeze / select spill / assign colours) on every interference "
                 "graph with 4 nodes x <=1 move x K=2 (thorough: + pre-coloured nodes, 2 moves, K=3, the aliasing register "
                 "pair classes, every pop() choice, any work-list order): Appel's work-list invariants, cache coherence of "
                 "_num_blocked, no lost interference edge, no exception, proper alias-aware colouring. "
                 "AllocCheck_MC — every program of <= MaxLen instructions over 2 virtual + 3 machine names (one "
                 "aliasing pair) x every colouring: a colouring proper w.r.t. the interference relation is accepted on "
                 "all paths, data-flow liveness = path liveness, improper colourings are rejected (witness runs). "
                 "T: every alloc_frame performed while generated C (harness/absprog.py, register-pressure generator) "
                 "and IR (harness/irgen.py) programs are compiled by ir_to_object for each target; per frame one "
                 "ColourCheck case (last-round list vs emitted list + colours, all paths) and one SpillRewriteCheck "
                 "case per rewrite_program call; distinct = distinct (program, target, level, function[, rewrite])")
        ctx.assume("ppci's use/def/clobber/jump/ismove annotations are the allocator's input contract (their truth is C07)")
        ctx.assume("harness/regalloc_trace.py copies operands, colours and Register.aliases faithfully; instruction identity "
                   "is Python object identity")
        ctx.assume("a recorded spill load/store block is an atomic slot<->register transfer (its machine semantics is C04/C05)")
        if ctx.only is not None:
            return self.replay(ctx)
        self.model_check(ctx, thorough)
        if thorough:
            plan = {"w64": (7, 12, 9), "w32": (3, 6, 5), "w32only": (2, 4, 3), "w16": (2, 3, 2)}
            levels = ("0", "2")
        else:
            plan = {"w64": (2, 5, 3), "w32": (1, 2, 1), "w32only": (1, 1, 1), "w16": (1, 1, 1)}
            levels = ("2",)
        recs = record_corpus(ctx, sources(ctx, plan), levels, steps_every=1 if thorough else 2)
        self.check_records(ctx, recs)
        cases, meta = irc_cases(ctx, recs)
        limit = 160 if thorough else 40        # rounds replayed into IRC.tla (smallest graphs first)
        order = sorted(range(len(cases)), key=lambda k: (cases[k]["inst"]["N"], k))[:limit]
        ctx.cov["irc_rounds_not_replayed"] = max(0, len(cases) - limit)
        judge_irc(ctx, [cases[k] for k in order], [meta[k] for k in order])

    def check_records(self, ctx, recs):
        batch = 400
        nspill = 0
        for part in core.chunks(recs, batch):
            payload, meta = build_cases(ctx, part)
            for m in meta:
                ctx.count(m[0])
                if m[3] is not None:
                    nspill += 1
            for m in meta[:: max(1, len(meta) // 3)][:2]:
                ctx.sample({"key": m[0], "arch": m[1]["arch"], "rounds": [len(x) for x in m[1]["rounds"]],
                            "rewrites": len(m[1]["rewrites"]),
                            "removed_moves": len(m[1]["premove"]) - len(m[1]["postmove"])})
            judge(ctx, payload, meta, "allocations")
        ctx.cov["frames"] = ctx.cov.get("frames", 0) + len(recs)
        ctx.cov["spill_rewrites"] = ctx.cov.get("spill_rewrites", 0) + nspill

    def model_check(self, ctx, thorough):
        # design level: the allocator's work-list algorithm (IRC.tla) on all small interference graphs
        for cfg in (IRC_THOROUGH if thorough else IRC_QUICK):
            res = ctx.tlc("IRC_MC", IRC_CFG % cfg, label="IRC %s N=%d..%d pre<=%d moves<=%d" % (cfg[4], cfg[0], cfg[1], cfg[2], cfg[3]),
                          workers=8)
            for e in res.errors:
                raise MachineryError("IRC.tla (model of GraphColoringRegisterAllocator) violates %s on a small graph: "
                                     "%s\n%s" % (e.name, e, e.text[:3000]))
        maxlen, menu = (3, "small") if thorough else (2, "small")
        res = ctx.tlc("AllocCheck_MC", MC_CFG % (maxlen, menu), label="AllocCheck self-test", workers=8)
        for e in res.errors:
            raise MachineryError("AllocCheck self-test fails in the specification itself: %s\n%s" % (e, e.text[:1500]))
        if not thorough:
            return   # quick tier: anti-vacuity through the negative controls of the trace run
        # anti-vacuity: the machine must be able to reject (each clause has a witness among improper
        # colourings / broken rewrites of the tiny menu)
        # (ReadsSeeLatestDef and CoalescedSameLoc have their witnesses among the negative controls of the trace run)
        for inv in ("NoSharing", "SpillReadsSeeLatestDef"):
            r = ctx.tlc("AllocCheck_MC", MC_WITNESS_CFG % (3, "tiny", inv), label="witness " + inv, workers=8)
            if not any(e.kind == "invariant" and e.name == inv for e in r.errors):
                raise MachineryError("AllocCheck self-test: no improper colouring violates %s (vacuous clause)" % inv)

    def replay(self, ctx):
        """Re-judge exactly the recorded case of a replay file."""
        c = ctx.only.get("case") or {}
        if "irc_case" in c:
            ctx.count(c["key"])
            judge_irc(ctx, [c["irc_case"]], [(c["key"], {"fn": c["key"], "arch": "?"}, c.get("source"), 0)])
            return
        if "case" not in c or "arch" not in c:
            raise MachineryError("replay file has no recorded case")
        case = dict(c["case"])
        case["arch"] = 1
        key = c["key"]
        rec = {"fn": key, "arch": "?", "regs": [{"n": n} for n in c.get("regs", [])],
               "rounds": [[{"t": t, "u": [], "d": []} for t in c.get("texts", [])]]}
        rw = {"after": rec["rounds"][0]} if case["mode"] == "spill" else None
        ctx.count(key)
        judge(ctx, {"archs": [c["arch"]], "cases": [case]}, [(key, rec, c.get("source"), rw)], "replay",
              with_controls=False)
