"""C33 — IntegerSet vs. IntSet.tla (idioms M + E).

M: the algorithms of integer_set.py (constructor/merge, intersection and difference sweeps, bisect
   membership) as a TLA+ state machine, model-checked against the denotational definitions; laws of
   the canonical form; equivalence of the critical-point judgement used for big integers.
E: every recorded call of the real class judged by TLC (IntSet_Eval.tla).
Python only builds inputs, drives the real class and records what it did.
"""
import itertools

from harness import core
from harness.tlcclean import clean as _clean
from harness.watchdog import limited

LIMB = 24                      # unbounded integers go to TLC as sign + limbs in base 2^24
MC_CFG = """CONSTANT Base = 4
CONSTANT UN = %d
CONSTANT NormN = %d
CONSTANT NormR = %d
CONSTANT CritN = %d
CONSTANT CritRA = %d
CONSTANT ZN = %d
INIT Init
NEXT Next
CHECK_DEADLOCK FALSE
INVARIANT TypeOK
INVARIANT CanonLaw
INVARIANT CanonUnique
INVARIANT MergeInv
INVARIANT NormDone
INVARIANT InterInv
INVARIANT InterDone
INVARIANT DiffInv
INVARIANT DiffDone
INVARIANT ContainsDone
INVARIANT CompositionLaw
INVARIANT CritLaw
INVARIANT ZLaw
"""
EVAL_CFG = """CONSTANT Base = 16777216
INIT Init
NEXT Next
CHECK_DEADLOCK FALSE
INVARIANT SetAlgebra
INVARIANT CanonicalForm
INVARIANT Membership
INVARIANT CardinalityOk
INVARIANT Iteration
INVARIANT EqualSetsCompareEqual
"""
MC_ACTIONS = ("PickInput", "PickA", "PickB", "PickProbe", "PickCritA", "PickCritBR", "PickZ",
              "NormFilterSort", "MergeStart", "MergeHole", "MergeExtend", "MergeFinish", "SweepStart",
              "InterOverlap", "InterDisjoint", "InterFinish", "DiffDrain", "DiffSkipS", "DiffEmitR",
              "DiffOverlapTail", "DiffOverlapEnd", "DiffFinish", "ContainsEval")
BATCH = 70000
# TLC (this version) re-reads the JSON trace once per worker before the search starts; the records are
# cheap to judge, so few workers are faster than 16
EVAL_WORKERS = 4
U0, UN = -3, 7                 # the small universe: U0 .. U0+UN-1  (negative, zero and positive members)
GUARD = 64                     # |endpoint| bound of what is handed to TLC's set enumeration (small mode)
BINOPS = (("union", "__or__"), ("intersection", "__and__"), ("difference", "__sub__"),
          ("symmetric_difference", "__xor__"))


# ---------------------------------------------------------------- inputs --
def runs_of(mask):
    """Maximal runs of the subset `mask` of the small universe (input construction only)."""
    out, start = [], None
    for i in range(UN + 1):
        if i < UN and mask >> i & 1:
            if start is None:
                start = i
        elif start is not None:
            out.append((U0 + start, U0 + i - 1))
            start = None
    return out


def variants(mask, rng):
    """Different argument lists that all build the subset `mask`: canonical, single integers,
    split into adjacent / overlapping pieces, duplicates, nested, unsorted, with empty ranges."""
    rs = runs_of(mask)
    elems = [x for a, b in rs for x in range(a, b + 1)]
    vs = []
    vs.append([(a, b) for a, b in rs])                                   # 0 canonical tuples
    v = list(elems)
    rng.shuffle(v)
    vs.append(v)                                                          # 1 single ints, shuffled
    v = []
    for a, b in reversed(rs):                                             # 2 adjacent pieces, descending
        if b > a:
            m = rng.randrange(a, b)
            v += [(m + 1, b), (a, m)]
        else:
            v.append(a)
    vs.append(v)
    v = []
    for a, b in rs:                                                       # 3 overlapping pieces + duplicates
        m = rng.randrange(a, b + 1)
        v += [(a, m), (m, b), (a, b)]
    rng.shuffle(v)
    vs.append(v)
    v = []
    for a, b in rs:                                                       # 4 nested + empty ranges + ints
        v += [(a, b), (b, a - 1), rng.randrange(a, b + 1), (rng.randrange(a, b + 1), b), (b + 1, a)]
    rng.shuffle(v)
    vs.append(v + [(U0 + UN, U0 - 1)])
    vs.append([(x, x) for x in reversed(elems)])                          # 5 adjacent singleton tuples, descending
    for _ in range(2):                                                    # 6,7 random covers
        v = []
        for a, b in rs:
            todo = set(range(a, b + 1))
            while todo:
                lo = rng.randrange(a, b + 1)
                hi = rng.randrange(lo, b + 1)
                v.append((lo, hi) if rng.random() < 0.8 or lo != hi else lo)
                todo -= set(range(lo, hi + 1))
        if rng.random() < 0.5:
            v.append((rng.randrange(U0, U0 + UN), U0 - 2))
        rng.shuffle(v)
        vs.append(v)
    return vs


def zl(v):
    """Unbounded integer for IntSet.tla: sign + magnitude limbs (base 2^24, least significant first)."""
    m, limbs = abs(v), []
    while m:
        limbs.append(m & ((1 << LIMB) - 1))
        m >>= LIMB
    return {"neg": v < 0, "limbs": limbs}


def unzl(z):
    m = sum(l << (LIMB * i) for i, l in enumerate(z["limbs"]))
    return -m if z["neg"] else m


def as_pairs(values):
    return [[v, v] if isinstance(v, int) else [v[0], v[1]] for v in values]


def show(values):
    return "[" + ",".join(str(v) if isinstance(v, int) else "(%d,%d)" % v for v in values) + "]"


# ------------------------------------------------------------ observation --
def _guard(fn):
    try:
        return limited(fn, 1.0, what="IntegerSet")
    except Exception as e:  # the outcome class is the observation
        return {"ok": False, "exc": type(e).__name__}


def _is_int(v):
    return isinstance(v, int) and not isinstance(v, bool)


def obs_ranges(obj_fn, big):
    """Projection of a result object: its range list (the representation the property talks about)."""
    def f():
        o = obj_fn()
        rs = getattr(o, "ranges", None) if not isinstance(o, (list, tuple)) else o
        if rs is None or not isinstance(rs, (list, tuple)):
            return {"ok": False, "exc": "no-ranges:" + type(o).__name__}
        out = []
        for r in rs:
            if not (isinstance(r, (tuple, list)) and len(r) == 2 and _is_int(r[0]) and _is_int(r[1])):
                return {"ok": False, "exc": "bad-range"}
            if not big and (abs(r[0]) > GUARD or abs(r[1]) > GUARD):
                return {"ok": False, "exc": "endpoint-outside-universe:%d..%d" % (r[0], r[1])}
            out.append([zl(r[0]), zl(r[1])] if big else [r[0], r[1]])
        return {"ok": True, "ranges": out}
    return _guard(f)


def obs_bool(fn):
    def f():
        v = fn()
        if not isinstance(v, bool):
            return {"ok": False, "exc": "returned:" + type(v).__name__}
        return {"ok": True, "t": v}
    return _guard(f)


def obs_int(fn, big):
    def f():
        v = fn()
        if not _is_int(v):
            return {"ok": False, "exc": "returned:" + type(v).__name__}
        if big:
            return {"ok": True, "n": zl(v)}
        if not 0 <= v < 1 << 20:
            return {"ok": False, "exc": "count:%d" % v}
        return {"ok": True, "n": v}
    return _guard(f)


def obs_iter(obj, big):
    def f():
        vals = list(itertools.islice(iter(obj), 200))
        if len(vals) >= 200 or not all(_is_int(v) for v in vals):
            return {"ok": False, "exc": "iteration-too-long-or-not-int"}
        if not big and any(abs(v) > GUARD for v in vals):
            return {"ok": False, "exc": "element-outside-universe"}
        return {"ok": True, "seq": [zl(v) for v in vals] if big else vals}
    return _guard(f)


class Recorder:
    def __init__(self, IntegerSet, merge):
        self.IntegerSet = IntegerSet
        self.merge = merge
        self.recs = []
        self.keys = set()

    def add(self, f, key, big, **kw):
        r = {"f": f, "key": "C33:%s:%s" % (f, key), "big": big}
        if r["key"] in self.keys:       # the same call again (argument lists coincide for tiny sets)
            return
        self.keys.add(r["key"])
        r.update(kw)
        self.recs.append(r)

    def build(self, values):
        try:
            return limited(lambda: self.IntegerSet(*values), 1.0, what="IntegerSet")
        except Exception as e:
            return e

    def pairs(self, values, big):
        p = as_pairs(values)
        return [[zl(a), zl(b)] for a, b in p] if big else p

    # -- unary observations of one constructed set ---------------------------
    def unary(self, values, big, probes, what=("construct", "merge", "contains", "cardinality", "bool", "iter")):
        a = self.pairs(values, big)
        ka = ("big:" if big else "") + "a=" + show(values)
        obj = self.build(values)
        fail = {"ok": False, "exc": type(obj).__name__} if isinstance(obj, Exception) else None
        ranges = fail or obs_ranges(lambda: obj, big)
        if "construct" in what:
            self.add("construct", ka, big, a=a, out=ranges)
        if "merge" in what:
            srt = sorted((lo, hi) for lo, hi in as_pairs(values) if lo <= hi)
            self.add("merge", ("big:" if big else "") + "a=" + show(srt), big, a=self.pairs(srt, big),
                     out=obs_ranges(lambda: list(self.merge(list(srt))), big))
        if "contains" in what:
            for x in probes:
                self.add("contains", "%s;x=%d" % (ka, x), big, a=a, x=zl(x) if big else x,
                         out=fail or obs_bool(lambda: obj.contains(x)), out2=fail or obs_bool(lambda: x in obj))
        if "cardinality" in what:
            rr = ranges["ranges"] if ranges.get("ok") else []
            self.add("cardinality", ka, big, a=a, ranges=rr, out=fail or obs_int(obj.cardinality, big),
                     out2=fail or (obs_int(obj.cardinality, big) if big else obs_int(lambda: len(obj), big)))
        if "bool" in what:
            self.add("bool", ka, big, a=a, out=fail or obs_bool(lambda: bool(obj)), out2=fail or obs_bool(obj.empty))
        if "iter" in what:
            rr = ranges["ranges"] if ranges.get("ok") else []
            self.add("iter", ka, big, a=a, ranges=rr, out=fail or obs_iter(obj, big))
        return obj

    # -- binary operations and comparison --------------------------------------
    def binary(self, va, vb, oa, ob, big, ops=BINOPS):
        a, b = self.pairs(va, big), self.pairs(vb, big)
        k = ("big:" if big else "") + "a=%s;b=%s" % (show(va), show(vb))
        bad = next(({"ok": False, "exc": type(o).__name__} for o in (oa, ob) if isinstance(o, Exception)), None)
        for name, dunder in ops:
            self.add(name, k, big, a=a, b=b,
                     out=bad or obs_ranges(lambda: getattr(oa, name)(ob), big),
                     out2=bad or obs_ranges(lambda: getattr(type(oa), dunder)(oa, ob), big))

    def equal(self, va, vb, oa, ob, big):
        a, b = self.pairs(va, big), self.pairs(vb, big)
        k = ("big:" if big else "") + "a=%s;b=%s" % (show(va), show(vb))
        bad = next(({"ok": False, "exc": type(o).__name__} for o in (oa, ob) if isinstance(o, Exception)), None)
        self.add("eq", k, big, a=a, b=b, out=bad or obs_bool(lambda: oa == ob), out2=bad or obs_bool(lambda: oa != ob),
                 hasheq=bad or obs_bool(lambda: hash(oa) == hash(ob)))


def small_records(ctx, rec):
    """Every subset of the 7-element universe from several argument lists; every pair of subsets."""
    rng = ctx.rng
    thorough = ctx.tier == "thorough"
    n = 1 << UN
    var = [variants(m, rng) for m in range(n)]
    objs = [[None] * len(v) for v in var]
    probes = range(U0 - 2, U0 + UN + 2)
    for m in range(n):
        for j, v in enumerate(var[m]):
            full = thorough or j in (m % 8, (m + 3) % 8)
            objs[m][j] = rec.unary(v, False, probes if full else (),
                                   ("construct", "merge", "contains", "cardinality", "bool", "iter") if full
                                   else ("construct", "merge"))
    # all pairs of subsets; the argument-list variant rotates with the pair
    for ma in range(n):
        for mb in range(n):
            ja, jb = (ma + 3 * mb) % 8, (5 * ma + mb + 1) % 8
            if ma == mb and ja == jb:
                jb = (jb + 1) % 8
            # quick: all pairs inside the 6-element sub-universe, a seeded half of the rest
            if not thorough and (ma | mb) >> (UN - 1) and rng.random() > 0.5:
                continue
            rec.binary(var[ma][ja], var[mb][jb], objs[ma][ja], objs[mb][jb], False)
            rec.equal(var[ma][ja], var[mb][jb], objs[ma][ja], objs[mb][jb], False)
    # equal sets built differently must compare (and hash) equal: every subset, several variant pairs
    for m in range(n):
        for ja, jb in ((0, 1), (2, 3), (4, 5), (6, 0), (7, 2)) if thorough else ((0, 1 + m % 7), (3, 4)):
            rec.equal(var[m][ja], var[m][jb], objs[m][ja], objs[m][jb], False)


def big_records(ctx, rec):
    """Random sets over large integers (beyond 32 and 64 bits), ranges built on a shared grid of
    clustered points so that overlap, adjacency and containment happen."""
    rng = ctx.rng
    thorough = ctx.tier == "thorough"
    anchors = [0, 1 << 31, 1 << 32, 1 << 63, 1 << 64, -(1 << 31), -(1 << 63), -(1 << 64), 0x10FFFF, 1 << 100]
    for case in range(1500 if thorough else 110):
        grid = set()
        for _ in range(rng.randrange(2, 5)):
            p = rng.choice(anchors) + rng.randrange(-3, 4) if rng.random() < 0.7 else rng.randrange(-(1 << 70), 1 << 70)
            for d in range(rng.randrange(1, 6)):
                grid.add(p + d + (rng.randrange(0, 2) if d else 0))
        grid = sorted(grid)

        def rset():
            vals = []
            for _ in range(rng.randrange(0, 5)):
                i = rng.randrange(len(grid))
                j = min(len(grid) - 1, i + rng.choice((0, 0, 1, 1, 2, 3, len(grid))))
                lo, hi = grid[i], grid[j]
                r = rng.random()
                if r < 0.08:
                    lo, hi = hi + 1, lo          # empty range
                elif r < 0.25 and lo == hi:
                    vals.append(lo)              # single integer argument
                    continue
                vals.append((lo, hi))
            return vals

        va, vb = rset(), rset()
        pts = sorted({g + d for g in rng.sample(grid, min(4, len(grid))) for d in (-1, 0, 1)})
        small = sum(max(0, hi - lo + 1) for lo, hi in as_pairs(va)) <= 40
        oa = rec.unary(va, True, pts, ("construct", "contains", "cardinality", "bool") + (("iter",) if small else ()))
        ob = rec.unary(vb, True, (), ("construct", "cardinality"))
        rec.binary(va, vb, oa, ob, True)
        rec.equal(va, vb, oa, ob, True)
        # the same set written differently: shuffled, each range split in two adjacent pieces
        vc = []
        for lo, hi in as_pairs(va):
            if lo < hi:
                m = rng.randrange(lo, hi)
                vc += [(m + 1, hi), (lo, m)]
            else:
                vc.append((lo, hi))
        rng.shuffle(vc)
        oc = rec.build(vc)
        rec.equal(va, vc, oa, oc, True)


def records(ctx, integer_set):
    rec = Recorder(integer_set.IntegerSet, integer_set.merge_overlapping_intervals)
    small_records(ctx, rec)
    big_records(ctx, rec)
    return rec.recs


def _what(r, e):
    outs = {k: r[k] for k in ("out", "out2", "hasheq") if k in r}

    def sh(o):
        if not o.get("ok"):
            return "raised/returned " + str(o.get("exc"))
        if "ranges" in o:
            return "{" + ",".join("%s..%s" % tuple(unzl(v) if isinstance(v, dict) else v for v in x) for x in o["ranges"]) + "}"
        return str({k: v for k, v in o.items() if k != "ok"})
    return "%s observed %s, which the set-theoretic definition does not allow" % (
        r["key"], "; ".join("%s=%s" % (k, sh(v)) for k, v in outs.items()))


class Engine:
    LEVEL = "model_checking"

    def run(self, ctx):
        thorough = ctx.tier == "thorough"
        ctx.rule("M: constructor/merge, intersection and difference sweeps and bisect membership of integer_set.py as a "
                 "TLA+ state machine vs. the denotational definitions (all pairs of subsets of a UN-element universe, "
                 "all lists of <=NormR ranges), uniqueness of the canonical form, critical-point judgement = denotational "
                 "judgement, unbounded-integer operators = integer operators. E: recorded calls of IntegerSet: every "
                 "subset of the 7-element universe -3..3 constructed from 8 different argument lists (canonical, single "
                 "ints, adjacent/overlapping pieces, duplicates, nested, unsorted, empty ranges); union/intersection/"
                 "difference/symmetric_difference (method and operator) and ==/!=/hash on pairs of subsets (thorough: "
                 "all 16384 pairs; quick: all 4096 pairs of the 6-element sub-universe + a seeded half of the rest); "
                 "contains/in for every probe in -5..5, cardinality/len, bool/empty, iteration, "
                 "merge_overlapping_intervals; seeded random sets over integers up to 2^100 judged by critical points; "
                 "distinct = distinct (operation, argument lists)")
        ctx.assume("Python-side encoding of big integers into sign + base-2^24 limbs (engines/c33.py: zl) is correct")
        ctx.assume("a result is observed through its .ranges attribute (the representation the canonical-form clause "
                   "speaks about); results with endpoints beyond +-64 in the small universe are recorded as failures")
        if ctx.only is None:
            res = ctx.tlc("IntSet_MC", MC_CFG % ((8, 4, 3, 4, 1, 70) if thorough else (5, 3, 3, 3, 1, 40)), label="laws")
            _clean(res, "IntSet_MC")
            for e in res.errors:
                raise core.tlcmod.MachineryError("IntSet law fails in the specification itself: %s" % e)
            missing = [a for a in MC_ACTIONS if not ctx.cov["actions"].get("IntSet_MC." + a)]
            if missing:
                raise core.tlcmod.MachineryError("IntSet_MC: actions never taken: %s" % missing)
        try:
            from ppci.utils import integer_set
            integer_set.IntegerSet, integer_set.merge_overlapping_intervals
        except Exception as e:  # a changed tree may not even import: that is a failure of the property
            ctx.violation("C33:import", "ppci.utils.integer_set cannot be used: %s: %s" % (type(e).__name__, e))
            return
        recs = records(ctx, integer_set)
        if ctx.only is not None:
            recs = [r for r in recs if r["key"] == ctx.only["key"]]
        for r in recs:
            ctx.count(r["key"])
        for r in recs[:: max(1, len(recs) // 4)]:
            ctx.sample({k: r[k] for k in ("key", "out")})
        for n, part in enumerate(core.chunks(recs, BATCH)):
            res = core.eval_records(ctx, "IntSet_Eval", EVAL_CFG, part, keyfn=lambda r: r["key"], whatfn=_what,
                                    label="calls-%d" % n, workers=EVAL_WORKERS)
            _clean(res, "IntSet_Eval", expect_states=len(part) + 65)
