"""C05 — machine code generated for x86_64 and for RISC-V (riscv, riscv:rvc) preserves IR behaviour.

x86_64 part
T: IRNative.tla  IR modules (harness/irgen.py: all integer types / operators / phis / loops / allocas / globals /
                 CopyBlob / calls / externals;  harness/irpatterns.py: directed shapes) are compiled by ppci for
                 x86_64 at optimisation levels 0/1/2/s into relocatable ELF objects, linked by gcc with a
                 gcc-compiled driver and executed by the host CPU (harness/native.py, always in subprocesses);
                 TLC executes the same module under IR.tla and checks NativeCompletes / NativeReturn / NativeExit /
                 NativeGlobals / NativeCalls on every recorded observation.
M: IRNative_MC   the judgement itself on micro programs with correct and corrupted observations (each clause must
                 accept the former and reject exactly the corrupted field).

RISC-V part (riscv and riscv:rvc; no emulator in the sandbox: the ISA itself is a TLA+ module)
B: RV32_Run.tla  IR modules restricted to types of at most 32 bits (irgen, irpatterns, directed modules, C programs from
   + IR.tla      harness/absprog.py through c_to_ir) are compiled with api.optimize + api.ir_to_object for both
                 variants at levels 0/1/2/s, linked by ppci's own linker (code at 0x1000, data at 0x8000; rvc code is
                 relaxed by the linker), and the image is executed by TLC under tla/RV32.tla: RV32_Run loads the
                 sections into the byte memory, sets up the call as RiscvArch.determine_arg_locations says (arguments in
                 x12.., memory arguments at sp+offset, ra = a sentinel), runs Decode / Exec until pc = sentinel and prints
                 the observation (status, x10, final bytes of every global, sp / callee-saved registers restored).  A second
                 TLC run executes the un-optimised module under IR.tla with that observation as the case's `obs` record;
                 invariant ObsMatchesImpl decides.  External functions are assembled stubs that return the value of the
                 case's stub table.
M: RV32_Run      the loader / call wrapper / observation on hand-written images with known results (AsExpected).

Not covered: ARM / Thumb / m68k / MIPS (no emulator in the sandbox and no TLA+ ISA model).
Also the shared driver for engines/c04.py (C programs, two link paths).
"""
import logging
import random

from harness import core, irgen, native, project_ir
from harness import armrun
from harness import mipsrun
from harness import m68krun
from harness.tlc import MachineryError

logging.getLogger().addHandler(logging.NullHandler())   # ppci warns through logging; keep the check's output clean

T_CFG = """INIT NInit
NEXT NNext
CHECK_DEADLOCK FALSE
INVARIANT NativeCompletes
INVARIANT NativeReturn
INVARIANT NativeExit
INVARIANT NativeGlobals
INVARIANT NativeCalls
INVARIANT NeverStuck
INVARIANT TypeOK
"""
MC_CFG = """INIT MInit
NEXT MNext
CHECK_DEADLOCK FALSE
INVARIANT VerdictAsExpected
"""
LEVELS = ("0", "1", "2", "s")
BITS = irgen.BITS
TY_BYTES = {"i8": 1, "u8": 1, "i16": 2, "u16": 2, "i32": 4, "u32": 4, "i64": 8, "u64": 8}
BINOPS = ["+", "-", "*", "/", "%", "|", "&", "^", "<<", ">>", "rol", "ror"]
FUEL = 6000
ANCHOR_SEEDS = (640833115,)     # irgen module in which a spilled `neg` loses its result (known.d/C05.json spilled-rmw)
WORKERS = 8


# ---------------------------------------------------------------------------------------------------
# which elementary operations does the x86_64 back-end select at all?  (C29 lists the ones it does not)
# ---------------------------------------------------------------------------------------------------
def probe_unsupported(ctx):
    from ppci import api, ir
    from ppci.binutils.debuginfo import DebugDb

    bad = set()
    for t in irgen.INT_TYPES:
        T = getattr(ir, t)
        for kind, ops in (("binop", BINOPS), ("unop", ["-", "~"])):
            for op in ops:
                m = ir.Module("probe", debug_db=DebugDb())
                f = ir.Function("f", ir.Binding.GLOBAL, T)
                m.add_function(f)
                e = ir.Block("f_entry")
                f.add_block(e)
                f.entry = e
                a = ir.Parameter("a", T)
                f.add_parameter(a)
                if kind == "binop":
                    b = ir.Parameter("b", T)
                    f.add_parameter(b)
                    v = ir.Binop(a, op, b, "v", T)
                else:
                    v = ir.Unop(op, a, "v", T)
                e.add_instruction(v)
                e.add_instruction(ir.Return(v))
                try:
                    api.ir_to_object([m], "x86_64")
                except Exception:
                    bad.add((kind, op, t))
    ctx.cov["x86_64_unselectable_elementary_ops"] = len(bad)
    return bad


def restrict(m, bad):
    """Rewrite, in place, the elementary operations the back-end cannot select (C29's findings) into ones it can:
    an unsupported binary operator becomes `^` (or `+`), an unsupported unary operator becomes a + a.  The result is
    simply another module; the specification is run on it, nothing relies on equivalence."""
    from ppci import ir

    changed = 0
    for f in m.functions:
        for b in f.blocks:
            for ins in list(b.instructions):
                if isinstance(ins, ir.Binop) and ("binop", ins.operation, ins.ty.name) in bad:
                    ins.operation = "^" if ("binop", "^", ins.ty.name) not in bad else "+"
                    changed += 1
                elif isinstance(ins, ir.Unop) and ("unop", ins.operation, ins.ty.name) in bad:
                    new = ir.Binop(ins.a, "+", ins.a, ins.name, ins.ty)
                    b.insert_instruction(new, before_instruction=ins)
                    ins.replace_by(new)
                    b.remove_instruction(ins)
                    changed += 1
    return changed


# ---------------------------------------------------------------------------------------------------
# corpus
# ---------------------------------------------------------------------------------------------------
def irgen_programs(ctx, n, bad, nvec, seeds=None):
    from engines.c02 import int_vectors

    out = []
    rng = random.Random("%d:c05:irgen" % ctx.seed)
    # always in: generator seeds on which a listed finding was first observed (regression anchors)
    seeds = seeds or (list(ANCHOR_SEEDS) + [rng.randrange(1 << 30) for _ in range(n)])
    for seed in seeds:

        def make(seed=seed):
            m, info = irgen.gen_module(random.Random(seed))
            restrict(m, bad)
            return m

        try:
            _, info = irgen.gen_module(random.Random(seed))
        except Exception:
            ctx.cov["irgen_failed"] = ctx.cov.get("irgen_failed", 0) + 1
            continue
        prng = random.Random(seed ^ 0x5EED)
        vecs = int_vectors(info["params"], prng, nvec)
        ext = [{"name": x, "rets": [project_ir.limbs(prng.randrange(-5, 40), 4) for _ in range(6)]} for x in info["externs"]]
        out.append({"key": "ir%d" % seed, "make": make, "fn": info["main"], "vecs": vecs, "ext": ext,
                    "src": "harness/irgen.py gen_module(random.Random(%d)) with the operations x86_64 cannot select rewritten "
                           "(engines/c05.py restrict)" % seed})
    return out


def pattern_programs(ctx, n, bad, nvec, thorough=False):
    from engines.c02 import int_vectors
    from harness import irpatterns

    rng = random.Random("%d:c05:pat" % ctx.seed)
    pats = irpatterns.patterns(random.Random(rng.randrange(1 << 30)), thorough=thorough)
    if n < len(pats):
        # loops that test their own phi are always in (a shape with a listed finding), the rest is sampled
        # ... and the loops whose phis depend on each other (parallel phi copies), the rotating tail calls
        ALWAYS = (":self_loop:", ":cross_loop:", ":swap_loop:", "tail:rotate:", "tail:swap:")
        always = [p for p in pats if any(a in p[0] for a in ALWAYS)]
        rest = [p for p in pats if not any(a in p[0] for a in ALWAYS)]
        pats = always + rng.sample(rest, max(0, n - len(always)))
    out = []
    for key, mk, fn, ptys in pats:
        prng = random.Random(sum(ord(ch) * (k + 1) for k, ch in enumerate(key)))

        def make(mk=mk):
            m = mk()
            restrict(m, bad)
            return m

        vecs = int_vectors(ptys, prng, nvec)
        out.append({"key": key.replace(":", "."), "make": make, "fn": fn, "vecs": vecs,
                    "ext": [{"name": "ext_f", "rets": [project_ir.limbs(9, 4)]}],
                    "src": "harness/irpatterns.py pattern " + key})
    return out


def directed_programs(ctx, bad, nvec):
    """Register pressure on purpose: N values of one type (N exceeds the registers of the class) are each replaced by
    the result of a unary / shift operation and all results stay live, so some of the operated registers are spilled."""
    from engines.c02 import int_vectors
    from harness.irpatterns import B
    from ppci import ir

    out = []
    for t, n in (("i16", 9), ("u16", 9), ("i32", 16), ("u64", 16), ("u8", 6)):
        for op in ("neg", "not", "shl", "shr"):
            if (op in ("neg", "not") and ("unop", "-" if op == "neg" else "~", t) in bad) or \
                    (op in ("shl", "shr") and ("binop", "<<" if op == "shl" else ">>", t) in bad):
                continue

            def make(t=t, n=n, op=op):
                b = B("f", t, [t, t])
                a, sh = b.p
                T = getattr(ir, t)
                vals = [b.bin(a, "+", b.c(3 * k + 1, t), t) for k in range(n)]
                amount = b.bin(sh, "&", b.c(3, t), t)
                res = []
                for v in vals:
                    if op == "neg":
                        res.append(b.e(ir.Unop("-", v, b.nm("n"), T)))
                    elif op == "not":
                        res.append(b.e(ir.Unop("~", v, b.nm("n"), T)))
                    else:
                        res.append(b.bin(v, "<<" if op == "shl" else ">>", amount, t))
                # every operand dies at its operation (so it is coalesced with the result), every result lives to the end
                # (each result is used twice, otherwise the selector folds it into the tree of its single use)
                acc = b.c(0, t)
                for k, r in enumerate(res):
                    acc = b.bin(acc, "+", b.bin(r, "^", b.c(5 * k + 2, t), t), t)
                for k, r in enumerate(res):
                    acc = b.bin(acc, "^", b.bin(r, "+", b.c(k, t), t), t)
                b.ret(acc)
                return b.m

            key = "dir.spill.%s.%s" % (op, t)
            prng = random.Random(key)
            out.append({"key": key, "make": make, "fn": "f", "vecs": int_vectors([t, t], prng, nvec), "ext": [],
                        "src": "engines/c05.py directed_programs: %s of %d live %s values" % (op, n, t)})

    # displacement boundaries: accesses at base + d for d around the disp8 / disp32 switch (-129..-127, 127..129) through
    # a base register; every store lands in a global whose final bytes are observed, so a mis-encoded displacement shows
    def disp_addr(b, base, d, k):
        if d >= 0:
            return b.off(base, d)
        if k % 2:        # base + (-d) as a wrapped pointer constant, or base - d
            o = b.e(ir.Const(d, b.nm("o"), ir.ptr))
            return b.e(ir.Binop(base, "+", o, b.nm("ea"), ir.ptr))
        o = b.e(ir.Const(-d, b.nm("o"), ir.ptr))
        return b.e(ir.Binop(base, "-", o, b.nm("ea"), ir.ptr))

    for t in ("u8", "i16", "u32", "i64"):
        def make(t=t):
            b = B("f", "u64", ["u64", t])
            a, v = b.p
            g = b.glob("gbuf", 640, bytes((7 * k + 3) % 251 for k in range(640)))
            idx = b.bin(b.bin(a, "&", b.c(1, "u64"), "u64"), "*", b.c(8, "u64"), "u64")
            base = b.e(ir.Binop(g, "+", b.cast(b.bin(idx, "+", b.c(320, "u64"), "u64"), "ptr"), b.nm("base"), ir.ptr))
            acc = b.c(0, "u64")
            offs = [-136, -129, -128, -127, -120, 120, 127, 128, 129, 136, 255, 256]
            for k, d in enumerate(offs):
                addr = disp_addr(b, base, d, k)
                b.store(b.bin(v, "+", b.c(k + 1, t), t), addr)
            for k, d in enumerate(offs):
                addr = disp_addr(b, base, d, k)
                acc = b.bin(b.bin(acc, "*", b.c(131, "u64"), "u64"), "+", b.cast(b.load(addr, t), "u64"), "u64")
            b.ret(acc)
            return b.m

        key = "dir.disp.%s" % t
        prng = random.Random(key)
        out.append({"key": key, "make": make, "fn": "f", "vecs": int_vectors(["u64", t], prng, nvec), "ext": [],
                    "src": "engines/c05.py directed_programs: %s stores/loads at base +- {120..136, 255, 256}" % t})

    # more arguments than fit below 128(%rbp): the callee reads memory arguments at 16(%rbp) .. 152(%rbp)
    def make_many():
        n = 24
        h = B("h", "i64", ["i64"] * n)
        acc = h.c(0, "i64")
        for k, p_ in enumerate(h.p):
            acc = h.bin(h.bin(acc, "*", h.c(3, "i64"), "i64"), "+", p_, "i64")
        h.ret(acc)
        b = B("f", "i64", ["i64"], module=h.m)
        args = [b.bin(b.p[0], "+", b.c(1000 * k + 1, "i64"), "i64") for k in range(n)]
        r = b.e(ir.FunctionCall(h.f, args, b.nm("call"), ir.i64))
        b.ret(r)
        return b.m

    out.append({"key": "dir.manyargs.24", "make": make_many, "fn": "f", "vecs": int_vectors(["i64"], random.Random("many"), nvec),
                "ext": [], "src": "engines/c05.py directed_programs: internal call with 24 i64 arguments (18 in memory)"})

    # loop whose exit test sits in a latch block distinct from the header and compares the OLD value of the header's phi
    for t in ("i32", "u8", "i64"):
        def make(t=t):
            b = B("f", t, [t, t])
            y, z = b.p
            start = b.bin(y, "&", b.c(3, t), t)
            head, then_b, else_b, latch, done = b.block("head"), b.block("then"), b.block("else"), b.block("latch"), b.block("done")
            entry = b.cur
            b.jmp(head)
            b.at(head)
            p_ = b.phi(t, [])
            acc = b.phi(t, [])
            b.cj(b.bin(p_, "&", b.c(1, t), t), "==", b.c(0, t), then_b, else_b)
            b.at(then_b)
            a1 = b.bin(acc, "+", b.bin(p_, "*" if ("binop", "*", t) not in bad else "|", b.c(3, t), t), t)
            b.jmp(latch)
            b.at(else_b)
            a2 = b.bin(acc, "^", b.bin(p_, "+", b.c(7, t), t), t)
            b.jmp(latch)
            b.at(latch)
            accn = b.phi(t, [(then_b, a1), (else_b, a2)])
            n = b.bin(p_, "+", b.c(1, t), t)
            b.cj(p_, "<", b.c(5, t), head, done)           # tests the value of this iteration, after n was computed
            p_.set_incoming(entry, start)
            p_.set_incoming(latch, n)
            acc.set_incoming(entry, z)
            acc.set_incoming(latch, accn)
            b.at(done)
            b.ret(b.bin(b.bin(accn, "<<", b.c(3, t), t), "+", n, t))
            return b.m

        key = "dir.latchphi.%s" % t
        prng = random.Random(key)
        out.append({"key": key, "make": make, "fn": "f", "vecs": int_vectors([t, t], prng, nvec), "ext": [],
                    "src": "engines/c05.py directed_programs: multi-block loop, latch tests the header phi (%s)" % t})

    # call through a function pointer with several values live across it; the callees call an external function
    # (compiled by gcc), so every caller-saved register is really overwritten
    def make_fp():
        t = "i64"
        x = ir.ExternalFunction("ext_f", [ir.i32], ir.i32)
        h1 = B("h1", t, [t])
        h1.m.add_external(x)
        r1 = h1.e(ir.FunctionCall(x, [h1.cast(h1.p[0], "i32")], h1.nm("xc"), ir.i32))
        h1.ret(h1.bin(h1.cast(r1, t), "-", h1.p[0], t))
        h2 = B("h2", t, [t], module=h1.m)
        r2 = h2.e(ir.FunctionCall(x, [h2.cast(h2.bin(h2.p[0], "+", h2.c(1, t), t), "i32")], h2.nm("xc"), ir.i32))
        h2.ret(h2.bin(h2.cast(r2, t), "^", h2.p[0], t))
        b = B("f", t, [t, t], module=h1.m)
        a, c = b.p
        yes, no, join = b.block("yes"), b.block("no"), b.block("join")
        live = [b.bin(b.bin(a, "*", b.c(11 + 2 * k, t), t), "+", b.bin(c, "*", b.c(k + 1, t), t), t) for k in range(8)]
        b.cj(a, "<", c, yes, no)
        b.at(yes).jmp(join)
        b.at(no).jmp(join)
        b.at(join)
        fp = b.ir.Phi(b.nm("fp"), ir.ptr)
        join.add_instruction(fp)
        fp.set_incoming(yes, h1.f)
        fp.set_incoming(no, h2.f)
        r = b.e(ir.FunctionCall(fp, [a], b.nm("call"), ir.i64))
        acc = r
        for k, v in enumerate(live):       # each live value is used twice after the call
            acc = b.bin(b.bin(acc, "*", b.c(7, t), t), "+", v, t)
        for k, v in enumerate(live):
            acc = b.bin(acc, "^", b.bin(v, "+", b.c(k, t), t), t)
        b.ret(acc)
        return b.m

    out.append({"key": "dir.fnptr.live", "make": make_fp, "fn": "f", "vecs": int_vectors(["i64", "i64"], random.Random("fp"), nvec),
                "ext": [{"name": "ext_f", "rets": [project_ir.limbs(11, 4), project_ir.limbs(-3, 4)]}],
                "src": "engines/c05.py directed_programs: indirect call (phi of two functions) with 8 values live across it"})

    # frame layout: stack slots of mixed sizes and alignments, all live across an external call, then read back
    for order in (("u8", "u32", "u16", "u64", "u8", "u64", "u16", "u32"), ("u64", "u8", "u8", "u16", "u32", "u8", "u64"),
                  ("u16", "u8", "u32", "u8", "u64"),
                  ("u64",) * 15 + ("u8", "u64", "u16", "u64", "u8", "u32", "u64")):       # frame offsets through -128
        def make(order=order):
            b = B("f", "u64", ["u64"])
            x = ir.ExternalFunction("ext_f", [ir.i32], ir.i32)
            b.m.add_external(x)
            a = b.p[0]
            slots = []
            for k, t in enumerate(order):
                p = b.alloc(BITS[t] // 8)
                v = b.cast(b.bin(a, "+", b.c(0x0101010101010101 * (k + 1), "u64"), "u64"), t)
                b.store(v, p)
                slots.append((p, t))
            r = b.e(ir.FunctionCall(x, [b.cast(a, "i32")], b.nm("xc"), ir.i32))
            acc = b.cast(r, "u64")
            for k, (p, t) in enumerate(slots):
                acc = b.bin(b.bin(acc, "*", b.c(31, "u64"), "u64"), "+", b.cast(b.load(p, t), "u64"), "u64")
            b.ret(acc)
            return b.m

        key = "dir.frame.%s" % ("-".join(order) if len(order) < 10 else "big%d" % len(order))
        prng = random.Random(key)
        out.append({"key": key, "make": make, "fn": "f", "vecs": int_vectors(["u64"], prng, nvec),
                    "ext": [{"name": "ext_f", "rets": [project_ir.limbs(7, 4)]}],
                    "src": "engines/c05.py directed_programs: stack slots %s live across a call" % ",".join(order)})
    return out


# ---------------------------------------------------------------------------------------------------
# ppci: compile every program at every level; native: run; -> IRNative cases
# ---------------------------------------------------------------------------------------------------
def prepare_ir(ctx, programs, levels=LEVELS):
    """For each program: projection of the (un-optimised) module for the specification, one Unit per distinct object
    (levels whose relocatable ELF files are byte-identical share one execution)."""
    ready = []
    for pi, p in enumerate(programs):
        try:
            pm = project_ir.project_module(p["make"](), 8)
        except Exception as e:
            ctx.cov["build_failed"] = ctx.cov.get("build_failed", 0) + 1
            continue
        sig, why = native.sig_of(pm, p["fn"])
        if sig is None:
            ctx.cov["skipped_signature"] = ctx.cov.get("skipped_signature", 0) + 1
            continue
        vecs = [v for v in p["vecs"] if len(v) == len(sig["params"])]
        if not vecs:
            continue
        prefix = "u%d_" % pi
        units = []
        byhash = {}
        for lv in levels:
            label = "O%s+gcc-ld" % lv
            m = p["make"]()
            native.rename_ir(m, prefix)
            itags = []
            with native.SpillWatch() as sw:
                obj, elf, err = native.compile_ir(m, lv, tags=itags)
            if err and err.startswith("codegen:"):
                # the back-end (or the optimiser) raised: C29 / C28's business, counted
                k = "skipped_codegen_" + err.split(":", 1)[1]
                ctx.cov[k] = ctx.cov.get(k, 0) + 1
                ctx.cov["skipped_codegen"] = ctx.cov.get("skipped_codegen", 0) + 1
                continue
            if elf is not None and native.digest(elf) in byhash:
                byhash[native.digest(elf)].labels.append(label)
                continue
            u = native.Unit("%s|%s" % (p["key"], label), prefix, sig, vecs, p["ext"], elf=elf, err=err, obj=obj,
                            labels=[label], tags=sorted(set(itags + sw.tags())))
            if elf is not None:
                byhash[native.digest(elf)] = u
            units.append(u)
        if not units:
            continue
        ready.append({"p": p, "pm": pm, "sig": sig, "vecs": vecs, "units": units})
    return ready


def make_cases(ready, results, fuel=FUEL):
    cases = []
    for r in ready:
        p = r["p"]
        variants = []      # (label, unit key, tags)
        for u in r["units"]:
            for lab in u.labels:
                variants.append((lab, u.key, u.tags))
        for extra in r.get("extra_variants", []):
            variants.append(extra)
        ptys = r["sig"]["params"]
        argv = [[project_ir.limbs(v, TY_BYTES[t]) for v, t in zip(vec, ptys)] for vec in r["vecs"]]
        nat = [[results[v[1]][a] for v in variants] for a in range(len(r["vecs"]))]
        cases.append({"id": p["key"], "mods": [r["pm"]], "fn": p["fn"], "argv": argv, "ext": p["ext"], "fuel": fuel,
                      "nat": nat, "vlabels": [v[0] for v in variants], "vtags": [v[2] for v in variants], "vecs": r["vecs"], "src": p["src"]})
    return cases


def show_obs(o):
    if o["outcome"] != "ok":
        return o["outcome"]
    return "ret=%s exit=%d calls=%s globals=%s" % (
        "0x" + bytes(reversed(o["ret"])).hex() if o["ret"] else "-", o["exit"],
        [(c["name"], ["0x" + bytes(reversed(a)).hex() for a in c["args"]]) for c in o["calls"]][:6],
        {g["name"]: bytes(g["bytes"]).hex() for g in o["globals"]})


def judge(ctx, cases, prop, label):
    """IRNative.tla over the cases; every invariant error is a violation of `prop` keyed by program and variant."""
    if not cases:
        return None
    slim = [{k: c[k] for k in ("id", "mods", "fn", "argv", "ext", "fuel", "nat")} for c in cases]
    path = ctx.trace_file(slim)
    res = ctx.tlc("IRNative", T_CFG, label=label, env={"TRACE_FILE": path}, continue_=True, heap="12g", workers=WORKERS)
    import os

    os.unlink(path)
    seen = set()
    for e in res.errors:
        st = e.last
        i, av, vr = st.get("i"), st.get("av"), st.get("vr")
        if e.kind != "invariant" or not isinstance(i, int) or i < 1 or not isinstance(av, int):
            raise MachineryError("unexpected TLC error in the IRNative run: %s\n%s" % (e, e.text[:1500]))
        c = cases[i - 1]
        if e.name in ("NeverStuck", "TypeOK"):
            raise MachineryError("IR.tla cannot execute %s (%s): %s" % (c["id"], e.name, {k: str(v)[:200] for k, v in st.items()
                                                                                       if k in ("status", "why")}))
        lab = c["vlabels"][vr - 1] if isinstance(vr, int) and 1 <= vr <= len(c["vlabels"]) else "?"
        tags = c["vtags"][vr - 1] if lab != "?" else []
        if lab.startswith("ref:"):
            # a reference build (gcc) disagrees with the specification: reported, never a violation
            n = ctx.cov.get("spec_suspect", 0)
            ctx.cov["spec_suspect"] = n + 1
            if n < 10:
                print("SPEC-SUSPECT property=%s case=%s args=%s (%s disagrees with IR.tla on the IR of ppci's front-end: %s)" % (
                    prop, c["id"], c["vecs"][av - 1], lab, e.name))
            continue
        key = "%s:%s%s:%s" % (prop, "".join(t + ":" for t in tags), c["id"], lab)
        if key in seen:
            continue
        seen.add(key)
        o = c["nat"][av - 1][vr - 1] if lab != "?" else {}
        ctx.violation(key, "%s(%s) [%s]: native execution observed %s; the IR prescribes ret=%s calls=%s [clause %s]" % (
            c["fn"], ", ".join(map(str, c["vecs"][av - 1])), lab, show_obs(o) if o else "?", st.get("ret"),
            str(st.get("calls"))[:300], e.name),
            {"program": c["id"], "source": c["src"], "args": c["vecs"][av - 1], "variant": lab, "clause": e.name,
             "observed": o, "ir_state": {x: st.get(x) for x in ("status", "ret", "calls")}})
    return res


def account(ctx, cases, res):
    """Evidence from TLC's action coverage: executions classified (Done*), (execution, variant) pairs judged."""
    acts = core.tlcmod.action_coverage(res) if res is not None else {}
    acts = {k.split(".")[-1]: v for k, v in acts.items()}
    total = sum(len(c["argv"]) * len(c["vlabels"]) for c in cases)
    # (TLC's per-action counter also counts successors regenerated while it reconstructs error traces)
    judged = min(acts.get("PickVariant", 0), total)
    ctx.count(None, n=total)
    ctx.cov["distinct_nontrivial"] += judged
    ctx.cov["traces_validated_against_impl"] += judged
    for a in ("DoneUndefined", "DoneOutOfModel", "DoneFuel", "DoneNoVariant"):
        ctx.cov["ir_" + a] = ctx.cov.get("ir_" + a, 0) + acts.get(a, 0)


# ---------------------------------------------------------------------------------------------------
# M: the judgement on micro programs (IRNative_MC.tla)
# ---------------------------------------------------------------------------------------------------
def micro_cases():
    """Hand-built observations for two micro modules: the right one must satisfy every clause, each corruption
    must violate exactly the clause that speaks about the corrupted field."""
    from ppci import ir
    from ppci.binutils.debuginfo import DebugDb

    m = ir.Module("micro", debug_db=DebugDb())
    g = ir.Variable("g", ir.Binding.GLOBAL, 4, 4, value=bytes([1, 0, 0, 0]))
    m.add_variable(g)
    x = ir.ExternalFunction("ext_f", [ir.i32], ir.i32)
    m.add_external(x)
    f = ir.Function("f", ir.Binding.GLOBAL, ir.i32)
    m.add_function(f)
    e = ir.Block("f_entry")
    f.add_block(e)
    f.entry = e
    a = ir.Parameter("a", ir.i32)
    f.add_parameter(a)
    c = ir.FunctionCall(x, [a], "c", ir.i32)
    e.add_instruction(c)
    old = ir.Load(g, "old", ir.i32)
    e.add_instruction(old)
    s = ir.Binop(c, "+", old, "s", ir.i32)
    e.add_instruction(s)
    e.add_instruction(ir.Store(s, g))
    d = ir.Binop(s, "/", a, "d", ir.i32)
    e.add_instruction(d)
    e.add_instruction(ir.Return(d))
    pm = project_ir.project_module(m, 8)
    L = project_ir.limbs
    # f(a) = (ext_f(a) + g) / a with g := ext_f(a) + g;  stub returns 299:  f(3) = 300 / 3 = 100, g = 300
    good = {"outcome": "ok", "ret": L(100, 4), "exit": 100, "globals": [{"name": "g", "bytes": L(300, 4)}],
            "calls": [{"name": "ext_f", "args": [L(3, 4)]}]}
    obs = [
        (good, []),
        (dict(good, ret=L(101, 4)), ["NativeReturn"]),
        (dict(good, exit=99), ["NativeExit"]),
        (dict(good, globals=[{"name": "g", "bytes": L(301, 4)}]), ["NativeGlobals"]),
        (dict(good, globals=[{"name": "h", "bytes": L(300, 4)}]), ["NativeGlobals"]),
        (dict(good, calls=[]), ["NativeCalls"]),
        (dict(good, calls=[{"name": "ext_f", "args": [L(4, 4)]}]), ["NativeCalls"]),
        (dict(good, ret=L(100, 4) + [0, 0, 0, 0]), ["NativeReturn"]),
        (native.blank("error:SIGSEGV"), ["NativeCompletes"]),
        (native.blank("error:link:undefined-reference"), ["NativeCompletes"]),
    ]
    # vector 2: a = 0 -> division by zero: undefined, nothing is judged whatever was observed
    cases = [{"id": "micro", "mods": [pm], "fn": "f", "argv": [[L(3, 4)], [L(0, 4)]],
              "ext": [{"name": "ext_f", "rets": [L(299, 4)]}], "fuel": 100,
              "nat": [[o for o, _ in obs], [native.blank("error:SIGFPE"), good]],
              "expect": [[x for _, x in obs], [[], []]]}]
    return cases


def model_check(ctx):
    cases = micro_cases()
    path = ctx.trace_file(cases, "micro.json")
    res = ctx.tlc("IRNative_MC", MC_CFG, label="judgement on micro programs", env={"TRACE_FILE": path}, workers=2)
    import os

    os.unlink(path)
    for e in res.errors:
        raise MachineryError("IRNative judgement self-check fails: %s %s" % (e, e.text[:1500]))
    ctx.cov["mc_micro_observations"] = sum(len(v) for c in cases for v in c["nat"])


class Engine:
    LEVEL = "model_checking"

    def run(self, ctx):
        thorough = ctx.tier == "thorough"
        ctx.rule("IR modules from harness/irgen.py (random well-formed IR: every integer type / operator / cast, phis, loops, "
                 "allocas, globals, CopyBlob, literal data, internal / tail / external calls) and harness/irpatterns.py "
                 "(directed shapes), with the elementary operations the x86_64 selector rejects (C29) rewritten; compiled by "
                 "ppci for x86_64 at levels 0,1,2,s into relocatable ELF, linked by gcc with a gcc-compiled driver, executed "
                 "natively on 4-8 argument vectors; TLC runs the module under IR.tla and compares return word, exit status, "
                 "final bytes of every global and the external-call sequence.  distinct = (program, vector, level) triples "
                 "whose IR execution is defined; levels with byte-identical objects share one execution")
        ctx.assume("harness/project_ir.py reports the IR module faithfully; IR.tla is the meaning of ppci IR (as for C02)")
        ctx.assume("gcc, ld and the host CPU execute the linked program correctly; the gcc-compiled driver prints what the "
                   "function under test returned / left in memory / passed to the external stubs")
        ctx.assume("prefixing linker-visible names of a module (to link many modules into one executable) does not change its meaning")
        import os

        only = (ctx.only or {}).get("case", {}).get("program") if ctx.only else None
        part = (ctx.only or {}).get("case", {}).get("part", "x86_64") if ctx.only else os.environ.get("C05_PART", "")
        if ctx.only is not None:
            thorough = ctx.only.get("tier", ctx.tier) == "thorough"
        if ctx.only is None and part == "":
            # a normal run: the five parts side by side (core.run_parts forks one process per part)
            from harness import core

            core.run_parts(ctx, [
                ("arm", lambda c: armrun.c05_hook(c, thorough, "arm", None)),     # arm / thumb (tla/ArmExec.tla)
                ("mips", lambda c: mipsrun.c05_hook(c, thorough, "mips", None)),  # tla/MipsExec.tla
                ("m68k", lambda c: m68krun.c05_hook(c, thorough, "m68k", None)),  # tla/M68kExec.tla
                ("riscv", lambda c: self.riscv_part(c, thorough, None)),          # tla/RV32_Run.tla
                ("x86_64", lambda c: self.x86_part(c, thorough, None)),           # host CPU + IR.tla
            ], jobs=int(os.environ.get("VERIF_JOBS", "5")))
            quick_exit()
            return
        if armrun.c05_hook(ctx, thorough, part, only): return   # arm / thumb part (tla/ArmExec.tla); True: C05_PART=arm or a replay of one of its cases
        if mipsrun.c05_hook(ctx, thorough, part, only): return   # mips part (tla/MipsExec.tla); True: C05_PART=mips or a replay of one of its cases
        if m68krun.c05_hook(ctx, thorough, part, only): return   # m68k part (tla/M68kExec.tla); True: C05_PART=m68k or a replay of one of its cases
        if part in ("", "riscv"):
            self.riscv_part(ctx, thorough, only if ctx.only is not None else None)
        if part == "riscv":
            return
        self.x86_part(ctx, thorough, only)
        quick_exit()

    def riscv_part(self, ctx, thorough, only):
        from engines import c05rv

        c05rv.run_riscv(ctx, thorough, only)

    def x86_part(self, ctx, thorough, only):
        if ctx.only is None:
            model_check(ctx)
        bad = probe_unsupported(ctx)
        nvec = 6 if thorough else 3
        if only:
            # replay: rebuild exactly that program from its key
            if only.startswith("ir") and only[2:].isdigit():
                programs = [p for p in irgen_programs(ctx, 0, bad, nvec, seeds=[int(only[2:])])]
            else:
                programs = [p for p in directed_programs(ctx, bad, nvec) + pattern_programs(ctx, 10 ** 9, bad, nvec, thorough=thorough)
                            if p["key"] == only]
        else:
            programs = directed_programs(ctx, bad, nvec) + irgen_programs(ctx, 200 if thorough else 10, bad, nvec) + \
                pattern_programs(ctx, 500 if thorough else 20, bad, nvec, thorough=thorough)
        run_programs(ctx, programs, "C05", prepare_ir)


def quick_exit():
    """The interpreter's final garbage collection over hundreds of compiled modules costs tens of seconds: park them."""
    import gc

    gc.collect()
    gc.freeze()


def run_programs(ctx, programs, prop, prepare, batch_cases=400, post=None):
    import time

    t0 = time.time()
    ctx.cov["programs_generated"] = len(programs)
    ready = prepare(ctx, programs)
    ctx.cov["programs_compiled"] = len(ready)
    t1 = time.time()
    with native.Workdir() as wd:
        try:
            results = native.run_gcc_linked(wd, [r["units"] for r in ready])
            t2 = time.time()
            if post:
                post(wd, ready, results)
        except native.HarnessError as e:
            raise MachineryError(str(e))
    ctx.cov["wall_s_ppci_compile"] = round(t1 - t0, 1)
    ctx.cov["wall_s_gcc_link_and_run"] = round(t2 - t1, 1)
    ctx.cov["wall_s_ppci_link_and_run"] = round(time.time() - t2, 1)
    cases = make_cases(ready, results)
    nobj = sum(len(r["units"]) for r in ready)
    ctx.cov["distinct_objects_executed"] = nobj
    outcomes = {}
    for r in results.values():
        for o in r:
            outcomes[o["outcome"]] = outcomes.get(o["outcome"], 0) + 1
    ctx.cov["native_outcomes"] = outcomes
    for c in cases[:3]:
        ctx.sample({"id": c["id"], "variants": c["vlabels"], "args": c["vecs"][:2],
                    "observed": [show_obs(o) for o in c["nat"][0][:2]]})
    for b0 in range(0, len(cases), batch_cases):
        part = cases[b0:b0 + batch_cases]
        res = judge(ctx, part, prop, "IR vs native (%d)" % (b0 // batch_cases))
        account(ctx, part, res)
    return cases

