"""C05 — machine code generated for x86_64 and for RISC-V (riscv, riscv:rvc) preserves IR behaviour.

x86_64 part
T: IRNative.tla  IR modules (harness/irgen.py: all integer types / operators / phis / loops / allocas / globals /
                 CopyBlob / calls / externals;  harness/irpatterns.py: directed shapes) are compiled by ppci for
                 x86_64 at optimisation levels 0/1/2/s into relocatable ELF objects, linked by gcc with a
                 gcc-compiled driver and executed by the host CPU (harness/native.py, always in subprocesses);
                 TLC executes the same module under IR.tla and checks NativeCompletes / NativeReturn / NativeExit /
                 NativeGlobals / NativeCalls on every recorded observation.
M: IRNative_MC   the judgement itself on micro programs with correct and corrupted observations (each clause must
                 accept the former and reject exactly the corrupted field).

RISC-V part (riscv and riscv:rvc; no emulator in the sandbox: the ISA itself is a TLA+ module)
B: RV32_Run.tla  IR modules restricted to types of at most 32 bits (irgen, irpatterns, directed modules, C programs from
   + IR.tla      harness/absprog.py through c_to_ir) are compiled with api.optimize + api.ir_to_object for both
                 variants at levels 0/1/2/s, linked by ppci's own linker (code at 0x1000, data at 0x8000; rvc code is
                 relaxed by the linker), and the image is executed by TLC under tla/RV32.tla: RV32_Run loads the
                 sections into the byte memory, sets up the call as RiscvArch.determine_arg_locations says (arguments in
                 x12.., memory arguments at sp+offset, ra = a sentinel), runs Decode / Exec until pc = sentinel and prints
                 the observation (status, x10, final bytes of every global, sp / callee-saved registers restored).  A second
                 TLC run executes the un-optimised module under IR.tla with that observation as the case's `obs` record;
                 invariant ObsMatchesImpl decides.  External functions are assembled stubs that return the value of the
                 case's stub table.
M: RV32_Run      the loader / call wrapper / observation on hand-written images with known results (AsExpected).

Not covered: ARM / Thumb / m68k / MIPS (no emulator in the sandbox and no TLA+ ISA model).
Also the shared driver for engines/c04.py (C programs, two link paths).
"""
import logging
import random

from harness import core, irgen, native, project_ir
from harness.tlc import MachineryError

logging.getLogger().addHandler(logging.NullHandler())   # ppci warns through logging; keep the check's output clean

T_CFG = """INIT NInit
NEXT NNext
CHECK_DEADLOCK FALSE
INVARIANT NativeCompletes
INVARIANT NativeReturn
INVARIANT NativeExit
INVARIANT NativeGlobals
INVARIANT NativeCalls
INVARIANT NeverStuck
INVARIANT TypeOK
"""
MC_CFG = """INIT MInit
NEXT MNext
CHECK_DEADLOCK FALSE
INVARIANT VerdictAsExpected
"""
LEVELS = ("0", "1", "2", "s")
BITS = irgen.BITS
TY_BYTES = {"i8": 1, "u8": 1, "i16": 2, "u16": 2, "i32": 4, "u32": 4, "i64": 8, "u64": 8}
BINOPS = ["+", "-", "*", "/", "%", "|", "&", "^", "<<", ">>", "rol", "ror"]
FUEL = 6000
ANCHOR_SEEDS = (640833115,)     # irgen module in which a spilled `neg` loses its result (known.d/C05.json spilled-rmw)
WORKERS = 8


# ---------------------------------------------------------------------------------------------------
# which elementary operations does the x86_64 back-end select at all?  (C29 lists the ones it does not)
# ---------------------------------------------------------------------------------------------------
def probe_unsupported(ctx):
    from ppci import api, ir
    from ppci.binutils.debuginfo import DebugDb

    bad = set()
    for t in irgen.INT_TYPES:
        T = getattr(ir, t)
        for kind, ops in (("binop", BINOPS), ("unop", ["-", "~"])):
            for op in ops:
                m = ir.Module("probe", debug_db=DebugDb())
                f = ir.Function("f", ir.Binding.GLOBAL, T)
                m.add_function(f)
                e = ir.Block("f_entry")
                f.add_block(e)
                f.entry = e
                a = ir.Parameter("a", T)
                f.add_parameter(a)
                if kind == "binop":
                    b = ir.Parameter("b", T)
                    f.add_parameter(b)
                    v = ir.Binop(a, op, b, "v", T)
                else:
                    v = ir.Unop(op, a, "v", T)
                e.add_instruction(v)
                e.add_instruction(ir.Return(v))
                try:
                    api.ir_to_object([m], "x86_64")
                except Exception:
                    bad.add((kind, op, t))
    ctx.cov["x86_64_unselectable_elementary_ops"] = len(bad)
    return bad


def restrict(m, bad):
    """Rewrite, in place, the elementary operations the back-end cannot select (C29's findings) into ones it can:
    an unsupported binary operator becomes `^` (or `+`), an unsupported unary operator becomes a + a.  The result is
    simply another module; the specification is run on it, nothing relies on equivalence."""
    from ppci import ir

    changed = 0
    for f in m.functions:
        for b in f.blocks:
            for ins in list(b.instructions):
                if isinstance(ins, ir.Binop) and ("binop", ins.operation, ins.ty.name) in bad:
                    ins.operation = "^" if ("binop", "^", ins.ty.name) not in bad else "+"
                    changed += 1
                elif isinstance(ins, ir.Unop) and ("unop", ins.operation, ins.ty.name) in bad:
                    new = ir.Binop(ins.a, "+", ins.a, ins.name, ins.ty)
                    b.insert_instruction(new, before_instruction=ins)
                    ins.replace_by(new)
                    b.remove_instruction(ins)
                    changed += 1
    return changed


# ---------------------------------------------------------------------------------------------------
# corpus
# ---------------------------------------------------------------------------------------------------
def irgen_programs(ctx, n, bad, nvec, seeds=None):
    from engines.c02 import int_vectors

    out = []
    rng = random.Random("%d:c05:irgen" % ctx.seed)
    # always in: generator seeds on which a listed finding was first observed (regression anchors)
    seeds = seeds or (list(ANCHOR_SEEDS) + [rng.randrange(1 << 30) for _ in range(n)])
    for seed in seeds:

        def make(seed=seed):
            m, info = irgen.gen_module(random.Random(seed))
            restrict(m, bad)
            return m

        try:
            _, info = irgen.gen_module(random.Random(seed))
        except Exception:
            ctx.cov["irgen_failed"] = ctx.cov.get("irgen_failed", 0) + 1
            continue
        prng = random.Random(seed ^ 0x5EED)
        vecs = int_vectors(info["params"], prng, nvec)
        ext = [{"name": x, "rets": [project_ir.limbs(prng.randrange(-5, 40), 4) for _ in range(6)]} for x in info["externs"]]
        out.append({"key": "ir%d" % seed, "make": make, "fn": info["main"], "vecs": vecs, "ext": ext,
                    "src": "harness/irgen.py gen_module(random.Random(%d)) with the operations x86_64 cannot select rewritten "
                           "(engines/c05.py restrict)" % seed})
    return out


def pattern_programs(ctx, n, bad, nvec, thorough=False):
    from engines.c02 import int_vectors
    from harness import irpatterns

    rng = random.Random("%d:c05:pat" % ctx.seed)
    pats = irpatterns.patterns(random.Random(rng.randrange(1 << 30)), thorough=thorough)
    if n < len(pats):
        # loops that test their own phi are always in (a shape with a listed finding), the rest is sampled
        always = [p for p in pats if ":self_loop:" in p[0]]
        rest = [p for p in pats if ":self_loop:" not in p[0]]
        pats = always + rng.sample(rest, max(0, n - len(always)))
    out = []
    for key, mk, fn, ptys in pats:
        prng = random.Random(sum(ord(ch) * (k + 1) for k, ch in enumerate(key)))

        def make(mk=mk):
            m = mk()
            restrict(m, bad)
            return m

        vecs = int_vectors(ptys, prng, nvec)
        out.append({"key": key.replace(":", "."), "make": make, "fn": fn, "vecs": vecs,
                    "ext": [{"name": "ext_f", "rets": [project_ir.limbs(9, 4)]}],
                    "src": "harness/irpatterns.py pattern " + key})
    return out


def directed_programs(ctx, bad, nvec):
    """Register pressure on purpose: N values of one type (N exceeds the registers of the class) are each replaced by
    the result of a unary / shift operation and all results stay live, so some of the operated registers are spilled."""
    from engines.c02 import int_vectors
    from harness.irpatterns import B
    from ppci import ir

    out = []
    for t, n in (("i16", 9), ("u16", 9), ("i32", 16), ("u64", 16), ("u8", 6)):
        for op in ("neg", "not", "shl", "shr"):
            if (op in ("neg", "not") and ("unop", "-" if op == "neg" else "~", t) in bad) or \
                    (op in ("shl", "shr") and ("binop", "<<" if op == "shl" else ">>", t) in bad):
                continue

            def make(t=t, n=n, op=op):
                b = B("f", t, [t, t])
                a, sh = b.p
                T = getattr(ir, t)
                vals = [b.bin(a, "+", b.c(3 * k + 1, t), t) for k in range(n)]
                amount = b.bin(sh, "&", b.c(3, t), t)
                res = []
                for v in vals:
                    if op == "neg":
                        res.append(b.e(ir.Unop("-", v, b.nm("n"), T)))
                    elif op == "not":
                        res.append(b.e(ir.Unop("~", v, b.nm("n"), T)))
                    else:
                        res.append(b.bin(v, "<<" if op == "shl" else ">>", amount, t))
                # every operand dies at its operation (so it is coalesced with the result), every result lives to the end
                # (each result is used twice, otherwise the selector folds it into the tree of its single use)
                acc = b.c(0, t)
                for k, r in enumerate(res):
                    acc = b.bin(acc, "+", b.bin(r, "^", b.c(5 * k + 2, t), t), t)
                for k, r in enumerate(res):
                    acc = b.bin(acc, "^", b.bin(r, "+", b.c(k, t), t), t)
                b.ret(acc)
                return b.m

            key = "dir.spill.%s.%s" % (op, t)
            prng = random.Random(key)
            out.append({"key": key, "make": make, "fn": "f", "vecs": int_vectors([t, t], prng, nvec), "ext": [],
                        "src": "engines/c05.py directed_programs: %s of %d live %s values" % (op, n, t)})

    # frame layout: stack slots of mixed sizes and alignments, all live across an external call, then read back
    for order in (("u8", "u32", "u16", "u64", "u8", "u64", "u16", "u32"), ("u64", "u8", "u8", "u16", "u32", "u8", "u64"),
                  ("u16", "u8", "u32", "u8", "u64")):
        def make(order=order):
            b = B("f", "u64", ["u64"])
            x = ir.ExternalFunction("ext_f", [ir.i32], ir.i32)
            b.m.add_external(x)
            a = b.p[0]
            slots = []
            for k, t in enumerate(order):
                p = b.alloc(BITS[t] // 8)
                v = b.cast(b.bin(a, "+", b.c(0x0101010101010101 * (k + 1), "u64"), "u64"), t)
                b.store(v, p)
                slots.append((p, t))
            r = b.e(ir.FunctionCall(x, [b.cast(a, "i32")], b.nm("xc"), ir.i32))
            acc = b.cast(r, "u64")
            for k, (p, t) in enumerate(slots):
                acc = b.bin(b.bin(acc, "*", b.c(31, "u64"), "u64"), "+", b.cast(b.load(p, t), "u64"), "u64")
            b.ret(acc)
            return b.m

        key = "dir.frame.%s" % "-".join(order)
        prng = random.Random(key)
        out.append({"key": key, "make": make, "fn": "f", "vecs": int_vectors(["u64"], prng, nvec),
                    "ext": [{"name": "ext_f", "rets": [project_ir.limbs(7, 4)]}],
                    "src": "engines/c05.py directed_programs: stack slots %s live across a call" % ",".join(order)})
    return out


# ---------------------------------------------------------------------------------------------------
# ppci: compile every program at every level; native: run; -> IRNative cases
# ---------------------------------------------------------------------------------------------------
def prepare_ir(ctx, programs, levels=LEVELS):
    """For each program: projection of the (un-optimised) module for the specification, one Unit per distinct object
    (levels whose relocatable ELF files are byte-identical share one execution)."""
    ready = []
    for pi, p in enumerate(programs):
        try:
            pm = project_ir.project_module(p["make"](), 8)
        except Exception as e:
            ctx.cov["build_failed"] = ctx.cov.get("build_failed", 0) + 1
            continue
        sig, why = native.sig_of(pm, p["fn"])
        if sig is None:
            ctx.cov["skipped_signature"] = ctx.cov.get("skipped_signature", 0) + 1
            continue
        vecs = [v for v in p["vecs"] if len(v) == len(sig["params"])]
        if not vecs:
            continue
        prefix = "u%d_" % pi
        units = []
        byhash = {}
        for lv in levels:
            label = "O%s+gcc-ld" % lv
            m = p["make"]()
            native.rename_ir(m, prefix)
            itags = []
            with native.SpillWatch() as sw:
                obj, elf, err = native.compile_ir(m, lv, tags=itags)
            if err and err.startswith("codegen:"):
                # the back-end (or the optimiser) raised: C29 / C28's business, counted
                k = "skipped_codegen_" + err.split(":", 1)[1]
                ctx.cov[k] = ctx.cov.get(k, 0) + 1
                ctx.cov["skipped_codegen"] = ctx.cov.get("skipped_codegen", 0) + 1
                continue
            if elf is not None and native.digest(elf) in byhash:
                byhash[native.digest(elf)].labels.append(label)
                continue
            u = native.Unit("%s|%s" % (p["key"], label), prefix, sig, vecs, p["ext"], elf=elf, err=err, obj=obj,
                            labels=[label], tags=sorted(set(itags + sw.tags())))
            if elf is not None:
                byhash[native.digest(elf)] = u
            units.append(u)
        if not units:
            continue
        ready.append({"p": p, "pm": pm, "sig": sig, "vecs": vecs, "units": units})
    return ready


def make_cases(ready, results, fuel=FUEL):
    cases = []
    for r in ready:
        p = r["p"]
        variants = []      # (label, unit key, tags)
        for u in r["units"]:
            for lab in u.labels:
                variants.append((lab, u.key, u.tags))
        for extra in r.get("extra_variants", []):
            variants.append(extra)
        ptys = r["sig"]["params"]
        argv = [[project_ir.limbs(v, TY_BYTES[t]) for v, t in zip(vec, ptys)] for vec in r["vecs"]]
        nat = [[results[v[1]][a] for v in variants] for a in range(len(r["vecs"]))]
        cases.append({"id": p["key"], "mods": [r["pm"]], "fn": p["fn"], "argv": argv, "ext": p["ext"], "fuel": fuel,
                      "nat": nat, "vlabels": [v[0] for v in variants], "vtags": [v[2] for v in variants], "vecs": r["vecs"], "src": p["src"]})
    return cases


def show_obs(o):
    if o["outcome"] != "ok":
        return o["outcome"]
    return "ret=%s exit=%d calls=%s globals=%s" % (
        "0x" + bytes(reversed(o["ret"])).hex() if o["ret"] else "-", o["exit"],
        [(c["name"], ["0x" + bytes(reversed(a)).hex() for a in c["args"]]) for c in o["calls"]][:6],
        {g["name"]: bytes(g["bytes"]).hex() for g in o["globals"]})


def judge(ctx, cases, prop, label):
    """IRNative.tla over the cases; every invariant error is a violation of `prop` keyed by program and variant."""
    if not cases:
        return None
    slim = [{k: c[k] for k in ("id", "mods", "fn", "argv", "ext", "fuel", "nat")} for c in cases]
    path = ctx.trace_file(slim)
    res = ctx.tlc("IRNative", T_CFG, label=label, env={"TRACE_FILE": path}, continue_=True, heap="12g", workers=WORKERS)
    import os

    os.unlink(path)
    seen = set()
    for e in res.errors:
        st = e.last
        i, av, vr = st.get("i"), st.get("av"), st.get("vr")
        if e.kind != "invariant" or not isinstance(i, int) or i < 1 or not isinstance(av, int):
            raise MachineryError("unexpected TLC error in the IRNative run: %s\n%s" % (e, e.text[:1500]))
        c = cases[i - 1]
        if e.name in ("NeverStuck", "TypeOK"):
            raise MachineryError("IR.tla cannot execute %s (%s): %s" % (c["id"], e.name, {k: str(v)[:200] for k, v in st.items()
                                                                                       if k in ("status", "why")}))
        lab = c["vlabels"][vr - 1] if isinstance(vr, int) and 1 <= vr <= len(c["vlabels"]) else "?"
        tags = c["vtags"][vr - 1] if lab != "?" else []
        if lab.startswith("ref:"):
            # a reference build (gcc) disagrees with the specification: reported, never a violation
            n = ctx.cov.get("spec_suspect", 0)
            ctx.cov["spec_suspect"] = n + 1
            if n < 10:
                print("SPEC-SUSPECT property=%s case=%s args=%s (%s disagrees with IR.tla on the IR of ppci's front-end: %s)" % (
                    prop, c["id"], c["vecs"][av - 1], lab, e.name))
            continue
        key = "%s:%s%s:%s" % (prop, "".join(t + ":" for t in tags), c["id"], lab)
        if key in seen:
            continue
        seen.add(key)
        o = c["nat"][av - 1][vr - 1] if lab != "?" else {}
        ctx.violation(key, "%s(%s) [%s]: native execution observed %s; the IR prescribes ret=%s calls=%s [clause %s]" % (
            c["fn"], ", ".join(map(str, c["vecs"][av - 1])), lab, show_obs(o) if o else "?", st.get("ret"),
            str(st.get("calls"))[:300], e.name),
            {"program": c["id"], "source": c["src"], "args": c["vecs"][av - 1], "variant": lab, "clause": e.name,
             "observed": o, "ir_state": {x: st.get(x) for x in ("status", "ret", "calls")}})
    return res


def account(ctx, cases, res):
    """Evidence from TLC's action coverage: executions classified (Done*), (execution, variant) pairs judged."""
    acts = core.tlcmod.action_coverage(res) if res is not None else {}
    acts = {k.split(".")[-1]: v for k, v in acts.items()}
    total = sum(len(c["argv"]) * len(c["vlabels"]) for c in cases)
    # (TLC's per-action counter also counts successors regenerated while it reconstructs error traces)
    judged = min(acts.get("PickVariant", 0), total)
    ctx.count(None, n=total)
    ctx.cov["distinct_nontrivial"] += judged
    ctx.cov["traces_validated_against_impl"] += judged
    for a in ("DoneUndefined", "DoneOutOfModel", "DoneFuel", "DoneNoVariant"):
        ctx.cov["ir_" + a] = ctx.cov.get("ir_" + a, 0) + acts.get(a, 0)


# ---------------------------------------------------------------------------------------------------
# M: the judgement on micro programs (IRNative_MC.tla)
# ---------------------------------------------------------------------------------------------------
def micro_cases():
    """Hand-built observations for two micro modules: the right one must satisfy every clause, each corruption
    must violate exactly the clause that speaks about the corrupted field."""
    from ppci import ir
    from ppci.binutils.debuginfo import DebugDb

    m = ir.Module("micro", debug_db=DebugDb())
    g = ir.Variable("g", ir.Binding.GLOBAL, 4, 4, value=bytes([1, 0, 0, 0]))
    m.add_variable(g)
    x = ir.ExternalFunction("ext_f", [ir.i32], ir.i32)
    m.add_external(x)
    f = ir.Function("f", ir.Binding.GLOBAL, ir.i32)
    m.add_function(f)
    e = ir.Block("f_entry")
    f.add_block(e)
    f.entry = e
    a = ir.Parameter("a", ir.i32)
    f.add_parameter(a)
    c = ir.FunctionCall(x, [a], "c", ir.i32)
    e.add_instruction(c)
    old = ir.Load(g, "old", ir.i32)
    e.add_instruction(old)
    s = ir.Binop(c, "+", old, "s", ir.i32)
    e.add_instruction(s)
    e.add_instruction(ir.Store(s, g))
    d = ir.Binop(s, "/", a, "d", ir.i32)
    e.add_instruction(d)
    e.add_instruction(ir.Return(d))
    pm = project_ir.project_module(m, 8)
    L = project_ir.limbs
    # f(a) = (ext_f(a) + g) / a with g := ext_f(a) + g;  stub returns 299:  f(3) = 300 / 3 = 100, g = 300
    good = {"outcome": "ok", "ret": L(100, 4), "exit": 100, "globals": [{"name": "g", "bytes": L(300, 4)}],
            "calls": [{"name": "ext_f", "args": [L(3, 4)]}]}
    obs = [
        (good, []),
        (dict(good, ret=L(101, 4)), ["NativeReturn"]),
        (dict(good, exit=99), ["NativeExit"]),
        (dict(good, globals=[{"name": "g", "bytes": L(301, 4)}]), ["NativeGlobals"]),
        (dict(good, globals=[{"name": "h", "bytes": L(300, 4)}]), ["NativeGlobals"]),
        (dict(good, calls=[]), ["NativeCalls"]),
        (dict(good, calls=[{"name": "ext_f", "args": [L(4, 4)]}]), ["NativeCalls"]),
        (dict(good, ret=L(100, 4) + [0, 0, 0, 0]), ["NativeReturn"]),
        (native.blank("error:SIGSEGV"), ["NativeCompletes"]),
        (native.blank("error:link:undefined-reference"), ["NativeCompletes"]),
    ]
    # vector 2: a = 0 -> division by zero: undefined, nothing is judged whatever was observed
    cases = [{"id": "micro", "mods": [pm], "fn": "f", "argv": [[L(3, 4)], [L(0, 4)]],
              "ext": [{"name": "ext_f", "rets": [L(299, 4)]}], "fuel": 100,
              "nat": [[o for o, _ in obs], [native.blank("error:SIGFPE"), good]],
              "expect": [[x for _, x in obs], [[], []]]}]
    return cases


def model_check(ctx):
    cases = micro_cases()
    path = ctx.trace_file(cases, "micro.json")
    res = ctx.tlc("IRNative_MC", MC_CFG, label="judgement on micro programs", env={"TRACE_FILE": path}, workers=2)
    import os

    os.unlink(path)
    for e in res.errors:
        raise MachineryError("IRNative judgement self-check fails: %s %s" % (e, e.text[:1500]))
    ctx.cov["mc_micro_observations"] = sum(len(v) for c in cases for v in c["nat"])


class Engine:
    LEVEL = "model_checking"

    def run(self, ctx):
        thorough = ctx.tier == "thorough"
        ctx.rule("IR modules from harness/irgen.py (random well-formed IR: every integer type / operator / cast, phis, loops, "
                 "allocas, globals, CopyBlob, literal data, internal / tail / external calls) and harness/irpatterns.py "
                 "(directed shapes), with the elementary operations the x86_64 selector rejects (C29) rewritten; compiled by "
                 "ppci for x86_64 at levels 0,1,2,s into relocatable ELF, linked by gcc with a gcc-compiled driver, executed "
                 "natively on 4-8 argument vectors; TLC runs the module under IR.tla and compares return word, exit status, "
                 "final bytes of every global and the external-call sequence.  distinct = (program, vector, level) triples "
                 "whose IR execution is defined; levels with byte-identical objects share one execution")
        ctx.assume("harness/project_ir.py reports the IR module faithfully; IR.tla is the meaning of ppci IR (as for C02)")
        ctx.assume("gcc, ld and the host CPU execute the linked program correctly; the gcc-compiled driver prints what the "
                   "function under test returned / left in memory / passed to the external stubs")
        ctx.assume("prefixing linker-visible names of a module (to link many modules into one executable) does not change its meaning")
        import os

        only = (ctx.only or {}).get("case", {}).get("program") if ctx.only else None
        part = (ctx.only or {}).get("case", {}).get("part", "x86_64") if ctx.only else os.environ.get("C05_PART", "")
        if ctx.only is not None:
            thorough = ctx.only.get("tier", ctx.tier) == "thorough"
        if part in ("", "riscv"):
            run_riscv(ctx, thorough, only if ctx.only is not None else None)
        if part == "riscv":
            return
        if ctx.only is None:
            model_check(ctx)
        bad = probe_unsupported(ctx)
        nvec = 6 if thorough else 3
        if only:
            # replay: rebuild exactly that program from its key
            if only.startswith("ir") and only[2:].isdigit():
                programs = [p for p in irgen_programs(ctx, 0, bad, nvec, seeds=[int(only[2:])])]
            else:
                programs = [p for p in directed_programs(ctx, bad, nvec) + pattern_programs(ctx, 10 ** 9, bad, nvec, thorough=thorough)
                            if p["key"] == only]
        else:
            programs = directed_programs(ctx, bad, nvec) + irgen_programs(ctx, 200 if thorough else 10, bad, nvec) + \
                pattern_programs(ctx, 500 if thorough else 20, bad, nvec, thorough=thorough)
        run_programs(ctx, programs, "C05", prepare_ir)


def run_programs(ctx, programs, prop, prepare, batch_cases=400, post=None):
    import time

    t0 = time.time()
    ctx.cov["programs_generated"] = len(programs)
    ready = prepare(ctx, programs)
    ctx.cov["programs_compiled"] = len(ready)
    t1 = time.time()
    with native.Workdir() as wd:
        try:
            results = native.run_gcc_linked(wd, [r["units"] for r in ready])
            t2 = time.time()
            if post:
                post(wd, ready, results)
        except native.HarnessError as e:
            raise MachineryError(str(e))
    ctx.cov["wall_s_ppci_compile"] = round(t1 - t0, 1)
    ctx.cov["wall_s_gcc_link_and_run"] = round(t2 - t1, 1)
    ctx.cov["wall_s_ppci_link_and_run"] = round(time.time() - t2, 1)
    cases = make_cases(ready, results)
    nobj = sum(len(r["units"]) for r in ready)
    ctx.cov["distinct_objects_executed"] = nobj
    outcomes = {}
    for r in results.values():
        for o in r:
            outcomes[o["outcome"]] = outcomes.get(o["outcome"], 0) + 1
    ctx.cov["native_outcomes"] = outcomes
    for c in cases[:3]:
        ctx.sample({"id": c["id"], "variants": c["vlabels"], "args": c["vecs"][:2],
                    "observed": [show_obs(o) for o in c["nat"][0][:2]]})
    for b0 in range(0, len(cases), batch_cases):
        part = cases[b0:b0 + batch_cases]
        res = judge(ctx, part, prop, "IR vs native (%d)" % (b0 // batch_cases))
        account(ctx, part, res)
    return cases


# ===================================================================================================
# RISC-V part: riscv and riscv:rvc, decided through tla/RV32.tla (RV32_Run) and tla/IR.tla
# ===================================================================================================
RV_MARCHS = ("riscv", "riscv:rvc")
RV_TYPES = ["i8", "u8", "i16", "u16", "i32", "u32"]
RV_FUEL = 2500          # machine instructions per call (a run that needs more is not judged)
RV_IR_CFG = """INIT Init
NEXT Next
CHECK_DEADLOCK FALSE
INVARIANT ObsMatchesImpl
INVARIANT TypeOK
"""
STUB_VALUE = 9


def rv_probe_unsupported(ctx):
    """elementary operations the riscv selectors reject (C29's findings), per variant; the union is rewritten"""
    from ppci import api, ir
    from ppci.binutils.debuginfo import DebugDb

    bad = set()
    per = {}
    for march in RV_MARCHS:
        arch = rvlink_mod().arch_of(march)
        for t in RV_TYPES:
            T = getattr(ir, t)
            for kind, ops in (("binop", BINOPS), ("unop", ["-", "~"])):
                for op in ops:
                    m = ir.Module("probe", debug_db=DebugDb())
                    f = ir.Function("f", ir.Binding.GLOBAL, T)
                    m.add_function(f)
                    e = ir.Block("f_entry")
                    f.add_block(e)
                    f.entry = e
                    a = ir.Parameter("a", T)
                    f.add_parameter(a)
                    if kind == "binop":
                        b = ir.Parameter("b", T)
                        f.add_parameter(b)
                        v = ir.Binop(a, op, b, "v", T)
                    else:
                        v = ir.Unop(op, a, "v", T)
                    e.add_instruction(v)
                    e.add_instruction(ir.Return(v))
                    try:
                        api.ir_to_object([m], arch)
                    except Exception:
                        bad.add((kind, op, t))
                        per[march] = per.get(march, 0) + 1
    ctx.cov["riscv_unselectable_elementary_ops"] = dict(per, union=len(bad))
    return bad


def rvlink_mod():
    from harness import rvlink

    return rvlink


def module_types(pm):
    """every type name a projected module mentions"""
    out = set()
    for f in pm["funcs"]:
        out.add(f["ret"])
        for q in f["params"]:
            out.add(q["ty"])
        for b in f["blocks"]:
            for i in b["ins"]:
                for k in ("ty", "aty"):
                    if isinstance(i.get(k), str):
                        out.add(i[k])
    for g in pm["globals"]:
        if g["k"] == "xfn":
            out.update(g["args"])
            out.add(g["ret"])
    return out - {""}


def rv_programs(ctx, bad, thorough):
    from engines.c02 import int_vectors
    from harness import absprog, irpatterns, optcorpus

    nvec = 4 if thorough else 3
    out = []
    stub = [{"name": "ext_f", "rets": [project_ir.limbs(STUB_VALUE, 4)] * 64}, {"name": "ext_p", "rets": []}]
    rng = random.Random("%d:c05:rv" % ctx.seed)
    # directed: every elementary operation of every type (the operands come in as arguments, go through a global)
    for t in RV_TYPES:
        for kind, ops in (("binop", BINOPS), ("unop", ["-", "~"])):
            for op in ops:
                if (kind, op, t) in bad:
                    continue

                def make(t=t, kind=kind, op=op):
                    from harness.irpatterns import B
                    from ppci import ir

                    b = B("f", t, [t, t])
                    x, y = b.p
                    T = getattr(ir, t)
                    if op in ("/", "%"):
                        y = b.bin(y, "|", b.c(1, t), t)
                    if op in ("<<", ">>", "rol", "ror"):
                        y = b.bin(y, "&", b.c(7, t), t)
                    v = b.bin(x, op, y, t) if kind == "binop" else b.e(ir.Unop(op, x, b.nm("u"), T))
                    b.ret(b.bin(v, "^", b.c(1, t), t))
                    return b.m

                key = "rvop.%s.%s.%s" % (kind, {"+": "add", "-": "sub", "*": "mul", "/": "div", "%": "rem", "|": "or", "&": "and",
                                                 "^": "xor", "<<": "shl", ">>": "shr", "~": "not"}.get(op, op), t)
                prng = random.Random(key)
                out.append({"key": key, "make": make, "fn": "f", "vecs": int_vectors([t, t], prng, nvec + 2), "ext": [],
                            "src": "engines/c05.py rv_programs: f(x, y) = (x %s y) ^ 1 on %s" % (op, t)})
    # more arguments than argument registers; narrow arguments; a call chain through memory arguments
    for n, t in ((8, "i32"), (9, "u8"), (7, "i16")):
        def make(n=n, t=t):
            from harness.irpatterns import B

            b = B("f", t, [t] * n)
            acc = b.c(0, t)
            for k, q in enumerate(b.p):
                acc = b.bin(b.bin(acc, "*", b.c(3, t), t), "+", b.bin(q, "^", b.c(k, t), t), t)
            b.ret(acc)
            return b.m

        key = "rvargs.%d.%s" % (n, t)
        out.append({"key": key, "make": make, "fn": "f", "vecs": int_vectors([t] * n, random.Random(key), nvec), "ext": [],
                    "src": "engines/c05.py rv_programs: %d arguments of type %s (6 argument registers)" % (n, t)})
    out += rv_directed(bad, nvec, thorough)
    # patterns
    pats = irpatterns.patterns(random.Random(rng.randrange(1 << 30)), thorough=thorough)
    pats = [p for p in pats if all(t in RV_TYPES for t in p[3])]
    import os
    npat = int(os.environ.get("C05_NPAT", 400 if thorough else 24))
    if npat < len(pats):
        always = [p for p in pats if ":self_loop:" in p[0]][:4]
        rest = [p for p in pats if p not in always]
        pats = always + rng.sample(rest, max(0, npat - len(always)))
    for key, mk, fn, ptys in pats:
        def make(mk=mk):
            m = mk()
            restrict(m, bad)
            return m

        prng = random.Random(sum(ord(ch) * (k + 1) for k, ch in enumerate(key)))
        out.append({"key": key.replace(":", "."), "make": make, "fn": fn, "vecs": int_vectors(ptys, prng, nvec), "ext": stub,
                    "src": "harness/irpatterns.py pattern " + key})
    # irgen
    for _ in range(150 if thorough else 10):
        seed = rng.randrange(1 << 30)

        def make(seed=seed):
            m, info = irgen.gen_module(random.Random(seed), types=RV_TYPES, budget=10)
            restrict(m, bad)
            return m

        try:
            _, info = irgen.gen_module(random.Random(seed), types=RV_TYPES, budget=10)
        except Exception:
            ctx.cov["irgen_failed"] = ctx.cov.get("irgen_failed", 0) + 1
            continue
        prng = random.Random(seed ^ 0x5EED)
        out.append({"key": "rvir%d" % seed, "make": make, "fn": info["main"], "vecs": int_vectors(info["params"], prng, nvec), "ext": stub,
                    "src": "harness/irgen.py gen_module(random.Random(%d), types=i8..u32, budget=10) with the operations riscv cannot "
                           "select rewritten" % seed})
    # C programs through ppci's front-end (the IR it produces for riscv is the reference)
    for _ in range(60 if thorough else 4):
        seed = rng.randrange(1 << 30)
        prng = random.Random(seed)
        gen = absprog.Gen(prng, max_funcs=2, max_stmts=5, max_depth=2, types=["c8", "u8", "i16", "u16", "i32", "u32"],
                          features=absprog.DEFAULT_FEATURES - {"extern"})
        prog = gen.program()
        src = absprog.render_c(prog)

        def make(src=src):
            m = optcorpus.compile_c(src, "riscv")
            restrict(m, bad)
            return m

        try:
            make()
        except Exception:
            ctx.cov["c_frontend_rejected"] = ctx.cov.get("c_frontend_rejected", 0) + 1
            continue
        f, vecs = absprog.arg_vectors(prog, prng, nvec)
        out.append({"key": "rvc%d" % seed, "make": make, "fn": f["n"], "vecs": vecs, "ext": [], "src": src})
    return out


OPNAME = {"+": "add", "-": "sub", "*": "mul", "/": "div", "%": "rem", "|": "or", "&": "and", "^": "xor", "<<": "shl", ">>": "shr",
          "<": "lt", ">": "gt", "<=": "le", ">=": "ge", "==": "eq", "!=": "ne"}
RV_CONSTS = [-0x80000000, -0x12345, -0x10000, -4097, -4096, -2049, -2048, -2047, -33, -32, -1, 0, 1, 31, 32, 2047, 2048, 2049,
             4095, 4096, 0xFFFF, 0x10000, 0x1FFFF, 0x20000, 0x12345, 0x7FFFF800, 0x7FFFFFFF, 0xFFFFF800, 0xFFFFFFFF]


def rv_directed(bad, nvec, thorough):
    """directed modules for the places where a 32-bit register machine has to work for the narrow / wide values of IR:
    constants at the edges of the immediate fields, shifts by constants, every cast pair observed at 32 bits, comparisons of
    narrow values after an overflowing operation, narrow loads / stores, narrow values through calls"""
    from engines.c02 import int_vectors
    from harness.irpatterns import B

    out = []

    def add(key, make, ptys, src, extra=()):
        prng = random.Random(key)
        vecs = [list(v) for v in extra] + int_vectors(ptys, prng, nvec)
        out.append({"key": key, "make": make, "fn": "f", "vecs": vecs, "ext": [], "src": "engines/c05.py rv_directed: " + src})

    def edges(t):
        b = BITS[t]
        lo, hi = (-(1 << (b - 1)), (1 << (b - 1)) - 1) if t[0] == "i" else (0, (1 << b) - 1)
        return [lo, hi, -1 if lo < 0 else hi - 1, hi // 2 + 1]

    # constants: x op C and C op x, one module per constant C at the edges of the 6 / 12 / 20-bit immediates
    consts = RV_CONSTS if thorough else [-0x80000000, -0x12345, -4096, -2049, -2048, -33, 31, 2047, 2048, 4096, 0x1FFFF, 0x20000,
                                         0x7FFFF800, 0xFFFFFFFF]
    for t in (("i32", "u32", "i16", "u8") if thorough else ("i32", "u32")):
        for op in (("+", "-", "&", "|", "^") if thorough else ("+", "&", "^")):
            if ("binop", op, t) in bad:
                continue
            for side in ("xc", "cx"):
                for c in consts:
                    cw = c & ((1 << BITS[t]) - 1) if t[0] == "u" else ((c + (1 << (BITS[t] - 1))) % (1 << BITS[t])) - (1 << (BITS[t] - 1))
                    if cw != c and (BITS[t] == 32 and t[0] == "i" and c > 0x7FFFFFFF) is False and BITS[t] < 32:
                        continue

                    def make(t=t, op=op, side=side, c=c):
                        b = B("f", t, [t])
                        k = b.c(c, t)
                        b.ret(b.bin(b.p[0], op, k, t) if side == "xc" else b.bin(k, op, b.p[0], t))
                        return b.m

                    add("rvconst.%s.%s.%s.%s" % (t, OPNAME[op], side, ("m%x" % -c) if c < 0 else "%x" % c), make, [t],
                        "x %s %#x (%s) on %s" % (op, c, side, t), [[e] for e in edges(t)[:2]])
    # shifts with a constant operand, either side
    for t in RV_TYPES:
        for op in ("<<", ">>"):
            if ("binop", op, t) in bad:
                continue
            for side in ("xc", "cx"):
                for c in ((0, 1, 3, 7) if BITS[t] == 8 else (0, 1, 7, 15) if BITS[t] == 16 else (0, 1, 7, 15, 16, 31)):
                    if side == "cx" and c in (0, 16):
                        continue

                    def make(t=t, op=op, side=side, c=c):
                        b = B("f", t, [t])
                        x = b.p[0]
                        if side == "cx":
                            x = b.bin(x, "&", b.c(BITS[t] - 1, t), t)
                            v = b.bin(b.c(c if c < 16 else 0x41, t), op, x, t)
                        else:
                            v = b.bin(x, op, b.c(c, t), t)
                        b.ret(v)
                        return b.m

                    add("rvshc.%s.%s.%s.%d" % (t, OPNAME[op], side, c), make, [t], "%s with constant operand %d (%s)" % (op, c, side),
                        [[e] for e in edges(t)])
    # casts: every pair, observed through a 32-bit result
    for t in RV_TYPES:
        for t2 in RV_TYPES:
            if t == t2:
                continue
            for wide in ("i32", "u32"):
                def make(t=t, t2=t2, wide=wide):
                    b = B("f", wide, [t])
                    v = b.cast(b.p[0], t2)
                    b.ret(v if t2 == wide else b.cast(v, wide))
                    return b.m

                add("rvcast.%s.%s.%s" % (t, t2, wide), make, [t], "(%s)(%s)x for x of type %s" % (wide, t2, t), [[e] for e in edges(t)])
    # comparisons of narrow values that went through an overflowing operation
    for t in ("i8", "u8", "i16", "u16"):
        for op in ("+", "-", "*"):
            if ("binop", op, t) in bad:
                continue
            for cond in ("<", ">", "<=", ">=", "==", "!="):
                def make(t=t, op=op, cond=cond):
                    b = B("f", "i32", [t, t])
                    x, y = b.p
                    yes, no = b.block("yes"), b.block("no")
                    s = b.bin(x, op, y, t)
                    b.cj(s, cond, y, yes, no)
                    b.at(yes).ret(b.c(1, "i32"))
                    b.at(no).ret(b.c(2, "i32"))
                    return b.m

                e = edges(t)
                add("rvcmp.%s.%s.%s" % (t, OPNAME[op], OPNAME[cond]), make, [t, t], "(x %s y) %s y on %s" % (op, cond, t),
                    [[e[0], e[2]], [e[1], 1], [e[1], e[1]], [e[3], e[3]], [7, e[1]]])
    # narrow values in memory and through calls
    for t in ("i8", "u8", "i16", "u16", "i32"):
        def make(t=t):
            from ppci import ir

            b = B("f", "i32", [t, t])
            x, y = b.p
            sz = BITS[t] // 8
            g = b.glob("g", 4 * sz, bytes([0x80 + k for k in range(4 * sz)]))
            p0 = b.e(ir.AddressOf(g, b.nm("gp")))
            old = b.load(b.off(p0, 2 * sz), t)
            b.store(x, b.off(p0, sz))
            b.store(b.bin(y, "+", old, t), b.off(p0, 3 * sz))
            r = b.bin(b.cast(b.load(b.off(p0, sz), t), "i32"), "+", b.cast(b.load(b.off(p0, 3 * sz), t), "i32"), "i32")
            b.ret(b.bin(r, "^", b.cast(old, "i32"), "i32"))
            return b.m

        add("rvmem.%s" % t, make, [t, t], "narrow stores / loads of a global array of %s, widened to i32" % t,
            [[edges(t)[0], edges(t)[1]], [edges(t)[2], 1]])

        def make2(t=t):
            from ppci import ir

            b = B("h", t, [t, t])
            b.ret(b.bin(b.p[0], "+", b.p[1], t))
            h = b.f
            b2 = B("f", "i32", [t, t], module=b.m)
            r = b2.e(ir.FunctionCall(h, [b2.p[0], b2.p[1]], b2.nm("call"), getattr(ir, t)))
            r2 = b2.e(ir.FunctionCall(h, [r, b2.p[1]], b2.nm("call"), getattr(ir, t)))
            b2.ret(b2.cast(r2, "i32"))
            return b2.m

        add("rvcall.%s" % t, make2, [t, t], "h(h(x, y), y) with h(a, b) = a + b on %s, widened to i32" % t,
            [[edges(t)[1], 1], [edges(t)[0], edges(t)[2]]])
    return out


def rv_stub_object(march, pm):
    """external functions as assembled stubs: return STUB_VALUE (procedures: return)"""
    rl = rvlink_mod()
    names = [g for g in pm["globals"] if g["k"] == "xfn"]
    if not names:
        return None
    lines = []
    for g in names:
        lines += ["global %s" % g["name"], "%s:" % g["name"]]
        if g["ret"]:
            lines.append("addi x10, x0, %d" % STUB_VALUE)
        lines.append("jalr x0, x1, 0")
    return rl.build_object(march, ["section code"] + lines)


def rv_prepare(ctx, programs, levels=LEVELS):
    """compile every program for both variants at every level, link, project the image; variants whose images are
    byte-identical share one execution"""
    from ppci import api

    rl = rvlink_mod()
    ready = []
    for p in programs:
        try:
            pm = project_ir.project_module(p["make"](), 4)
        except Exception:
            ctx.cov["rv_build_failed"] = ctx.cov.get("rv_build_failed", 0) + 1
            continue
        if not module_types(pm) <= set(RV_TYPES) | {"ptr"}:
            ctx.cov["rv_skipped_types"] = ctx.cov.get("rv_skipped_types", 0) + 1
            continue
        f = [x for x in pm["funcs"] if x["name"] == p["fn"]]
        if not f or not f[0]["ret"] or any(q["ty"] not in RV_TYPES for q in f[0]["params"]) or any(g["k"] == "xvar" for g in pm["globals"]):
            ctx.cov["rv_skipped_signature"] = ctx.cov.get("rv_skipped_signature", 0) + 1
            continue
        ptys = [q["ty"] for q in f[0]["params"]]
        vecs = [v for v in p["vecs"] if len(v) == len(ptys)]
        if not vecs:
            continue
        globs = [(g["name"], g["size"]) for g in pm["globals"] if g["k"] == "var"]
        images, variants = {}, []
        for march in RV_MARCHS:
            for lv in levels:
                label = "%s-O%s" % (march.replace(":", "+"), lv)
                try:
                    def work(march=march, lv=lv):
                        m = p["make"]()
                        if lv != "0":
                            api.optimize(m, level=lv)
                        return api.ir_to_object([m], rl.arch_of(march))

                    obj = native.limited(work, native.COMPILE_LIMIT_S, "riscv codegen")
                except Exception as e:      # the back-end (or the optimiser) raised: C29 / C28's business, counted
                    k = "rv_skipped_codegen_" + type(e).__name__
                    ctx.cov[k] = ctx.cov.get(k, 0) + 1
                    continue
                try:
                    stub = rv_stub_object(march, pm)
                    linked = rl.link_objects([obj] + ([stub] if stub is not None else []), rl.LAYOUT_SPLIT)
                    img = rl.image_of(linked, p["fn"], globs)
                except Exception as e:
                    variants.append((label, None, "error:link:" + type(e).__name__))
                    continue
                if img is None or rl.images_overlap(img):
                    variants.append((label, None, "error:image"))
                    continue
                h = native.digest(repr((img["segs"], img["entry"])).encode())
                images.setdefault(h, img)
                variants.append((label, h, None))
        if not variants:
            continue
        ready.append({"p": p, "pm": pm, "ptys": ptys, "ret": f[0]["ret"], "vecs": vecs, "globs": globs, "images": images,
                      "variants": variants})
    return ready


def rv_micro(ctx):
    """M: RV32_Run on hand-written images whose results are known (loader, call wrapper, observation)"""
    rl = rvlink_mod()
    L = rl.limbs
    cases = []
    src = ["global main", "global g", "section code", "main:", "add x10, x12, x13", "la x7, g", "lw x6, 0(x7)", "add x10, x10, x6",
           "sw x10, 0(x7)", "lw x5, 0(x2)", "add x10, x10, x5", "jalr x0, x1, 0", "section data", "g:", "dd 0x11223344"]
    for march in RV_MARCHS:
        obj = rl.build_object(march, src)
        img = rl.image_of(rl.link_objects([obj], rl.LAYOUT_SPLIT), "main", [("g", 4)])
        calls = [{"regs": [[12, L(5)], [13, L(7)]], "stk": [[0, L(100)]]}, {"regs": [[12, L(-1)], [13, L(2)]], "stk": [[0, L(0)]]}]
        cases.append({"id": "micro-" + march, "imgs": [img], "calls": calls, "sp": rl.SP, "ra": rl.RA, "keep": rl.keep_regs(march),
                      "fuel": 50, "expect": {"status": "ok", "a0": [L(0x11223344 + 112), L(0x11223345)],
                                             "globals": [[{"name": "g", "bytes": L(0x11223344 + 12)}], [{"name": "g", "bytes": L(0x11223345)}]]}})
    # an endless loop ends "fuel", a jump out of the image "fault", a CSR access "outofmodel"
    for name, body, st in (("loop", ["main:", "beq x0, x0, main"], "fuel"), ("wild", ["main:", "jalr x0, x0, 64"], "fault"),
                           ("trap", ["main:", "ebreak"], "outofmodel")):
        obj = rl.build_object("riscv", ["global main", "section code"] + body)
        img = rl.image_of(rl.link_objects([obj], "MEMORY flash LOCATION=0x1000 SIZE=0x100 { SECTION(code) }\n"), "main", [])
        cases.append({"id": "micro-" + name, "imgs": [img], "calls": [{"regs": [], "stk": []}], "sp": rl.SP, "ra": rl.RA, "keep": [],
                      "fuel": 40, "expect": {"status": st, "a0": [[]], "globals": [[]]}})
    res, _ = rl.run_images(ctx, cases, "M: RV32_Run on hand-written images", emit=False,
                           invariants=("AsExpected", "ConventionKept", "TypeOK"), workers=2)
    for e in res.errors:
        raise MachineryError("RV32_Run self-check fails: %s %s" % (e, e.text[:1500]))
    ctx.cov["rv_micro_images"] = len(cases)


def run_riscv(ctx, thorough, only=None):
    import os

    rl = rvlink_mod()
    ctx.assume("tla/RV32.tla is the meaning of RV32IMC machine code (C08 validates ppci's encodings against it, RV32_MC its own "
               "laws); misaligned data accesses are performed byte-wise; the calling convention is the one ppci's RiscvArch "
               "declares (arguments x12..x17 then memory at sp, result x10, callee-saved x8 x9 x18..x27, sp)")
    ctx.assume("harness/rvlink.py copies the linked sections, symbol addresses and ppci's argument locations faithfully; an "
               "integer argument narrower than a register is passed as its own sign / zero extension; results are compared on "
               "the bytes of the IR return type")
    if only is None:
        rv_micro(ctx)
    bad = rv_probe_unsupported(ctx)
    programs = rv_programs(ctx, bad, thorough)
    if only is not None:
        programs = [p for p in programs if p["key"] == only]
    ctx.cov["rv_programs_generated"] = len(programs)
    ready = rv_prepare(ctx, programs)
    ctx.cov["rv_programs_compiled"] = len(ready)
    # ---- run 1: the machine side
    cases, meta = [], []
    for r in ready:
        for h, img in r["images"].items():
            cases.append({"id": r["p"]["key"], "imgs": [img], "sp": rl.SP, "ra": rl.RA, "keep": rl.keep_regs("riscv"), "fuel": RV_FUEL,
                          "calls": [rl.call_record("riscv", r["ptys"], v) for v in r["vecs"]]})
            meta.append((r, h))
    ctx.cov["rv_distinct_images_executed"] = len(cases)
    observed = {}
    steps = []
    for b0 in range(0, len(cases), 600):
        res, obs = rl.run_images(ctx, cases[b0:b0 + 600], "RV32.tla executes the linked images (%d)" % (b0 // 600), emit=True,
                                 invariants=("TypeOK",))
        for e in res.errors:
            raise MachineryError("unexpected TLC error in the RV32_Run run: %s\n%s" % (e, e.text[:1500]))
        for (ci, av, im), (o, n) in obs.items():
            r, h = meta[b0 + ci - 1]
            observed[(id(r), h, av)] = (o, n)
            steps.append(n)
    if steps:
        ctx.cov["rv_machine_instructions_executed"] = sum(steps)
        ctx.cov["rv_max_instructions_per_call"] = max(steps)
    # ---- run 2: the IR side judges.  One IR.tla case per (program, vector, distinct observation)
    TYB = {t: int(t[1:]) // 8 for t in RV_TYPES}
    ir_cases, ir_meta = [], []
    skipped = {}
    for r in ready:
        for vi, vec in enumerate(r["vecs"]):
            groups = {}
            for label, h, err in r["variants"]:
                if err is not None:
                    ob = {"outcome": err, "ret": [], "globals": [], "hascalls": False, "calls": []}
                else:
                    got = observed.get((id(r), h, vi + 1))
                    if got is None:
                        raise MachineryError("no observation for %s %s vector %d" % (r["p"]["key"], label, vi + 1))
                    o, n = got
                    st = o["status"]
                    if st in ("fuel", "outofmodel"):
                        skipped[st] = skipped.get(st, 0) + 1
                        continue
                    if st == "ok" and not o["kept"]:
                        st = "convention-not-kept"
                    ob = {"outcome": "ok" if st == "ok" else "error:" + st,
                          "ret": list(o["a0"][:TYB[r["ret"]]]) if st == "ok" else [],
                          "globals": [{"name": g["name"], "bytes": list(g["bytes"])} for g in o["globals"]] if st == "ok" else [],
                          "hascalls": False, "calls": []}
                groups.setdefault(repr(ob), (ob, []))[1].append(label)
            for ob, labels in groups.values():
                ir_cases.append({"id": "%s@%d" % (r["p"]["key"], vi), "mods": [r["pm"]], "fn": r["p"]["fn"],
                                 "argv": [[project_ir.limbs(v, TYB[t]) for v, t in zip(vec, r["ptys"])]],
                                 "ext": r["p"]["ext"], "fuel": 3000, "obs": ob})
                ir_meta.append((r, vec, labels, ob))
                ctx.count(None, n=len(labels))
    ctx.cov["rv_skipped_machine_side"] = skipped
    for r, vec, labels, ob in ir_meta[:3]:
        ctx.sample({"program": r["p"]["key"], "args": vec, "variants": labels, "observed": ob["outcome"], "x10": ob["ret"]})
    judged = 0
    for b0 in range(0, len(ir_cases), 1500):
        part = ir_cases[b0:b0 + 1500]
        path = ctx.trace_file(part)
        res2 = ctx.tlc("IR", RV_IR_CFG, label="IR.tla judges the riscv observations (%d)" % (b0 // 1500), env={"TRACE_FILE": path},
                       continue_=True, workers=WORKERS, heap="8g")
        os.unlink(path)
        acts = {k.split(".")[-1]: v for k, v in core.tlcmod.action_coverage(res2).items()}
        seen = set()
        for e in res2.errors:
            st = e.last
            i = st.get("i")
            if e.kind != "invariant" or e.name != "ObsMatchesImpl" or not isinstance(i, int) or not 1 <= i <= len(part):
                raise MachineryError("unexpected TLC error in the IR run: %s\n%s" % (e, e.text[:1500]))
            r, vec, labels, ob = ir_meta[b0 + i - 1]
            for lab in labels:
                key = "C05:%s:%s" % (r["p"]["key"], lab)
                if key in seen:
                    continue
                seen.add(key)
                ctx.violation(key, "%s(%s) [%s]: the linked image executed by RV32.tla ends %s with x10=%s globals=%s; the IR prescribes ret=%s" % (
                    r["p"]["fn"], ", ".join(map(str, vec)), lab, ob["outcome"], ob["ret"],
                    {g["name"]: bytes(g["bytes"]).hex() for g in ob["globals"]}, st.get("ret")),
                    {"program": r["p"]["key"], "part": "riscv", "source": r["p"]["src"][:6000], "args": vec, "variant": lab,
                     "observed": ob, "ir_state": {x: st.get(x) for x in ("status", "ret")}})
        judged += len(part)
    ctx.cov["traces_validated_against_impl"] += judged
    ctx.cov["distinct_nontrivial"] += sum(len(m[2]) for m in ir_meta)
