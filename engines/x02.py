"""X02 (extension) — the Brainfuck and Whitespace front-ends against the abstract machines of the two languages.

Deciding method: explicit TLA+ state machines of the languages (tla/BF.tla: tape of byte cells, data pointer, bracket
matching, one action per command; tla/WS.tla: concrete syntax, stack, heap, labels, call stack, arithmetic, I/O, one
action per instruction) checked by TLC, bound to ppci.lang.bf / ppci.lang.ws.  Python only generates inputs, drives
ppci, projects what it did and moves TLC's observations between TLC runs; TLC + the specifications decide.

  M   BF_MC.tla    every program of length <= 4 (5) over the commands + a comment character: bracket matching is an
                   involution / bijection agreeing with the nesting-depth definition, rejected iff unbalanced, determinism,
                   action properties for every command ([ ] skip iff cell = 0, wrap-around, I/O order), micro programs
      WS_MC.tla    every token sequence of length <= 6 (7): parse / unparse round trip, malformed position, prefix-free
                   table, floor division, determinism, action properties, micro programs; every action taken
  G   BF_Run.tla   TLC enumerates all Brainfuck programs up to length 4 (5) (and runs the generated ones) -> observations
      WS_Run.tla   TLC enumerates all token sequences up to length 6 (7) (and runs the generated programs)
  T   BF_IR.tla    TLC executes the IR that bf_to_ir emitted (IR.tla) and compares with the BF.tla observation:
                   StaysDefined / Terminates / Diverges / SameOutput / OutputPrefix / SameInputs
  E   BF_Diag.tla  accepted iff brackets match, otherwise CompilerError; shape of the emitted module (30000 cells)
      WS_Eval.tla  parser result, output of the front-end's execution, existence of an IR module
"""
import contextlib
import io
import json
import logging
import os
import shutil
import tempfile

from harness import bfgen, core, project_ir
from harness.tlc import MachineryError

logging.getLogger().addHandler(logging.NullHandler())
WORKERS = 8
TAPE = 8
TAPE_DOC = 30000
BF_MARCHES = (("arm", 4), ("msp430", 2), ("x86_64", 8))

BF_MC_CFG = """CONSTANT MaxLen = %d
CONSTANT TapeN = 3
CONSTANT Fuel = 300
INIT MInit
NEXT MNext
CHECK_DEADLOCK FALSE
INVARIANT TypeOK
INVARIANT BracketLaws
INVARIANT Rejected
INVARIANT Deterministic
INVARIANT Periodic
INVARIANT ExpectMet
PROPERTY PLoop
PROPERTY PCell
PROPERTY PMove
PROPERTY PIo
"""
WS_MC_CFG = """CONSTANT MaxTok = %d
CONSTANT Fuel = 200
INIT MInit
NEXT MNext
CHECK_DEADLOCK FALSE
INVARIANT MTypeOK
INVARIANT ParseLaws
INVARIANT Deterministic
INVARIANT ExpectMet
INVARIANT MicroParsed
PROPERTY PStack
PROPERTY PFlow
PROPERTY PIo
"""
BF_RUN_CFG = """CONSTANT GenLen = %d
CONSTANT TapeN = %d
CONSTANT Fuel = %d
INIT RInit
NEXT RNext
CHECK_DEADLOCK FALSE
INVARIANT TypeOK
"""
WS_RUN_CFG = """CONSTANT GenLen = %d
CONSTANT Fuel = %d
INIT RInit
NEXT RNext
CHECK_DEADLOCK FALSE
INVARIANT RTypeOK
"""
BF_IR_CFG = """INIT Init
NEXT Next
CHECK_DEADLOCK FALSE
INVARIANT BudgetAdequate
INVARIANT StaysDefined
INVARIANT Terminates
INVARIANT Diverges
INVARIANT SameOutput
INVARIANT OutputPrefix
INVARIANT SameInputs
"""
EVAL_CFG = """INIT Init
NEXT Next
CHECK_DEADLOCK FALSE
INVARIANT Conforms
"""
BF_ACTIONS = ["IncCell", "DecCell", "MoveRight", "MoveLeft", "Output", "Input", "LoopOpen", "LoopClose", "Comment", "Halt", "OutOfFuel"]
WS_ACTIONS = ("Push Dup Copy Swap Drop Slide Add Sub Mul Div Mod Store Retrieve Mark Call Jump JumpZero JumpNeg Return End "
              "OutChar OutNum ReadChar ReadNum FallOff OutOfFuel").split()


def show(src):
    """A program as a key fragment (printable, no separators)."""
    return "".join(c if 33 <= ord(c) < 127 and c not in ":*?" else "\\x%02x" % ord(c) for c in src) or "(empty)"


def stl(toks):
    return "".join({32: "s", 9: "t", 10: "l"}.get(c, "?") for c in toks) or "(empty)"


def exc_name(e):
    from ppci.common import CompilerError

    return "CompilerError" if isinstance(e, CompilerError) else type(e).__name__


# ------------------------------------------------------------------ ppci side: Brainfuck
class BfDriver:
    def __init__(self):
        self.arch = {}

    def get_arch(self, march):
        from ppci.api import get_arch

        if march not in self.arch:
            self.arch[march] = get_arch(march)
        return self.arch[march]

    def compile(self, src, march, how):
        """-> (module or None, outcome record)"""
        from ppci import ir
        from ppci.lang.bf import bf_to_ir
        from harness.watchdog import limited

        try:
            arch = self.get_arch(march)
            m = limited(lambda: bf_to_ir(io.StringIO(src) if how == "file" else src, arch), 20, "bf_to_ir")
            if not isinstance(m, ir.Module):
                return None, {"ok": False, "exc": "returned " + type(m).__name__}
            return m, {"ok": True, "exc": ""}
        except Exception as e:  # rejection or internal error: recorded, judged by TLC
            return None, {"ok": False, "exc": exc_name(e)}


def stub_module(pb, why):
    """Stand-in for the IR of a program that could not be translated / projected: its entry cannot be executed
    (IR.tla ends 'outofmodel'), so that TLC judges the recorded outcome like any other IR."""
    fn = {"name": "main", "ret": "", "params": [], "nvals": 0, "entry": 1,
          "blocks": [{"name": "none", "ins": [{"k": "oom", "d": 0, "ty": "", "why": why}]}]}
    return {"name": "not-translated", "pb": pb, "globals": [{"k": "fn", "name": "main", "fi": 1, "binding": "global"}], "funcs": [fn]}


def shape_of(pm):
    """Facts about an emitted module that the tape-length abstraction relies on (judged by BF_Diag.tla)."""
    data = [g for g in pm["globals"] if g["k"] == "var" and g["name"] == "data"]
    big = []
    for f in pm["funcs"]:
        for b in f["blocks"]:
            for ins in b["ins"]:
                if ins["k"] == "const" and isinstance(ins.get("v"), list):
                    v = sum(x << (8 * k) for k, x in enumerate(ins["v"]))
                    if v >= 256:
                        big.append(v if v < 2 ** 30 else -1)
    return {"datasize": data[0]["size"] if len(data) == 1 else -1, "bounds": big,
            "externals": [g["name"] for g in pm["globals"] if g["k"] in ("xfn", "xvar")]}


def shrink_tape(pm, tape):
    """The tape-length abstraction (header of BF_IR.tla): the global `data` and every constant equal to its size."""
    data = [g for g in pm["globals"] if g["k"] == "var" and g["name"] == "data"]
    if len(data) != 1:
        return pm
    old = data[0]["size"]
    data[0]["size"] = tape
    for f in pm["funcs"]:
        for b in f["blocks"]:
            for ins in b["ins"]:
                if ins["k"] == "const" and isinstance(ins.get("v"), list) and old >= 256 \
                        and ins["v"] == project_ir.limbs(old, len(ins["v"])):
                    ins["v"] = project_ir.limbs(tape, len(ins["v"]))
    return pm


# ------------------------------------------------------------------ ppci side: Whitespace
def ws_parse(text):
    from ppci.lang import ws
    from harness.watchdog import limited

    try:
        with contextlib.redirect_stdout(io.StringIO()):
            prog = limited(lambda: ws.WhitespaceParser().compile(io.StringIO(text)), 5, "ws_parse")
        ins = []
        for x in prog:
            v = getattr(x, "value", 0)
            ins.append({"cls": type(x).__name__, "v": v if isinstance(v, int) and not isinstance(v, bool) and abs(v) < 2 ** 30 else 0})
        return prog, {"ok": True, "exc": "", "ins": ins}
    except Exception as e:
        return None, {"ok": False, "exc": exc_name(e), "ins": []}


def ws_run(prog):
    from ppci.lang import ws
    from harness.watchdog import limited

    buf = io.StringIO()
    try:
        with contextlib.redirect_stdout(buf):
            limited(lambda: ws.WhitespaceInterpreter().run(prog), 5, "ws_run")
        return {"ok": True, "exc": "", "text": [min(ord(c), 1114111) for c in buf.getvalue()]}
    except Exception as e:
        return {"ok": False, "exc": exc_name(e), "text": [min(ord(c), 1114111) for c in buf.getvalue()]}


def ws_module(text):
    from ppci import ir
    from ppci.lang import ws
    from harness.watchdog import limited

    try:
        with contextlib.redirect_stdout(io.StringIO()):
            r = limited(lambda: ws.ws_to_ir(io.StringIO(text)), 5, "ws_to_ir")
        return {"module": isinstance(r, ir.Module), "exc": ""}
    except Exception as e:
        return {"module": False, "exc": exc_name(e)}


# ------------------------------------------------------------------ the engine
class Engine:
    LEVEL = "model_checking"

    def run(self, ctx):
        self.replay = ctx.only is not None
        self.thorough = ((ctx.only or {}).get("tier") if self.replay else ctx.tier) == "thorough"
        self.want = (ctx.only or {}).get("key")
        self.capped = {}
        ctx.rule("Brainfuck: (a) TLC enumerates every program of length <= 4 (thorough 5) over the eight commands and runs it under "
                 "BF.tla (8-cell tape); (b) 24 hand-picked shapes (wrap-around, nested / skipped / endless loops, comments), seeded "
                 "random programs built from loop idioms (harness/bfgen.py), probes on a tape whose length is not a multiple of 4 and on "
                 "a 64-bit target.  Every program is compiled with ppci.lang.bf.bf_to_ir (source given as str; a sample also as a file "
                 "object); the outcome (accepted / exception class) is judged by BF_Diag.tla; for every program whose BF.tla execution "
                 "halts or provably runs for ever TLC executes the emitted IR under IR.tla and compares the external-call sequence and "
                 "termination (BF_IR.tla).  distinct = distinct (program, tape length, target, source kind) compared; executions that "
                 "leave the tape, read past the input or exhaust the budget undecided are skipped and counted.  Whitespace: (c) TLC "
                 "enumerates every token sequence of length <= 6 (thorough 7); (d) one probe per instruction, random programs over the "
                 "implemented subset, truncated / corrupted variants.  Each is parsed with WhitespaceParser, executed with "
                 "WhitespaceInterpreter and passed to ws_to_ir; WS_Eval.tla judges the instruction list, the text written and whether "
                 "an IR module results.")
        ctx.assume("BF.tla / WS.tla are the meaning of the two languages (WS.tla written from the Whitespace 0.3 tutorial; cells are bytes, "
                   "the pointer does not wrap, end of input is undefined)")
        ctx.assume("harness/project_ir.py reports the IR module faithfully; IR.tla is the meaning of ppci IR (as for C02)")
        ctx.assume("tape-length abstraction: the emitted module is executed with `data` and the bound of its initialisation loop reduced from "
                   "30000 to the tape length BF.tla ran with (BF_Diag.tla checks that 30000 is what the module says)")
        ctx.assume("bsp_putc(byte) is the output routine; any other external routine would be an input routine")
        real_violation = ctx.violation
        if self.replay:
            ctx.violation = lambda key, what, case=None: real_violation(key, what, case) if key == self.want else False
        # X02_PART=mc,bf,ws restricts a run to some of its parts (debugging / mutant runs); evidence of a partial run says so
        parts = set(filter(None, os.environ.get("X02_PART", "").split(","))) or {"mc", "bf", "ws"}
        if parts != {"mc", "bf", "ws"}:
            ctx.note("partial run: X02_PART=%s" % ",".join(sorted(parts)))
        if not self.replay and "mc" in parts:
            self.model_check(ctx)
        if "bf" in parts and (not self.replay or self.want.startswith("X02:bf:")):
            self.brainfuck(ctx)
        if "ws" in parts and (not self.replay or self.want.startswith("X02:ws:")):
            self.whitespace(ctx)

    def keep(self, enumerated, lang, exc):
        """Input selection: of the TLC-enumerated inputs on which the front-end raised the same internal error (an exception
        other than CompilerError) only the first CAP are passed on to TLC (every one costs an error trace); all outcomes
        'accepted' / 'CompilerError' and all generated inputs are always judged."""
        if not enumerated or exc in ("", "CompilerError"):
            return True
        n = self.capped[(lang, exc)] = self.capped.get((lang, exc), 0) + 1
        return n <= (60 if self.thorough else 25)

    # ---- M ---------------------------------------------------------------------------------------------
    def model_check(self, ctx):
        for module, cfg, micro, actions in (
                ("BF_MC", BF_MC_CFG % (5 if self.thorough else 4), bfgen.bf_micro_cases(), BF_ACTIONS),
                ("WS_MC", WS_MC_CFG % (7 if self.thorough else 6), bfgen.ws_micro_cases(), WS_ACTIONS)):
            path = ctx.trace_file(micro, "micro.json")
            obsdir = tempfile.mkdtemp(prefix="acts_", dir=ctx.workdir)
            # (TLC's -coverage instrumentation makes the WS_MC run five times slower: WS_MC records the actions itself)
            res = ctx.tlc(module, cfg, label=module + " laws + micro programs", env={"TRACE_FILE": path, "OBS_DIR": obsdir}, workers=WORKERS,
                          coverage=module == "BF_MC")
            os.unlink(path)
            if res.errors or not res.completed:
                raise MachineryError("%s fails its own model check: %s" % (module, [str(e)[:300] for e in res.errors[:4]] or res.raw[-1500:]))
            if module == "BF_MC":
                acts = core.tlcmod.action_coverage(res)
                missing = [a for a in actions if not acts.get(module + ".A" + a)]
            else:
                taken = set()
                for fn in os.listdir(obsdir):
                    with open(os.path.join(obsdir, fn)) as fh:
                        taken |= set(json.load(fh)["acts"])
                missing = [a for a in actions if a not in taken]
                for a in sorted(taken):
                    ctx.cov["actions"]["WS_MC." + a] = ctx.cov["actions"].get("WS_MC." + a, 0) + 1
            shutil.rmtree(obsdir, ignore_errors=True)
            if missing:
                raise MachineryError("%s: actions never taken: %s" % (module, missing))
            ctx.cov[module + "_micro_programs"] = len(micro)

    # ---- Brainfuck ----------------------------------------------------------------------------------------
    def observations(self, ctx, module, cfg, label, gen_count, cases, prefix):
        """One TLC run (BF_Run / WS_Run): -> (observations of the TLC-enumerated inputs, observations of `cases` in order)."""
        obsdir = tempfile.mkdtemp(prefix=prefix, dir=ctx.workdir)
        path = ctx.trace_file(cases, "cases.json")
        res = ctx.tlc(module, cfg, label=label, env={"TRACE_FILE": path, "OBS_DIR": obsdir}, workers=WORKERS, coverage=False)
        os.unlink(path)
        if res.errors:
            raise MachineryError("%s: %s" % (module, [str(e)[:400] for e in res.errors[:3]]))
        gen, file = {}, {}
        for fn in os.listdir(obsdir):
            with open(os.path.join(obsdir, fn)) as fh:
                r = json.load(fh)
            (gen if r["gen"] else file)[r["i"]] = r
        shutil.rmtree(obsdir, ignore_errors=True)
        if len(gen) != gen_count or len(file) != len(cases):
            raise MachineryError("%s wrote %d + %d observations, expected %d + %d" % (module, len(gen), len(file), gen_count, len(cases)))
        return [gen[k] for k in sorted(gen)], [file[k] for k in sorted(file)]

    def brainfuck(self, ctx):
        rng = ctx.rng
        drv = BfDriver()
        gen_len = 5 if self.thorough else 4
        items = []   # {src, inp, tape, obs, origin, marches, hows}
        # (b) hand-picked shapes, random programs, probes
        progs = [(s, TAPE, ["arm", "msp430"], ["str", "file"] if k % 3 == 0 else ["str"], "fixed") for k, (s, _) in enumerate(bfgen.BF_FIXED)]
        for k in range(250 if self.thorough else 40):
            tape = 8 if k % 2 == 0 else 12
            progs.append((bfgen.BFGen(rng, tape).program(), tape, ["arm", "msp430"] if k % 4 == 0 else ["arm"], ["str"], "random"))
        for s in ("+.", "++[->+<]>."):
            progs.append((s, TAPE, ["x86_64"], ["str"], "probe64"))       # 64-bit pointers
            progs.append((s, 9, ["arm"], ["str"], "probe-tape9"))         # `data` not followed directly by the next object
            progs.append((s, 11, ["msp430"], ["str"], "probe-tape11"))
        for s in ("+.]", "]", "+[.", "[[]", "+]+[", ",.", "+[,.]"):        # malformed / input
            progs.append((s, TAPE, ["arm"], ["str", "file"] if s in ("+.]", "+[.") else ["str"], "fixed"))
        cases = [{"src": [ord(c) for c in s], "inp": [5, 200, 0], "tape": tape, "fuel": 2500 if self.thorough else 800}
                 for s, tape, _, _, _ in progs]
        # (a) exhaustive: TLC enumerates the programs (its step budget is the one in the cfg: long loops are left to (b) in the quick tier)
        gen, file = self.observations(ctx, "BF_Run", BF_RUN_CFG % (gen_len, TAPE, 600 if self.thorough else 150),
                                      "BF.tla: all programs of length <= %d + hand-picked, random and probe programs" % gen_len,
                                      sum(8 ** n for n in range(gen_len + 1)), cases, "bfobs_")
        for r in gen:
            items.append({"src": "".join(map(chr, r["src"])), "inp": r["inp"], "tape": r["tape"], "obs": r["obs"], "origin": "gen",
                          "marches": ["arm"], "hows": ["str"]})
        ctx.cov["bf_programs_enumerated_by_tlc"] = len(items)
        for r, (s, tape, marches, hows, origin) in zip(file, progs):
            items.append({"src": s, "inp": r["inp"], "tape": tape, "obs": r["obs"], "origin": origin, "marches": marches, "hows": hows})
        stat = {}
        for it in items:
            stat[it["obs"]["status"]] = stat.get(it["obs"]["status"], 0) + 1
        ctx.cov["bf_machine_status"] = stat
        # compile with ppci
        diag, ir_cases, shapes = [], [], {}
        for it in items:
            for march in it["marches"]:
                pb = dict(BF_MARCHES)[march]
                for how in it["hows"]:
                    m, outcome = drv.compile(it["src"], march, how)
                    if march == it["marches"][0] and self.keep(it["origin"] == "gen", "bf", outcome["exc"]):
                        diag.append({"kind": "accept", "src": [ord(c) for c in it["src"]], "how": how, "outcome": outcome,
                                     "key": "X02:bf:accept:%s:%s:%s" % (how, outcome["exc"] or "accepted", show(it["src"]))})
                    if it["obs"]["status"] not in ("ok", "diverges"):
                        continue
                    if m is None:
                        if "," in it["src"]:
                            continue          # already judged by the accept record (no IR to run)
                        pm = stub_module(pb, "front-end: " + outcome["exc"])
                    else:
                        try:
                            pm = project_ir.project_module(m, pb)
                            sh = shape_of(pm)
                            shapes.setdefault(json.dumps([march, sh], sort_keys=True), dict(sh, kind="shape", march=march, example=it["src"]))
                            pm = shrink_tape(pm, it["tape"])
                        except Exception as e:
                            pm = stub_module(pb, "projection: " + type(e).__name__)
                    ir_cases.append({"id": "%s|%s|%s|t%d" % (show(it["src"]), march, how, it["tape"]), "mods": [pm], "fn": "main", "argv": [[]],
                                     "ext": [{"name": g["name"], "rets": [[b] for b in it["inp"]]} for g in pm["globals"]
                                             if g["k"] == "xfn" and g["name"] != "bsp_putc"],
                                     "fuel": 8 * it["obs"]["steps"] + 8 * it["tape"] + 100, "obs": it["obs"], "tape": it["tape"],
                                     "_it": it, "_march": march, "_how": how})
        if not self.replay or ":accept:" in self.want or ":shape:" in self.want:
            recs = diag + [dict(s, key="X02:bf:shape:%s:data=%s,bounds=%s,externals=%s" % (s["march"], s["datasize"], s["bounds"], ",".join(s["externals"])))
                           for s in shapes.values()]
            for r in recs:
                ctx.count(r["key"])
            ctx.cov["bf_front_end_outcomes"] = {}
            for r in diag:
                k = r["outcome"]["exc"] or "accepted"
                ctx.cov["bf_front_end_outcomes"][k] = ctx.cov["bf_front_end_outcomes"].get(k, 0) + 1
            core.eval_records(ctx, "BF_Diag", EVAL_CFG, recs, keyfn=lambda r: r["key"], label="bf_to_ir outcome / module shape",
                              workers=4, coverage=False,
                              whatfn=lambda r, e: ("bf_to_ir(%r given as %s) -> %s; a program is Brainfuck iff its brackets match: it must then "
                                                   "be translated, otherwise rejected with a CompilerError" % (
                                                       "".join(map(chr, r["src"])), r["how"], r["outcome"]["exc"] or "accepted"))
                              if r["kind"] == "accept" else
                              "the module emitted for %r on %s has data size %s, large constants %s, externals %s; expected a tape of 30000 "
                              "cells, the bound 30000 and bsp_putc" % (r["example"], r["march"], r["datasize"], r["bounds"], r["externals"]))
        if not self.replay or ":ir:" in self.want:
            self.judge_ir(ctx, ir_cases)
        for it in items[:: max(1, len(items) // 3)][:3]:
            ctx.sample({"program": it["src"], "tape": it["tape"], "BF.tla": {k: it["obs"][k] for k in ("status", "out", "steps")}})

    def judge_ir(self, ctx, ir_cases):
        meta = [(c.pop("_it"), c.pop("_march"), c.pop("_how")) for c in ir_cases]
        if not ir_cases:
            return
        path = ctx.trace_file(ir_cases, "ir.json")
        res = ctx.tlc("BF_IR", BF_IR_CFG, label="BF.tla vs IR.tla on the emitted IR", env={"TRACE_FILE": path}, continue_=True,
                      workers=WORKERS, heap="10g", coverage=False)
        os.unlink(path)
        bad = {}
        for e in res.errors:
            st = e.last
            i = st.get("i")
            if e.kind != "invariant" or not isinstance(i, int) or i < 1 or i > len(ir_cases):
                raise MachineryError("unexpected TLC error in the BF_IR run: %s\n%s" % (e, e.text[:1500]))
            if e.name == "BudgetAdequate":
                raise MachineryError("BF_IR: the driver granted too small a step budget for case %d" % i)
            bad.setdefault(i - 1, []).append((e.name, st))
        for k, c in enumerate(ir_cases):
            it, march, how = meta[k]
            ctx.count("%s|%s|%s|%d" % (it["src"], march, how, it["tape"]))
            ctx.cov["traces_validated_against_impl"] += 1
            if k not in bad:
                continue
            clause, st = bad[k][0]
            where = ""
            try:
                top = st["stack"][-1]
                where = "@%s.%d" % (c["mods"][0]["funcs"][top["f"] - 1]["blocks"][top["b"] - 1]["name"], top["k"])
            except Exception:
                pass
            why = (st.get("why") or "").replace(" ", "-")
            key = "X02:bf:ir:%s:%s:%s:%s:t%d:%s" % (march, how, it["origin"] if it["origin"].startswith("probe") else "prog",
                                                   clause + (":" + why + where if clause == "StaysDefined" else ""), it["tape"], show(it["src"]))
            calls = st.get("calls") or []
            got = []
            for cl in calls[:12]:
                try:
                    got.append(cl["args"][0][0])
                except Exception:
                    got.append("?")
            ctx.violation(key, "%r on %s (source as %s, %d-cell tape): BF.tla: %s, output %s%s; the emitted IR: status=%s%s%s, %d calls %s%s [%s]" % (
                it["src"], march, how, it["tape"], it["obs"]["status"], it["obs"]["out"][:12], "..." if len(it["obs"]["out"]) > 12 else "",
                st.get("status"), " (%s)" % st.get("why") if st.get("why") else "", where, len(calls), got, "..." if len(calls) > 12 else "", clause),
                {"program": it["src"], "march": march, "how": how, "tape": it["tape"], "clause": clause, "expected": it["obs"],
                 "ir_state": {x: st.get(x) for x in ("status", "why", "steps")}})

    # ---- Whitespace -----------------------------------------------------------------------------------------
    def whitespace(self, ctx):
        rng = ctx.rng
        gen_len = 7 if self.thorough else 6
        items = []     # {toks, text, inp, cls, r}
        progs = []
        for name, ins in sorted(bfgen.WS_PROBES.items()):
            progs.append(("probe-" + name, bfgen.ws_tokens(ins), None))
        for k in range(300 if self.thorough else 60):
            ins = bfgen.ws_subset_program(rng)
            toks = bfgen.ws_tokens(ins)
            depth, deep = 0, False
            for x in ins:
                depth += {"push": 1, "add": -1, "outchar": -1}.get(x[0], 0)
                deep = deep or (x[0] == "outchar" and depth > 0)
            progs.append(("subset-deep" if deep else "subset", toks, rng if k % 3 == 0 else None))
            if k % 5 == 0 and len(toks) > 4:   # malformed variants: truncated / one token changed
                cut = rng.randrange(1, len(toks))
                progs.append(("truncated", toks[:cut], None))
                j = rng.randrange(len(toks))
                progs.append(("corrupted", toks[:j] + [rng.choice([c for c in (32, 9, 10) if c != toks[j]])] + toks[j + 1:], None))
        cases = [{"toks": t, "inp": [65, 7], "fuel": 300} for _, t, _ in progs]
        gen, file = self.observations(ctx, "WS_Run", WS_RUN_CFG % (gen_len, 300),
                                      "WS.tla: all token sequences of length <= %d + probes, subset programs, malformed variants" % gen_len,
                                      sum(3 ** n for n in range(gen_len + 1)), cases, "wsobs_")
        for r in gen:
            items.append({"toks": r["toks"], "text": bfgen.ws_text(r["toks"]), "cls": "gen", "r": r})
        ctx.cov["ws_token_sequences_enumerated_by_tlc"] = len(items)
        for r, (cls, toks, crng) in zip(file, progs):
            items.append({"toks": toks, "text": bfgen.ws_text(toks, crng), "cls": cls, "r": r})
        stat = {}
        recs = []
        for it in items:
            r = it["r"]
            st = "unspec" if r["unspec"] else ("malformed" if not r["ok"] else r["obs"]["status"])
            stat[st] = stat.get(st, 0) + 1
            prog, got = ws_parse(it["text"])
            t = stl(it["toks"])
            if self.keep(it["cls"] == "gen", "ws", got["exc"]):
                recs.append({"kind": "parse", "toks": it["toks"], "got": got, "cls": it["cls"],
                             "key": "X02:ws:parse:%s:%s:%s" % (it["cls"], got["exc"] or "accepted", t)})
            if r["ok"] and not r["unspec"]:
                if r["obs"]["status"] == "ok" and prog is not None:      # (a parser failure is judged by the parse record)
                    run = ws_run(prog)
                    recs.append({"kind": "run", "toks": it["toks"], "obs": r["obs"], "got": run, "cls": it["cls"],
                                 "key": "X02:ws:run:%s:%s:%s" % (it["cls"], run["exc"] or "text", t)})
                self.nir = getattr(self, "nir", 0) + (0 if it["cls"].startswith("probe") else 1)
                if it["cls"].startswith("probe") or self.nir <= 12:     # (every one is a listed finding today: no IR at all)
                    recs.append({"kind": "ir", "toks": it["toks"], "got": ws_module(it["text"]), "cls": it["cls"],
                                 "key": "X02:ws:ir:%s:%s" % (it["cls"], t)})
        ctx.cov["ws_spec_verdicts"] = stat
        out = {}
        for r in recs:
            ctx.count(r["key"])
            if r["kind"] == "parse":
                k = r["got"]["exc"] or "accepted"
                out[k] = out.get(k, 0) + 1
        ctx.cov["ws_parser_outcomes"] = out

        def what(r, e):
            t = stl(r["toks"])
            if r["kind"] == "parse":
                return "WhitespaceParser on %s -> %s %s; WS.tla: a well-formed program must be parsed into its instructions, any other " \
                       "sequence rejected with a CompilerError" % (t, r["got"]["exc"] or "accepted", [x["cls"] for x in r["got"]["ins"]][:8])
            if r["kind"] == "run":
                return "the front-end's execution of %s wrote %r%s; the WS.tla machine outputs %s" % (
                    t, "".join(map(chr, r["got"]["text"])), " then raised " + r["got"]["exc"] if r["got"]["exc"] else "", r["obs"]["out"])
            return "ws_to_ir(%s) yields no IR module (%s)" % (t, r["got"]["exc"] or "returns None after interpreting the program")

        core.eval_records(ctx, "WS_Eval", EVAL_CFG, recs, keyfn=lambda r: r["key"], whatfn=what, label="ppci.lang.ws vs WS.tla",
                          workers=WORKERS, coverage=False)
        for it in items[-3:]:
            ctx.sample({"tokens": stl(it["toks"]), "class": it["cls"], "WS.tla": {"ok": it["r"]["ok"], "status": it["r"]["obs"]["status"],
                                                                               "out": it["r"]["obs"]["out"]}})
