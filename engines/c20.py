"""C20 — LEB128 encoders/decoders vs. Leb128.tla (idioms M + E).

M: the DWARF appendix-C algorithms as a state machine, model-checked against the declarative
   bit-string definition (Leb128_MC.tla).
E: every recorded call of ppci.utils.leb128 judged by TLC against the definition (Leb128_Eval.tla).
Python only drives the real functions and records what they did.
"""
from harness import core, enc
from harness.tlcclean import clean as _clean
from harness.watchdog import CallTimeout, limited

MC_CFG = """CONSTANT MaxN = %d
CONSTANT MaxLen = %d
CONSTANT ContBytes <- %s
INIT Init
NEXT Next
CHECK_DEADLOCK FALSE
INVARIANT TypeOK
INVARIANT EncLoopInv
INVARIANT DecLoopInv
INVARIANT EncAlgIsDef
INVARIANT EncRoundTrip
INVARIANT EncMinimal
INVARIANT EncClosedForms
INVARIANT DecAlgIsDef
INVARIANT DecUniqueMinimal
INVARIANT DecPrefix
INVARIANT WideOps
"""
EVAL_CFG = """INIT Init
NEXT Next
CHECK_DEADLOCK FALSE
INVARIANT CanonicalEncoding
INVARIANT DecodesToOriginal
INVARIANT DecoderAgrees
"""
MC_ACTIONS = ("EncUMore", "EncULast", "EncSMore", "EncSLast", "GenMore", "GenLast", "DecStep", "DecSign")
BATCH = 60000
# TLC (this version) re-reads the JSON trace once per worker before the search starts; judging a record
# is cheap compared with that, so few workers are faster than 16
EVAL_WORKERS = 4
EXH = {False: 11, True: 16}     # exhaustive range of integers: [-2^EXH, 2^EXH]


class _Stream:
    """Byte source the way ppci's wasm reader presents itself to the decoders: an iterator
    of ints; counts how many bytes were taken."""

    def __init__(self, data):
        self._it = iter(data)
        self.used = 0

    def __iter__(self):
        return self

    def __next__(self):
        b = next(self._it)
        self.used += 1
        return b


def _dec_outcome(fn, data):
    s = _Stream(data)
    try:
        v = limited(lambda: fn(s), 1.0, what=fn.__name__)
    except BaseException as e:  # StopIteration included: the outcome class is the observation
        if isinstance(e, (KeyboardInterrupt, SystemExit, MemoryError)):
            raise
        return {"ok": False, "exc": type(e).__name__}
    if not isinstance(v, int) or isinstance(v, bool):
        return {"ok": False, "exc": "returned:" + type(v).__name__}
    return {"ok": True, "z": enc.zint(v), "used": s.used}


def _enc_outcome(fn, v):
    try:
        out = limited(lambda: fn(v), 1.0, what=fn.__name__)
    except Exception as e:
        # `raised`: the function itself refused the argument (a time-out is not a refusal)
        return {"ok": False, "exc": type(e).__name__, "raised": not isinstance(e, CallTimeout)}
    if not isinstance(out, (bytes, bytearray)):
        return {"ok": False, "exc": "returned:" + type(out).__name__, "raised": False}
    return {"ok": True, "bytes": list(out)}


def integers(ctx):
    """The integers handed to the encoders: exhaustive range, every 7-bit boundary, random big."""
    rng = ctx.rng
    thorough = ctx.tier == "thorough"
    ex = 1 << EXH[ctx.tier == "thorough"]
    vals = set(range(-ex, ex + 1))
    maxk = 200 if thorough else 135
    for k in range(0, maxk + 1):
        p = 1 << k
        for m in (p, p - 1, p + 1, p - 2, p + 2, p >> 1 | p, p + (p >> 1) - 1):
            vals.add(m)
            vals.add(-m)
        if k % 7 in (6, 0, 1):
            # values straddling a group boundary with random low bits
            for _ in range(4 if thorough else 2):
                low = rng.getrandbits(k) if k else 0
                vals.update((p | low, -(p | low), (p - 1) & ~low | 1, -((p - 1) & ~low | 1)))
    for _ in range(3000 if thorough else 400):
        nb = rng.randrange(1, 260 if thorough else 140)
        v = rng.getrandbits(nb) | (1 << (nb - 1))
        vals.add(v if rng.random() < 0.5 else -v)
    if thorough:
        for nb in (400, 512, 700):
            v = rng.getrandbits(nb) | (1 << (nb - 1))
            vals.update((v, -v))
    return sorted(vals, key=lambda x: (abs(x), x))


def byte_streams(ctx, produced):
    """Inputs of the decoders, chosen independently of the encoders' answers: every well-formed
    sequence of <= 2 bytes, sampled longer ones, padded (non-minimal) encodings, each possibly
    followed by further bytes of the stream; plus what the encoders produced."""
    rng = ctx.rng
    thorough = ctx.tier == "thorough"
    seen = set()
    out = []

    def add(bs):
        t = bytes(bs)
        if t not in seen:
            seen.add(t)
            out.append(list(t))

    tails = ([], [0x00], [0x80], [0xFF, 0x7F], [0x7F])
    for b0 in range(128):
        add([b0])
        add([b0] + list(tails[1 + b0 % 4]))
    # two bytes: all of them (quick: every final byte after a boundary-heavy choice of first bytes)
    first = range(128, 256) if thorough else sorted(
        {0x80, 0x81, 0x82, 0xBE, 0xBF, 0xC0, 0xC1, 0xFD, 0xFE, 0xFF} | {rng.randrange(128, 256) for _ in range(6)})
    for b0 in first:
        for b1 in range(128):
            add([b0, b1])
    # three bytes: boundary-heavy grid (thorough: denser)
    grid = sorted({0x80, 0x81, 0xBF, 0xC0, 0xFE, 0xFF} | {rng.randrange(128, 256) for _ in range(12 if thorough else 3)})
    last = sorted({0, 1, 0x3F, 0x40, 0x41, 0x7E, 0x7F} | {rng.randrange(128) for _ in range(10 if thorough else 3)})
    for b0 in grid:
        for b1 in grid:
            for b2 in last:
                add([b0, b1, b2])
    # longer sequences incl. redundant padding 80..00 / ff..7f, and trailing stream bytes
    for _ in range(4000 if thorough else 500):
        n = rng.randrange(3, 24 if thorough else 20)
        body = [rng.choice((0x80, 0xFF, 0xC0, 0xBF, rng.randrange(128, 256))) for _ in range(n - 1)]
        body.append(rng.choice((0, 0x7F, 0x40, 0x3F, 1, rng.randrange(128))))
        add(body + list(rng.choice(tails)))
    for bs in produced:
        add(bs)
        if len(bs) <= 19:
            sign = bs[-1] & 0x40
            pad = rng.randrange(1, 3)
            # the same number with redundant sign-extension groups (valid, not minimal)
            add(bs[:-1] + [bs[-1] | 0x80] + [0xFF if sign else 0x80] * (pad - 1) + [0x7F if sign else 0x00])
    return out


def records(ctx, leb128):
    recs = []
    produced = []
    ints = integers(ctx)
    ex = 1 << EXH[ctx.tier == "thorough"]
    for v in ints:
        zv = enc.zint(v)
        for f, efn, dfn in (("signed_encode", leb128.signed_leb128_encode, leb128.signed_leb128_decode),
                            ("unsigned_encode", leb128.unsigned_leb128_encode, leb128.unsigned_leb128_decode)):
            out = _enc_outcome(efn, v)
            if out["ok"]:
                rt = _dec_outcome(dfn, out["bytes"])
                if abs(v) > ex or abs(v) % 64 in (0, 1, 63):
                    produced.append(out["bytes"])
            else:
                rt = {"ok": False, "exc": "-"}
            recs.append({"f": f, "key": "C20:%s:v=%d" % (f, v), "v": zv, "out": out, "rt": rt})
    for bs in byte_streams(ctx, produced):
        for f, dfn in (("signed_decode", leb128.signed_leb128_decode), ("unsigned_decode", leb128.unsigned_leb128_decode)):
            recs.append({"f": f, "key": "C20:%s:bytes=%s" % (f, bytes(bs).hex()), "bytes": bs,
                         "out": _dec_outcome(dfn, bs)})
    return recs


def _what(r, e):
    if r["f"].endswith("encode"):
        o = r["out"]
        got = bytes(o["bytes"]).hex() if o.get("ok") else o.get("exc")
        if e.name == "DecodesToOriginal":
            rt = r["rt"]
            return "%s: decoding the produced bytes %s gives %s, not the original integer" % (
                r["key"], got, enc.unzint(rt["z"]) if rt.get("ok") else rt.get("exc"))
        return "%s produced %s, not the canonical LEB128 encoding" % (r["key"], got)
    o = r["out"]
    got = "%d (%d bytes consumed)" % (enc.unzint(o["z"]), o["used"]) if o.get("ok") else o.get("exc")
    return "%s returned %s, not the value the encoding denotes" % (r["key"], got)


class Engine:
    LEVEL = "model_checking"

    def run(self, ctx):
        thorough = ctx.tier == "thorough"
        ctx.rule("M: DWARF appendix-C encode/decode algorithms as a TLA+ state machine vs. the declarative bit-string "
                 "definition: every integer |n|<=MaxN, every well-formed byte sequence of <=MaxLen bytes (loop "
                 "invariants, algorithm=definition, decode(encode)=id, unique minimal encoding by brute force). "
                 "E: every recorded call of signed/unsigned_leb128_encode (all integers in [-2^11,2^11] quick / "
                 "[-2^16,2^16] thorough, +-2^k, +-(2^k-1), +-(2^k+1), ... for every k<=135 (200), seeded random big "
                 "integers; negative arguments of the unsigned encoder must be rejected; the matching decoder is run "
                 "on the produced bytes) and of signed/unsigned_leb128_decode (every well-formed 1-byte and (thorough: every) 2-byte "
                 "sequence, grids of 3-byte and random longer sequences, non-minimal padded encodings, trailing "
                 "stream bytes: value and number of bytes consumed) judged in TLC; distinct = distinct (function, "
                 "argument)")
        ctx.assume("Python-side encoding of integers into sign+magnitude bit strings (harness/enc.py) is correct")
        ctx.assume("decoders are driven through an iterator of ints (the interface ppci.wasm's reader offers); "
                   "truncated streams (no final byte) are outside the property and only counted")
        if ctx.only is None:
            runs = [(1 << 16, 2, "AllCont"), (0, 4, "BoundaryCont")] if thorough else [(1 << 10, 2, "AllCont")]
            for k, cfg in enumerate(runs):
                res = ctx.tlc("Leb128_MC", MC_CFG % cfg, label="laws-%d" % k)
                _clean(res, "Leb128_MC")
                for e in res.errors:
                    raise core.tlcmod.MachineryError("Leb128 law fails in the specification itself: %s" % e)
            missing = [a for a in MC_ACTIONS if not ctx.cov["actions"].get("Leb128_MC." + a)]
            if missing:
                raise core.tlcmod.MachineryError("Leb128_MC: actions never taken: %s" % missing)
        try:
            from ppci.utils import leb128
            for name in ("signed_leb128_encode", "unsigned_leb128_encode", "signed_leb128_decode", "unsigned_leb128_decode"):
                getattr(leb128, name)
        except Exception as e:  # a changed tree may not even import: that is a failure of the property
            ctx.violation("C20:import", "ppci.utils.leb128 cannot be used: %s: %s" % (type(e).__name__, e))
            return
        recs = records(ctx, leb128)
        if ctx.only is not None:
            recs = [r for r in recs if r["key"] == ctx.only["key"]]
        for r in recs:
            ctx.count(r["key"])
        for r in recs[:: max(1, len(recs) // 4)]:
            ctx.sample({k: r[k] for k in ("key", "out")})
        for n, part in enumerate(core.chunks(recs, BATCH)):
            res = core.eval_records(ctx, "Leb128_Eval", EVAL_CFG, part, keyfn=lambda r: r["key"], whatfn=_what,
                                    label="calls-%d" % n, workers=EVAL_WORKERS)
            _clean(res, "Leb128_Eval", expect_states=len(part) + 65)
