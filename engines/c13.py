"""C13 — linker relaxation preserves program behaviour.

Deciding method: TLA+ specifications tla/Relax.tla (do_relaxations / _apply_relaxation_holes as one action
RelaxWith(K, addrs, ord) over the object state of tla/Linker.tla, the clauses of the property as invariants),
tla/RV32.tla (what the relocated instructions are) and tla/RV32_Run.tla (what the linked image computes) + TLC.
  M  Relax_MC     universes of link jobs (tla/Relax_MCJobs.tla: real RV32 encodings of j / jal ra / jal x5 / jal (not
                  relaxable) / fillers; a target and a probe symbol at, inside and after every instruction; one or two
                  objects; none / one / two images) linked by Linker.tla's phases with the relaxation phase
                    "legal"  every choice the property allows          -> all clauses must hold
                    "fixed"  the repaired algorithm proposed with C13    -> all clauses must hold
                    "ppci"   the faithful transcription of ppci's choice -> TLC's counterexamples are the design-level
                             findings (alignment of sections behind a relaxed one, `jal rd` with rd /= ra turned into
                             c.jal, a jump whose distance grows out of the short range); each is confirmed on the real
                             linker by T
  T  Relax_Trace  links of riscv:rvc objects by the real ppci linker, recorded phase by phase (harness/objgen.py
                  link_recorder): generated instruction sequences with the relaxable classes CB / CBl and jal / beq /
                  c.j / c.beqz at many distances (fillers, several sections, one / several / no memory images, two
                  objects merged into one section, labels exactly at the hole boundaries, data words referring to
                  shifted labels), executable assembly programs and compiled IR programs; TLC reads the parameters of
                  the relaxation off the observed object, re-computes the object with Relax.tla, demands equality,
                  checks every clause, and decodes every patched control transfer with RV32.tla
  B  RV32_Run     the relaxed image and the image of the same objects linked with do_relaxations switched off are
                  executed by RV32.tla from the entry function under ppci's calling convention; ImagesAgree
"""
import io
import logging
import random
import re

from engines import c12
from harness import core, objgen, rvlink
from harness import tlc as tlcmod

P = "C13"
MARCH = "riscv:rvc"
MC_JOBS = "---- MODULE LinkerJobs ----\nEXTENDS Relax_MCJobs\nJobs == MCJobs\n====\n"
CLAUSES = ("SymbolsKeepTarget", "RelocsKeepSite", "ContentKept", "OrderKept", "ShiftConsistent", "StaysInRange",
           "LinkRegisterKept", "OnlyRelaxable")
LINKER_CLAUSES = ("Placement", "NoOverlap", "Inside")
SITUATIONS = ("nothing-shrinks", "one-shrinks", "several-shrink", "candidate-kept-long", "two-holes-in-a-section",
              "symbol-on-shrunk-insn", "symbol-at-hole-start", "symbol-inside-hole", "symbol-right-after-hole",
              "symbol-at-section-end", "relocation-after-hole", "reference-from-other-section", "merged-input-after-hole",
              "no-layout", "two-images", "section-behind-shrunk-section", "target-in-other-section",
              "jal-with-other-link-register")
# the design-level findings the faithful transcription is expected to show (anything else is reported)
DESIGN_FINDINGS = {
    "Placement": "a section placed behind a relaxed section keeps `address -= delta` although delta is not a multiple "
                 "of its alignment",
    "LinkRegisterKept": "`jal rd, sym` (cbl_imm11) with rd /= ra is shrunk to c.jal, which links through ra",
    "StaysInRange": "candidates are chosen with pre-relaxation addresses; a jump into another image / section can get "
                    "longer and leave the range of the short form",
}
REL_SIZES = dict(c12.REL_SIZES, cb_imm11=4, cbl_imm11=4, bc_imm11=2, bc_imm8=2)


def tla_set(xs):
    return "{" + ", ".join(('"%s"' % x) if isinstance(x, str) else str(x) for x in xs) + "}"


def mc_cfg(design, items, lens, seconds, lays, invariants, full=False, announce=True, orders=("append", "inplace")):
    out = ["CONSTANTS", " ShortBits = 5", " LongBits = 8", ' Design = "%s"' % design, " Orders = %s" % tla_set(orders),
           " Announce = %s" % ("TRUE" if announce else "FALSE"), " Items = %s" % tla_set(items),
           " CodeLens = %s" % tla_set(lens), " Seconds = %s" % tla_set(seconds), " LayoutIds = %s" % tla_set(lays),
           " FullProduct = %s" % ("TRUE" if full else "FALSE"), "INIT MCInit", "NEXT MCNext", "CHECK_DEADLOCK TRUE"]
    out += ["INVARIANT %s" % i for i in invariants]
    return "\n".join(out) + "\n"


def trace_cfg(nchunks=16):
    out = ["CONSTANTS", " CheckValues = FALSE", " NChunks = %d" % nchunks, " ShortBits = 12", " LongBits = 21",
           "ALIAS Shown", "INIT RInit", "NEXT RNext", "CHECK_DEADLOCK FALSE", "INVARIANT NotRejected", "INVARIANT DomainR"]
    out += ["INVARIANT R_%s" % i for i in LINKER_CLAUSES] + ["INVARIANT I_%s" % i for i in CLAUSES + ("AsTranscribed",)]
    return "\n".join(out) + "\n"


def situations_of(raw):
    out = {}
    for m in re.finditer(r'<<\s*"sit",\s*"\w+",\s*\{(.*?)\}\s*>>', raw, re.S):
        for x in m.group(1).split(","):
            x = x.strip().strip('"')
            if x:
                out[x] = out.get(x, 0) + 1
    return out


# ---------------------------------------------------------------------------------------------------
# M
# ---------------------------------------------------------------------------------------------------
def model_check(ctx):
    """idiom M.  "legal" (which contains the repaired choice: invariant FixedIsLegal) must satisfy every clause; the run
    of ppci's own choice lists the clauses it violates per job (no TLC error: error traces cost a second each)."""
    thorough = ctx.tier == "thorough"
    inv = list(CLAUSES) + ["Placement", "NoOverlap", "Inside", "RelocsResolve", "InDomain", "FixedIsLegal"]
    A = ("append",)
    if thorough:
        runs = [("legal", ("Jt", "Lt", "Xt", "N", "Jf"), (1, 2, 3), ("none", "jump"), (2, 3), False, A),
                ("legal", ("Jt", "Lt", "Zt", "Rt", "Xt", "N"), (1, 2), ("none", "jump"), (1, 2, 3, 4), False, A),
                ("legal", ("Jt", "Xt", "N", "Jf"), (2, 3), ("none", "nop"), (1, 4), False, ("append", "inplace")),
                ("legal", ("Jt", "Xt", "N"), (2,), ("none",), (2, 3), True, A),
                ("fixed", ("Jt", "Lt", "Xt", "Zt", "Rt", "N", "Jf", "Bt", "W"), (1, 2), ("none", "jump"), (1, 2, 3, 4), False, A),
                ("fixed", ("Jt", "Xt", "N", "Jf"), (3,), ("none", "jump"), (1, 2, 3, 4), False, A),
                ("ppci", ("Jt", "Lt", "Xt", "Zt", "Rt", "N", "Jf", "Bt"), (1, 2), ("none", "jump"), (1, 2, 3, 4), False, A),
                ("ppci", ("Jt", "Xt", "N", "Jf"), (3,), ("none", "jump"), (1, 2, 3, 4), False, A)]
    else:
        runs = [("legal", ("Jt", "Lt", "Zt", "Rt", "N", "Jf"), (2,), ("none",), (2, 3), False, A),
                ("ppci", ("Jt", "Xt", "Zt", "Rt", "Jf"), (2,), ("jump",), (1, 2, 3), False, A)]
    covered = {}
    cex = {}
    for design, items, lens, seconds, lays, full, orders in runs:
        res = ctx.tlc("Relax_MC", mc_cfg(design, items, lens, seconds, lays, inv if design != "ppci" else ["InDomain"], full=full,
                                         orders=orders),
                      label="M: %s relaxations" % design, workers=8, extra_modules={"LinkerJobs": MC_JOBS}, timeout=3000,
                      coverage=False)
        for e in res.errors:
            raise tlcmod.MachineryError("Relax.tla: clause %s fails for the %s design (fault of the specification): %s\n%s" % (
                e.name, design, e, e.text[:2500]))
        for k, v in situations_of(res.raw).items():
            covered[k] = covered.get(k, 0) + v
        if design == "ppci":
            njobs = 0
            for m in re.finditer(r'<<\s*"cex",\s*(\d+),\s*\{(.*?)\}\s*>>', res.raw, re.S):
                njobs += 1
                for x in m.group(2).split(","):
                    x = x.strip().strip('"')
                    if x:
                        c = cex.setdefault(x, {"jobs": 0, "first_job": int(m.group(1))})
                        c["jobs"] += 1
                        c["first_job"] = min(c["first_job"], int(m.group(1)))
            ctx.cov["m_ppci_jobs"] = ctx.cov.get("m_ppci_jobs", 0) + njobs
    ctx.cov["m_situations_covered"] = {k: covered.get(k, 0) for k in SITUATIONS}
    missing = [k for k in SITUATIONS if not covered.get(k)]
    if missing:
        raise tlcmod.MachineryError("M universes do not reach the situations %s" % missing)
    ctx.cov["m_design_counterexamples"] = cex
    for name, c in sorted(cex.items()):
        print("DESIGN-FINDING property=C13 clause=%s: the transcription of do_relaxations violates it in %d of %d explored "
              "jobs, first Relax_MCJobs job %d (%s)" % (name, c["jobs"], ctx.cov.get("m_ppci_jobs", 0), c["first_job"],
                                                        DESIGN_FINDINGS.get(name, "NOT A LISTED FINDING")))
    return cex


# ---------------------------------------------------------------------------------------------------
# generators
# ---------------------------------------------------------------------------------------------------
RELAXABLE = ("cb_imm11", "cbl_imm11")
NEAR = {"beq": 3000, "cj": 1800, "cbeqz": 200}       # generator's aim only: keep the short-range kinds near


def slot_lines(kind, target):
    if kind == "cb":
        return [rvlink.cb(target)]
    if kind == "cbl":
        return [rvlink.cbl(1, target)]
    if kind == "cblx":
        return [rvlink.cbl(5, target)]
    if kind.startswith("jal:"):          # jal:<relocation type>:<rd>  every (rd, relaxable relocation type) pair
        _, rtype, rd = kind.split(":")
        return [rvlink.jal(int(rd), target, rtype)]
    if kind == "jal":
        return ["jal x5, %s" % target]
    if kind == "beq":
        return ["beq x5, x6, %s" % target]
    if kind == "cj":
        return ["c.j %s" % target]
    if kind == "cbeqz":
        return ["c.beqz x9, %s" % target]
    return []


def gen_struct_plan(rng):
    """abstract plan: objects -> sections -> slots (label, kind, target, filler)"""
    nobj = rng.choice([1, 1, 2])
    secnames = rng.choice([["code"], ["code"], ["code", "code2"], ["code", "code2"]])
    labels = []     # (name, obj, sec, slot index)
    plan = []
    n = 0
    for o in range(nobj):
        secs = {}
        for sn in (secnames if o == 0 else rng.sample(secnames, rng.choice([1, len(secnames)]))):
            slots = []
            for k in range(rng.choice([2, 3, 4, 5, 6])):
                n += 1
                name = "L%d" % n
                labels.append((name, o, sn, k))
                kind = rng.choice(["cb", "cb", "cb", "cbl", "cbl", "jal", "beq", "cj", "cbeqz", "fill", "fill"])
                slots.append({"label": name, "kind": kind, "target": None, "fill": rng.choice([0, 0, 0, 2, 4, 4, 6, 8, 12])})
            secs[sn] = slots
        plan.append(secs)
    if rng.random() < 0.07:
        o = rng.randrange(nobj)
        slots = plan[o][rng.choice(sorted(plan[o]))]
        slots[rng.randrange(len(slots))]["kind"] = "cblx"
    # 32-bit jal with rd in {x0, ra, x5, x7} under each of the two relaxable relocation types (only (x0, cb_imm11) and
    # (ra, cbl_imm11) may shrink); targets near and - through the layout / big fillers - far
    for _ in range(rng.choice([0, 1, 1, 2, 3])):
        o = rng.randrange(nobj)
        slots = plan[o][rng.choice(sorted(plan[o]))]
        slots[rng.randrange(len(slots))]["kind"] = "jal:%s:%d" % (rng.choice(["cb_imm11", "cbl_imm11"]), rng.choice([0, 1, 5, 7]))
    big = rng.random() < 0.15
    if big:
        o = rng.randrange(nobj)
        sn = rng.choice(sorted(plan[o]))
        slots = plan[o][sn]
        slots[rng.randrange(len(slots))]["fill"] = rng.choice([2030, 2036, 2038, 2040, 2042, 2044, 2046, 2048, 2050, 2052])
    for o, secs in enumerate(plan):
        for sn, slots in secs.items():
            for k, s in enumerate(slots):
                if s["kind"] == "fill":
                    continue
                if s["kind"] in NEAR:
                    # a neighbour in the same section of the same object, with small fillers in between
                    cands = [j for j in (k - 1, k + 1, k + 2, k - 2) if 0 <= j < len(slots)]
                    cands = [j for j in cands if sum(slots[i]["fill"] for i in range(min(j, k), max(j, k))) < NEAR[s["kind"]] // 2]
                    if not cands:
                        s["kind"] = "cb"
                    else:
                        s["target"] = slots[rng.choice(cands)]["label"]
                        continue
                s["target"] = rng.choice(labels)[0]
    ndata = rng.choice([0, 1, 2, 3])
    data = [rng.choice(labels)[0] for _ in range(ndata)]
    return {"plan": plan, "labels": labels, "data": data, "secnames": secnames + (["data"] if data else [])}


def plan_scripts(p):
    scripts = []
    for o, secs in enumerate(p["plan"]):
        defined = {n for n, oo, _, _ in p["labels"] if oo == o}
        used = {s["target"] for slots in secs.values() for s in slots if s["target"]}
        if o == 0:
            used |= set(p["data"])
        lines = ["global %s" % n for n in sorted(defined | used)]
        for sn, slots in secs.items():
            lines.append("section %s" % sn)
            for s in slots:
                lines.append("%s:" % s["label"])
                lines += slot_lines(s["kind"], s["target"])
                if s["fill"]:
                    lines.append("ds %d" % s["fill"])
        if o == 0 and p["data"]:
            lines.append("section data")
            for k, n in enumerate(p["data"]):
                lines.append("d%d:" % k)
                lines.append("dcd =%s" % n)
        scripts.append(lines)
    return scripts


def merged_offsets(objects):
    """offsets of symbols and relocation sites in the merged sections (a link without layout and without
    relaxation): the generator's aim only"""
    from ppci.api import link

    with rvlink.relaxation(False):
        o = link(objects, partial_link=True)
    syms = {y.name: (y.section, y.value) for y in o.symbols if y.value is not None}
    sizes = {s.name: len(s.data) for s in o.sections}
    rels = [(r.reloc_type, r.section, r.offset, o.symbols[r.symbol_id].name if r.symbol_id < len(o.symbols) else "") for r in o.relocations]
    return syms, sizes, rels


def mem(name, loc, size, secs):
    return {"name": name, "loc": loc, "size": size, "ins": [{"k": "section", "name": s, "al": 0} for s in secs]}


def gen_layout(rng, p, objects):
    """one / split / mixed / none; split and mixed aim some cross-section displacement at the short-range boundary"""
    syms, sizes, rels = merged_offsets(objects)
    secs = [s for s in p["secnames"] if s in sizes]
    mode = rng.choice(["one", "one", "split", "split", "mixed", "none"]) if len(secs) > 1 else rng.choice(["one", "one", "none"])
    room = lambda group: sum(sizes[s] for s in group) + 0x40
    if mode == "none":
        return objgen.NO_LAYOUT, mode
    relsecs = {sec for t, sec, _, _ in rels if t in RELAXABLE}
    calm = rng.random() < 0.8       # mostly: nothing is placed behind a section that can shrink (a listed defect class)
    if mode == "one":
        order = list(secs)
        rng.shuffle(order)
        if calm:
            order.sort(key=lambda s: s in relsecs)
        ins = mem("m", rng.choice([0x1000, 0x100, 0x20000]), room(order) + 0x100, order)
        if rng.random() < 0.4:
            ins["ins"].insert(rng.randrange(1, len(ins["ins"]) + 1), {"k": "symbol", "name": "_mark", "al": 0})
        if rng.random() < 0.25 and len(order) > 1:
            ins["ins"].insert(1, {"k": "align", "name": "", "al": rng.choice([8, 16])})
            ins["size"] += 16
        return {"on": True, "entry": "", "mems": [ins]}, mode
    groups = [[s] for s in secs]
    if mode == "mixed":
        rng.shuffle(groups)
        groups = [sorted(groups[0] + groups[1], key=lambda s: calm and s in relsecs)] + groups[2:]
    # addresses: the first group at a base, the others placed so that one cross-group jump has a chosen displacement
    base = 0x10000
    at = {0: base}
    cross = [(t, sec, off, syms[sym]) for t, sec, off, sym in rels if t in RELAXABLE and sym in syms and syms[sym][0] != sec]
    nxt = base
    for gi, g in enumerate(groups):
        if gi == 0:
            nxt = base + ((room(g) + 0x3f) & ~0x3f)
            continue
        loc = None
        aim = [c for c in cross if c[1] in groups[0] and c[3][0] == g[0]]
        if aim and rng.random() < 0.35:
            t, sec, off, (tsec, tval) = rng.choice(aim)
            goff = sum(sizes[s] + 3 & ~3 for s in groups[0][:groups[0].index(sec)])
            d = rng.choice([2046, 2044, 2048, 2050, 2040, 1000, 2046, 2046])
            loc = base + goff + off + d - tval
            loc -= loc % 4
            if loc < nxt:
                loc = None
        if loc is None:
            loc = nxt + rng.choice([0, 0x40, 0x400, 0x7c0, 0x800, 0x3000])
        at[gi] = loc
        nxt = loc + ((room(g) + 0x3f) & ~0x3f)
    mems = [mem("m%d" % gi, at[gi], room(g) + 0x80, g) for gi, g in enumerate(groups)]
    if rng.random() < 0.5:
        mems.reverse()
    return {"on": True, "entry": "", "mems": mems}, mode


def job_tags(objects, lay):
    """which of the listed defect classes a job can touch at all (generator's knowledge, part of the violation key)"""
    tags = set()
    relsecs, xsect = set(), False
    for o in objects:
        defs = {y.id: y.section for y in o.symbols}
        names = {y.id: y.name for y in o.symbols}
        for r in o.relocations:
            if r.reloc_type in RELAXABLE:
                relsecs.add(r.section)
                if defs.get(r.symbol_id) != r.section:
                    xsect = True
                sec = o.get_section(r.section)
                word = int.from_bytes(bytes(sec.data[r.offset:r.offset + 4]), "little")
                rd = (word >> 7) & 31
                if rd != (1 if r.reloc_type == "cbl_imm11" else 0):
                    tags.add("rdreg")
    if xsect:
        tags.add("xsect")
    for m in lay["mems"]:
        seen = False
        for i in m["ins"]:
            if i["k"] == "section":
                if seen:
                    tags.add("align")
                if i["name"] in relsecs:
                    seen = True
    return "{%s}" % "+".join(sorted(tags))


def struct_job(ctx, k):
    rng = random.Random("%s:c13:struct:%d" % (ctx.seed, k))
    p = gen_struct_plan(rng)
    scripts = plan_scripts(p)
    try:
        objects = [rvlink.build_object(MARCH, s) for s in scripts]
        lay, mode = gen_layout(rng, p, objects)
    except Exception as e:       # the assembler refuses the text: not a link job
        return None
    return {"id": "asm-%d" % k, "arch": MARCH, "objects": objects, "lay": lay, "opt": {"partial": False, "entry": "", "extra": []},
            "via_text": False, "ctl": set(), "src": "\n".join("; object %d\n" % i + "\n".join(str(x) if isinstance(x, str) else "<%s>" % x.__qualname__
                                                                                          for x in s) for i, s in enumerate(scripts)),
            "mode": mode}


# --- executable assembly programs -----------------------------------------------------------------
OPS = ["addi x10, x10, %d", "xori x10, x10, %d", "slli x10, x10, 1", "add x10, x10, x12", "sub x10, x10, x13",
       "xor x10, x10, x13", "andi x10, x10, %d", "ori x10, x10, %d", "srli x10, x10, 1"]


def gen_exec_script(rng):
    """main(x12, x13) -> x10: blocks of arithmetic joined by forward jumps (a skipped block changes the result), calls of
    leaf functions through ra (CBl ra) and, rarely, through x5 (CBl x5 with a callee that returns through x5), a global
    word read and written.  Every jump is forward, so the program terminates."""
    nb = rng.choice([3, 4, 5, 6])
    nf = rng.choice([1, 2, 3])
    x5call = rng.random() < 0.12
    lines = ["global main", "global g", "section code", "main:", "addi x6, x1, 0", "add x10, x12, x13"]

    def op():
        t = rng.choice(OPS)
        return t % rng.choice([1, 3, 5, 7, 12, 100, 255]) if "%d" in t else t

    for b in range(nb):
        lines.append("B%d:" % b)
        for _ in range(rng.choice([1, 2, 3])):
            lines.append(op())
        c = rng.random()
        if c < 0.35:
            lines.append(rvlink.cbl(1, "f%d" % rng.randrange(nf)))
        elif c < 0.45 and x5call:
            lines.append(rvlink.cbl(5, "fx"))
        if rng.random() < 0.5 and b + 1 < nb:
            tgt = rng.randrange(b + 1, nb + 1)
            if rng.random() < 0.3:
                lines.append("beq x12, x0, B%d" % tgt if tgt < nb else "beq x12, x0, Bend")
            else:
                lines.append(rvlink.cb("B%d" % tgt if tgt < nb else "Bend"))
        if rng.random() < 0.25:
            lines.append("addi x0, x0, 0")
    lines += ["Bend:", "la x7, g", "lw x5, 0(x7)", "add x10, x10, x5", "sw x10, 0(x7)", "addi x1, x6, 0", "jalr x0, x1, 0"]
    for f in range(nf):
        lines += ["f%d:" % f, op(), op(), "jalr x0, x1, 0"]
    if x5call:
        lines += ["fx:", op(), "jalr x0, x5, 0"]
    lines += ["section data", "g:", "dd %d" % rng.randrange(1 << 31)]
    return lines


def exec_job(ctx, k):
    rng = random.Random("%s:c13:exec:%d" % (ctx.seed, k))
    script = gen_exec_script(rng)
    try:
        objects = [rvlink.build_object(MARCH, script)]
    except Exception:
        return None
    lay = {"on": True, "entry": "", "mems": [mem("flash", rvlink.CODE_AT, 0x2000, ["code"]), mem("ram", rvlink.DATA_AT, 0x1000, ["data"])]}
    vecs = [[rng.choice([0, 1, 5, -3, 77]), rng.randrange(-50, 50)] for _ in range(2)]
    vecs[0][0] = 0          # beq x12, x0 taken in the first call
    return {"id": "exec-%d" % k, "arch": MARCH, "objects": objects, "lay": lay, "opt": {"partial": False, "entry": "", "extra": []},
            "via_text": False, "ctl": set(), "mode": "split",
            "src": "\n".join(str(x) if isinstance(x, str) else "<%s>" % x.__qualname__ for x in script),
            "run": {"entry": "main", "globals": [("g", 4)], "calls": [{"regs": [[12, rvlink.limbs(a)], [13, rvlink.limbs(b)]], "stk": []}
                                                                      for a, b in vecs], "vecs": vecs}}


# --- directed jobs: one per listed defect class and per situation the independent reviewers asked for -----
def directed_jobs():
    none = {"partial": False, "entry": "", "extra": []}
    split = {"on": True, "entry": "", "mems": [mem("flash", rvlink.CODE_AT, 0x2000, ["code"]), mem("ram", rvlink.DATA_AT, 0x1000, ["data"])]}
    out = []

    def job(jid, scripts, lay, run=None, mode="split"):
        objects = [rvlink.build_object(MARCH, s) for s in scripts]
        j = {"id": jid, "arch": MARCH, "objects": objects, "lay": lay, "opt": none, "via_text": False, "ctl": set(), "mode": mode,
             "src": "\n".join("; object %d\n" % i + "\n".join(x if isinstance(x, str) else "<%s>" % x.__qualname__ for x in s)
                               for i, s in enumerate(scripts))}
        if run:
            j["run"] = run
        out.append(j)

    def calls(vecs):
        return {"entry": "main", "globals": [("g", 4)], "vecs": vecs,
                "calls": [{"regs": [[12, rvlink.limbs(a)], [13, rvlink.limbs(b)]], "stk": []} for a, b in vecs]}

    # references to symbols behind shrunk jumps: from a data section in another memory (absolute words), from the same
    # section (c.j, beq, jal, lui/addi via la), and from a second object merged behind the first
    prog = ["global main", "global g", "global tail", "section code", "main:", "addi x6, x1, 0", "add x10, x12, x13",
            rvlink.cbl(1, "f1"), rvlink.cb("L1"), "addi x10, x10, 64", "L1:", "beq x12, x0, L2", rvlink.cbl(1, "f2"), "L2:",
            rvlink.cb("L3"), "addi x10, x10, 32", "L3:", "la x7, tab", "lw x5, 4(x7)", "addi x1, x6, 0", "jalr x0, x5, 0",
            "f1:", "addi x10, x10, 3", "jalr x0, x1, 0", "f2:", "slli x10, x10, 1", "jalr x0, x1, 0",
            "section data", "g:", "dd 7", "tab:", "dcd =f1", "dcd =tail"]
    tail = ["global tail", "global g", "section code", "tail:", "la x7, g", "lw x5, 0(x7)", "add x10, x10, x5", "sw x10, 0(x7)",
            "jalr x0, x1, 0"]
    job("d-refs-behind-holes", [prog, tail], split, calls([[0, 5], [9, -4]]))
    # data behind code in one memory (the usual flat image): alignment of the section that follows
    flat = {"on": True, "entry": "", "mems": [mem("flash", rvlink.CODE_AT, 0x2000, ["code", "data"])]}
    job("d-flat-image", [prog, tail], flat, calls([[3, 4]]), mode="one")
    # jal x5 (CBl with rd /= ra): the callee returns through x5
    x5 = ["global main", "global g", "section code", "main:", "addi x6, x1, 0", "add x10, x12, x13", rvlink.cbl(5, "fx"),
          "addi x10, x10, 1", "la x7, g", "sw x10, 0(x7)", "addi x1, x6, 0", "jalr x0, x1, 0", "fx:", "slli x10, x10, 2",
          "jalr x0, x5, 0", "section data", "g:", "dd 0"]
    job("d-jal-x5", [x5], split, calls([[2, 3]]))
    # every (rd, relocation type) pair of the 32-bit jal, executed: calls that link through ra / x5 / x7 (the callee
    # returns through that register) and jumps (x0) inside a leaf function whose ra is live - a site shrunk to the wrong
    # compressed form (c.jal clobbers ra, c.j does not link) changes where the callee returns to.  near: all in 2 KiB;
    # far: callees and jump targets behind a 2100-byte filler
    for dist in ("near", "far"):
        far = dist == "far"
        m = ["global main", "global g", "section code", "main:", "addi x6, x1, 0", "add x10, x12, x13"]
        k = 0
        for rtype in ("cbl_imm11", "cb_imm11"):
            for rd in (1, 5, 7):
                k += 1
                m += [rvlink.jal(rd, "c%d" % rd, rtype), "addi x10, x10, %d" % k]
            k += 1
            m += [rvlink.jal(1, "leaf_%s" % rtype[:3], "cbl_imm11"), "xori x10, x10, %d" % (k * 16)]
        # main goes on behind the callees' filler and comes back (jal x0 under either type, forwards and backwards)
        m += [rvlink.jal(0, "cont_a", "cbl_imm11"), "cont_b:", "la x7, g", "sw x10, 0(x7)", "addi x1, x6, 0", "jalr x0, x1, 0"]
        if far:
            m += ["ds 2100"]
        m += ["cont_a:", "addi x10, x10, 3", rvlink.jal(0, "cont_b", "cb_imm11")]
        for rd in (1, 5, 7):
            m += ["c%d:" % rd, "slli x10, x10, 1", "addi x10, x10, %d" % rd, "jalr x0, x%d, 0" % rd]
        for rtype in ("cbl_imm11", "cb_imm11"):
            t = rtype[:3]
            # a leaf that jumps (jal x0 under this relocation type) over an instruction while its return address is in ra
            m += ["leaf_%s:" % t, "addi x10, x10, 5", rvlink.jal(0, "over_%s" % t, rtype), "addi x10, x10, 64",
                  "over_%s:" % t, "addi x10, x10, 9", "jalr x0, x1, 0"]
        m += ["section data", "g:", "dd 0"]
        job("d-jal-rd-matrix-" + dist, [m], split, calls([[2, 3], [-7, 100]]))
    # a jump into another memory at the edge of the short range, behind a jump that shrinks: its distance grows
    grow = ["global far", "section code", "a:", rvlink.cb("b"), "b:", rvlink.cb("far"), "ds 4", "section code2", "ds 2", "far:", "ds 4"]
    lay = {"on": True, "entry": "", "mems": [mem("m0", 0x1000, 0x100, ["code"]), mem("m1", 0x1000 + 4 + 2046 - 2, 0x100, ["code2"])]}
    job("d-grows-out-of-range", [grow], lay)
    # ... and at a safe distance (both shrink, the cross-memory one stays in range)
    lay2 = {"on": True, "entry": "", "mems": [mem("m0", 0x1000, 0x100, ["code"]), mem("m1", 0x1000 + 0x400, 0x100, ["code2"])]}
    job("d-cross-memory", [grow], lay2)
    # the edges of the short range inside one section: +2046 / -2048 shrink, +2048 / -2050 must stay long
    fwd = lambda n: [rvlink.cb("t%d" % n), "ds %d" % (n - 4), "t%d:" % n, "ds 2"]
    bwd = lambda n: ["u%d:" % n, "ds %d" % n, rvlink.cb("u%d" % n), "ds 2"]
    edges = ["section code"] + fwd(2046) + ["section code2"] + fwd(2048) + ["section code3"] + bwd(2048) + ["section code4"] + bwd(2050)
    lay3 = {"on": True, "entry": "", "mems": [mem("m%d" % k, 0x10000 * (k + 1), 0x1000, [n])
                                               for k, n in enumerate(["code", "code2", "code3", "code4"])]}
    job("d-short-range-edges", [edges], lay3)
    return out


# --- compiled programs ---------------------------------------------------------------------------
def compiled_job(ctx, k, one_memory):
    """an IR module from harness/irgen.py (types of at most 32 bits) compiled for riscv:rvc"""
    from harness import irgen, project_ir
    from ppci import api

    from engines.c02 import int_vectors

    seed = random.Random("%s:c13:ir:%d" % (ctx.seed, k)).randrange(1 << 30)
    try:
        m, info = irgen.gen_module(random.Random(seed), types=["i8", "u8", "i16", "u16", "i32", "u32"])
        if info["externs"]:
            return None
        pm = project_ir.project_module(m, 4)
        obj = api.ir_to_object([m], rvlink.arch_of(MARCH))
    except Exception:
        return None
    if one_memory:
        lay = {"on": True, "entry": "", "mems": [mem("flash", rvlink.CODE_AT, 0x8000, ["code", "data"])]}
    else:
        lay = {"on": True, "entry": "", "mems": [mem("flash", rvlink.CODE_AT, 0x6000, ["code"]), mem("ram", rvlink.DATA_AT, 0x4000, ["data"])]}
    prng = random.Random(seed ^ 0x5EED)
    vecs = int_vectors(info["params"], prng, 2)
    globs = [(g["name"], g["size"]) for g in pm["globals"] if g["k"] == "var"]
    return {"id": "ir%d%s" % (seed, "-1mem" if one_memory else ""), "arch": MARCH, "objects": [obj], "lay": lay,
            "opt": {"partial": False, "entry": "", "extra": []}, "via_text": False, "ctl": set(), "mode": "one" if one_memory else "split",
            "src": "harness/irgen.py gen_module(random.Random(%d), types<=32 bit) compiled by api.ir_to_object for riscv:rvc" % seed,
            "run": {"entry": info["main"], "globals": globs, "vecs": vecs,
                    "calls": [rvlink.call_record(MARCH, info["params"], v) for v in vecs]}}


# ---------------------------------------------------------------------------------------------------
def compact_relocs(events):
    """lossless re-encoding of the recorder's reloc events: the section bytes before / after each _do_relocation as
    differences (bdiff: before vs the bytes last seen, adiff: after vs before).  A compiled program has ~30 relocations
    in a 300-byte section; the full copies are 90 % of the trace and TLC re-reads the file once per worker."""
    cur = {}
    for ev in events:
        if ev["ev"] in ("relax", "layout") and ev.get("state"):
            cur = {s["name"]: s["data"] for s in ev["state"]["sections"]}
        elif ev["ev"] == "reloc":
            before, after = ev.pop("before"), ev.pop("after")
            base = cur.get(ev["sec"])
            if base is None or len(before) != len(base) or len(after) != len(base):
                ev.update(malformed=True, bdiff=[], adiff=[])
                continue
            ev["malformed"] = False
            ev["bdiff"] = [[i + 1, b] for i, (a, b) in enumerate(zip(base, before)) if a != b]
            ev["adiff"] = [[i + 1, b] for i, (a, b) in enumerate(zip(before, after)) if a != b]
            cur[ev["sec"]] = after
    return events


def run_trace(job):
    """link under the recorder; a job whose objects the recorder cannot project is a harness fault"""
    tr, out, objs = objgen.run_job(job, lambda t: REL_SIZES.get(t, 0), job["id"])
    compact_relocs(tr["events"])
    return tr, out


def relaxed_count(tr):
    n = 0
    for ev in tr["events"]:
        if ev["ev"] == "relax" and ev.get("state"):
            n = sum(1 for r in ev["state"]["relocations"] if r["type"] == "bc_imm11")
    before = sum(1 for o in tr["inp"] for r in o["rels"] if r["type"] == "bc_imm11")
    return n - before


def judge_traces(ctx, jobs, traces, label):
    tags = {j["id"]: job_tags(j["objects"], j["lay"]) for j in jobs}
    byid = {j["id"]: j for j in jobs}
    path = ctx.trace_file(traces)
    res = ctx.tlc("Relax_Trace", trace_cfg(), label=label, env={"TRACE_FILE": path}, continue_=True, workers=6,
                  timeout=3000, coverage=False, heap="8g")
    ctx.cov["traces_validated_against_impl"] += len(traces)
    seen = set()
    untranscribed = set()
    for e in res.errors:
        st = e.last
        idx = st.get("job")
        if not isinstance(idx, int) or idx < 1 or idx > len(traces):
            raise tlcmod.MachineryError("TLC error without trace index in Relax_Trace: %s\n%s" % (e, e.text[:2500]))
        rec = traces[idx - 1]
        if e.name == "DomainR":
            raise tlcmod.MachineryError("trace %s is outside the domain of Relax_Trace (harness fault)" % rec["id"])
        if e.name == "I_AsTranscribed":
            untranscribed.add(rec["id"])
            continue
        if (idx, e.name) in seen:
            continue
        seen.add((idx, e.name))
        why = st.get("why") or ""
        if e.name == "NotRejected":
            key = "C13:NotRejected:%s:%s:%s" % (slug(why), tags[rec["id"]], rec["id"])
            what = "link %s: the specification refuses event %s (%s): %s" % (rec["id"], st.get("l"), c12._evname(rec, st.get("l")), why)
        else:
            detail = ""
            if e.name == "I_StaysInRange":
                # which transfers left their range: into another section (the listed class) or inside one section
                u = st.get("unreach")
                u = sorted(u[1]) if isinstance(u, tuple) else []
                detail = ("+".join(u) or "none") + ":"
            key = "C13:%s:%s%s:%s" % (e.name, detail, tags[rec["id"]], rec["id"])
            what = "link %s: clause %s of Relax.tla / Linker.tla fails after do_relaxations (shrunk entries %s)" % (
                rec["id"], e.name[2:], st.get("shrunk"))
        ctx.violation(key, what, {"id": rec["id"], "clause": e.name, "why": why, "event": st.get("l"), "lay": rec["lay"],
                                  "source": byid[rec["id"]].get("src", "")[:6000], "outcome": c12.classify(rec),
                                  "sections_after_relaxation_name_addr_align_size": st.get("secs")})
    return res, untranscribed


def slug(why):
    why = re.sub(r"\(shrunk entries \{[^}]*\}\)", "", why or "")
    why = why.split(":")[0] if why.startswith("do_relaxations") else why
    return "".join(c if c.isalnum() else "_" for c in why)[:60].strip("_")


def image_cases(ctx, jobs, relaxed_objs):
    """B: for every job with a `run` record: the relaxed image (the object the recorded link returned) and the image of
    the same objects linked with do_relaxations switched off"""
    cases, meta = [], []
    for j in jobs:
        if "run" not in j or relaxed_objs.get(j["id"]) is None:
            continue
        run = j["run"]
        try:
            with rvlink.relaxation(False):
                from ppci.binutils import linker as L

                plain = L.link(j["objects"], layout=objgen.mk_layout(j["lay"]))
        except Exception:
            ctx.cov["unrelaxed_link_failed"] = ctx.cov.get("unrelaxed_link_failed", 0) + 1
            continue
        imgs = [rvlink.image_of(plain, run["entry"], run["globals"]), rvlink.image_of(relaxed_objs[j["id"]], run["entry"], run["globals"])]
        if any(i is None for i in imgs) or any(rvlink.images_overlap(i) for i in imgs):
            ctx.cov["image_not_loadable"] = ctx.cov.get("image_not_loadable", 0) + 1
            continue
        cases.append({"id": j["id"], "imgs": imgs, "calls": run["calls"], "sp": rvlink.SP, "ra": rvlink.RA,
                      "keep": rvlink.keep_regs(MARCH), "fuel": 1500})
        meta.append(j)
    return cases, meta


class Engine:
    LEVEL = "model_checking"

    def run(self, ctx):
        logging.disable(logging.CRITICAL)
        thorough = ctx.tier == "thorough"
        ctx.rule("M: Relax.tla on the universes of Relax_MCJobs (every sequence of 1-3 items of j / jal ra / jal x5 / jal / "
                 "fillers x target symbol at every item boundary x probe symbol at every byte x second object x 4 layouts), "
                 "for every legal choice of the relaxation's parameters, for the repaired choice and for ppci's choice.  T: "
                 "generated riscv:rvc link jobs (2-6 slots per section of CB / CBl / jal / beq / c.j / c.beqz + fillers 0-12 "
                 "and 2030-2052 bytes, 1-2 code sections, 1-2 objects, data words referring to labels, layouts one / split / "
                 "mixed / none with cross-section displacements aimed at 2040..2050), executable assembly programs and "
                 "irgen modules compiled for riscv:rvc (code and data in two memories or in one), each linked by the real "
                 "linker under the recorder and validated by Relax_Trace.  B: relaxed vs unrelaxed image of every "
                 "executable job run by RV32_Run on 2 argument vectors.  distinct = link jobs in which at least one "
                 "relocation was relaxed")
        ctx.assume("harness/project_obj.py copies ObjectFile attributes faithfully; the recorder's snapshots are taken at the "
                   "method boundaries of Linker; the unrelaxed link is the same Linker with do_relaxations replaced by a no-op")
        ctx.assume("tla/RV32.tla is the meaning of the instructions (C08 validates ppci's encodings against it); misaligned "
                   "data accesses are performed byte-wise by RV32.tla, so the behaviour part does not see misalignment - "
                   "the placement clause does")
        ctx.assume("symbols inside an instruction that shrinks have no logical target afterwards (not generated in T; "
                   "explored and left unconstrained in M); data words with relocations are generated in separate sections "
                   "(a hole in front of an aligned data word inside one section cannot be repaired by any hole-punching "
                   "relaxation)")
        only = ctx.only["case"]["id"] if ctx.only is not None else None
        if ctx.only is None:
            model_check(ctx)
        n_struct, n_exec, n_ir = (700, 120, 60) if thorough else (48, 8, 5)
        jobs = directed_jobs()
        for k in range(n_struct):
            j = struct_job(ctx, k)
            if j is not None:
                jobs.append(j)
        for k in range(n_exec):
            j = exec_job(ctx, k)
            if j is not None:
                jobs.append(j)
        for k in range(n_ir):
            j = compiled_job(ctx, k, one_memory=(k % 6 == 5))
            if j is not None:
                jobs.append(j)
        if only is not None:
            jobs = [j for j in jobs if j["id"] == only]
        traces, outs = [], {}
        outcomes, modes = {}, {}
        nrelaxed = 0
        for j in jobs:
            tr, out = run_trace(j)
            traces.append(tr)
            outs[j["id"]] = out
            c = c12.classify(tr)
            outcomes[c] = outcomes.get(c, 0) + 1
            modes[j["mode"]] = modes.get(j["mode"], 0) + 1
            r = relaxed_count(tr)
            nrelaxed += max(r, 0)
            ctx.count(j["id"], nontrivial=r > 0)
        ctx.cov["link_outcomes"] = outcomes
        ctx.cov["layout_modes"] = modes
        ctx.cov["relocations_relaxed"] = nrelaxed
        for tr in traces[:: max(1, len(traces) // 3)]:
            ctx.sample({"id": tr["id"], "objects": len(tr["inp"]), "relaxed": relaxed_count(tr), "outcome": c12.classify(tr)})
        untranscribed = set()
        for part, jpart in zip(core.chunks(traces, 400), core.chunks(jobs, 400)):
            _, u = judge_traces(ctx, jpart, part, "T: relaxed links")
            untranscribed |= u
        ctx.cov["links_not_matching_transcription_of_ppci"] = len(untranscribed)
        # ---- B
        cases, meta = image_cases(ctx, jobs, outs)
        if cases:
            res, _ = rvlink.run_images(ctx, cases, "B: relaxed vs unrelaxed image", emit=False,
                                       invariants=("ImagesAgree", "TypeOK"))
            ctx.cov["traces_validated_against_impl"] += sum(len(c["calls"]) for c in cases)
            ctx.cov["image_pairs_executed"] = len(cases)
            seen = set()
            for e in res.errors:
                st = e.last
                i, av = st.get("i"), st.get("av")
                if e.kind != "invariant" or e.name != "ImagesAgree" or not isinstance(i, int) or not 1 <= i <= len(cases):
                    raise tlcmod.MachineryError("unexpected TLC error in the RV32_Run run: %s\n%s" % (e, e.text[:1500]))
                j = meta[i - 1]
                key = "C13:ImagesAgree:%s:%s" % (job_tags(j["objects"], j["lay"]), j["id"])
                if key in seen:
                    continue
                seen.add(key)
                ctx.violation(key, "%s(%s): the relaxed image ends %s with a0=%s, the unrelaxed image of the same objects %s with a0=%s "
                              "(or the globals differ)" % (j["run"]["entry"], j["run"]["vecs"][av - 1] if isinstance(av, int) else "?",
                                                           st.get("status"), st.get("a0"),
                                                           (st.get("first") or {}).get("status"), (st.get("first") or {}).get("a0")),
                              {"id": j["id"], "source": j["src"][:6000], "args": j["run"]["vecs"], "lay": j["lay"]})
