"""X01 (extension) — the Pascal front-end computes the values Pascal semantics (ISO 7185) prescribe.

Deciding method: tla/PasSrc.tla (a Pascal abstract machine written from ISO 7185: ordinal types, checked integer
arithmetic, div / mod, relational and Boolean operators, assignment compatibility, value and variable parameters,
functions with a result variable, recursion, if / while / repeat / for / case, write) is refined by tla/IR.tla on the IR
that ppci.lang.pascal.pascal_to_ir emits.  Python only builds abstract programs, renders them as Pascal text, drives
ppci, projects the IR and moves TLC's PasSrc observations into the IR run; TLC + the two specifications decide.

  M   PasSrc_MC.tla   laws of the operator definitions (div / mod against integer arithmetic, range checks, relational
                      operators, required functions) exhaustively over a grid of values, and hand-written micro programs
                      with outcomes derived from the ISO rules (for bounds evaluated once, zero-trip for, var-parameter
                      aliasing, and / or with a deciding left operand, recursion, ...); determinism; every action taken
  G   PasSrc_Run.tla  TLC executes every (program, argument vector) under PasSrc.tla and writes the observation
  T   PasSrc_IR.tla   TLC executes ppci's IR (IR.tla) and checks DefinedStaysDefined / SrcSameReturn / SrcSameGlobals /
                      SrcSameOutput against the PasSrc observation whenever PasSrc ended "ok"
  E   PasSrc_Diag.tla the outcome of the front-end on programs that break a static rule must be a diagnostic
"""
import io
import json
import logging
import os
import random
import shutil
import tempfile

from harness import pasgen, project_ir
from harness.pasgen import (ARR, ASG, B, BI, BL, BOOL, CALL, CASE, CHAR, CL, EL, ENUM, FLD, FOR, FUNC, IDX, IF, INT, L, P, PROC,
                            PROG, REC, REPEAT, RES, SUB, U, V, WHILE, WRITE)
from harness.tlc import MachineryError

SRC_CFG = """INIT RInit
NEXT RNext
CHECK_DEADLOCK FALSE
INVARIANT TypeOK
INVARIANT NeverStuck
"""
IR_CFG = """INIT Init
NEXT Next
CHECK_DEADLOCK FALSE
INVARIANT DefinedStaysDefined
INVARIANT Terminates
INVARIANT SrcSameReturn
INVARIANT SrcSameGlobals
INVARIANT SrcSameOutput
"""
logging.getLogger().addHandler(logging.NullHandler())
IR_INT = {"i8": 1, "u8": 1, "i16": 2, "u16": 2, "i32": 4, "u32": 4, "i64": 8, "u64": 8}
MARCHES = (("x86_64", 8), ("arm", 4))
WORKERS = 8
QUICK_PROGRAMS = 12
QUICK_VECTORS = 6
IR_FACTOR = 150
THOROUGH_PROGRAMS = 100
MAXINT = pasgen.MAXINT
COLOR = pasgen.COLOR
PAIR = pasgen.PAIR


# ------------------------------------------------------------------ systematic probes
def pp(body, params=(("a", INT), ("b", INT)), globs=(), subs=(), locals_=()):
    """A probe program: procedure probe(<params>) stores what it computes in the program-level variables r, s, q."""
    gl = [("r", INT), ("s", INT), ("q", BOOL)] + list(globs)
    return PROG(gl, list(subs) + [PROC("probe", [P(n, t) for n, t in params], list(locals_), body)], [ASG(V("r"), L(0))]), "probe"


def mp(main, globs=(), subs=()):
    """A probe program that is run as a whole."""
    return PROG([("r", INT), ("s", INT), ("q", BOOL)] + list(globs), list(subs), main), ""


A, Bv = V("a"), V("b")
SMALL = [0, 1, -1, 2, -2, 3, -3, 7, -7, 10, 100, -100]
BIG = [46340, 46341, -46341, MAXINT, -MAXINT, 65536, 32768]


def pairs(xs, ys=None, cond=None):
    ys = xs if ys is None else ys
    return [[x, y] for x in xs for y in ys if cond is None or cond(x, y)]


def probes():
    """Yields (construct key, program, entry routine ("" = program block), argument vectors)."""
    allv = pairs(SMALL + BIG)
    for op in ("+", "-", "*"):
        prog, fn = pp([ASG(V("r"), B(op, A, Bv))])
        yield "arith:" + op, prog, fn, allv
    prog, fn = pp([ASG(V("r"), B("div", A, Bv)), ASG(V("s"), B("-", A, B("*", B("div", A, Bv), Bv)))])
    yield "arith:div", prog, fn, pairs(SMALL + BIG, [1, -1, 2, -2, 3, -3, 7, -7, 10, 46341, MAXINT, -MAXINT, 0])
    prog, fn = pp([ASG(V("r"), B("mod", A, Bv))])
    yield "arith:mod:nonneg-dividend", prog, fn, pairs([0, 1, 2, 3, 7, 10, 100, 46341, MAXINT], [1, 2, 3, 7, 10, 46341, MAXINT, 0, -1, -3])
    yield "arith:mod:neg-dividend", prog, fn, pairs([-1, -2, -3, -7, -8, -100, -46341, -MAXINT], [1, 2, 3, 7, 10, 46341, MAXINT])
    prog, fn = pp([ASG(V("r"), U("-", A)), ASG(V("s"), U("+", Bv)), ASG(V("r"), B("-", V("r"), U("-", U("-", Bv))))])
    yield "unary:sign", prog, fn, pairs(SMALL + [MAXINT, -MAXINT], [0, 5, -5])
    prog, fn = pp([ASG(V("r"), B("-", B("div", B("*", B("+", A, Bv), B("-", A, Bv)), B("+", B("*", Bv, Bv), L(1))), U("-", A))),
                   ASG(V("s"), B("+", B("mod", B("*", A, A), L(7)), B("*", L(3), B("div", Bv, L(-2)))))])
    yield "arith:nested", prog, fn, pairs(SMALL, SMALL[:8])
    for op in ("=", "<>", "<", ">", "<=", ">="):
        prog, fn = pp([ASG(V("q"), B(op, A, Bv)), IF(B(op, A, Bv), [ASG(V("r"), L(1))], [ASG(V("r"), L(2))])])
        yield "rel:%s:int" % op, prog, fn, pairs([0, 1, -1, 7, -7, MAXINT, -MAXINT])
        prog, fn = pp([ASG(V("q"), B(op, A, Bv))], params=(("a", CHAR), ("b", CHAR)))
        yield "rel:%s:char" % op, prog, fn, pairs([0, 65, 66, 97, 127, 128, 200, 255])
        prog, fn = pp([ASG(V("q"), B(op, A, Bv))], params=(("a", BOOL), ("b", BOOL)))
        yield "rel:%s:bool" % op, prog, fn, pairs([0, 1])
        prog, fn = pp([ASG(V("q"), B(op, A, Bv))], params=(("a", COLOR), ("b", COLOR)))
        yield "rel:%s:enum" % op, prog, fn, pairs([0, 1, 2, 3])
    bb = (("a", BOOL), ("b", BOOL))
    for op in ("and", "or"):
        prog, fn = pp([ASG(V("q"), B(op, A, Bv)), IF(B(op, A, Bv), [ASG(V("r"), L(1))], [ASG(V("r"), L(2))]),
                       WHILE(B(op, B(op, A, Bv), B("<", V("r"), L(0))), [ASG(V("r"), B("+", V("r"), L(10))), ASG(V("a"), BL(False)), ASG(V("b"), BL(False))])], params=bb)
        yield "bool:" + op, prog, fn, pairs([0, 1])
    prog, fn = pp([ASG(V("q"), U("not", A)), IF(U("not", B("and", A, U("not", Bv))), [ASG(V("r"), L(1))], [ASG(V("r"), L(2))])], params=bb)
    yield "bool:not", prog, fn, pairs([0, 1])
    prog, fn = pp([ASG(V("q"), B("or", B("and", B("<", A, Bv), U("not", B("=", Bv, L(3)))), B(">", A, L(7)))),
                   ASG(V("q"), B("=", V("q"), B("<>", A, Bv)))])
    yield "bool:nested", prog, fn, pairs([0, 3, 5, 8, -1])
    prog, fn = pp([ASG(V("t"), A), ASG(V("u"), U("not", V("t"))), ASG(V("q"), B("and", V("u"), BL(True))), IF(V("u"), [ASG(V("r"), L(1))], [ASG(V("r"), L(0))])],
                  params=bb, globs=[("t", BOOL), ("u", BOOL)])
    yield "bool:variables", prog, fn, pairs([0, 1])
    # statements
    prog, fn = pp([IF(B("<", A, Bv), [ASG(V("r"), L(1))], [ASG(V("r"), L(2))]), ASG(V("s"), L(5)), IF(B("=", A, Bv), [ASG(V("s"), L(6))])])
    yield "if", prog, fn, pairs([0, 1, 2])
    prog, fn = pp([ASG(V("r"), L(0)), ASG(V("s"), A), WHILE(B("<", V("s"), Bv), [ASG(V("r"), B("+", V("r"), V("s"))), ASG(V("s"), B("+", V("s"), L(1)))])])
    yield "while", prog, fn, pairs([0, 1, 3, -2], [0, 3, 5])
    cc = [ASG(V("r"), L(1)), IF(BL(True), [ASG(V("r"), L(2))]), IF(BL(False), [ASG(V("r"), L(3))], [ASG(V("s"), L(4))]), ASG(V("q"), B("or", BL(False), B("<", V("r"), V("s")))),
          IF(B("and", BL(True), B("<", V("r"), V("s"))), [ASG(V("r"), L(5))])]
    prog, fn = pp(cc)
    yield "if:constant-condition:procedure", prog, fn, [[0, 0]]
    prog, fn = mp(cc)
    yield "if:constant-condition:program-block", prog, fn, [[]]
    prog, fn = pp([ASG(V("r"), L(0)), ASG(V("s"), A), REPEAT([ASG(V("r"), B("+", V("r"), L(1))), ASG(V("s"), B("+", V("s"), L(1)))], B(">=", V("s"), Bv))])
    yield "repeat", prog, fn, pairs([0, 1, 5], [0, 3, 5])
    for up in (True, False):
        d = "to" if up else "downto"
        body = [ASG(V("r"), L(0)), ASG(V("s"), L(100)), FOR("k", A, Bv, [ASG(V("r"), B("+", B("*", V("r"), L(3)), V("k"))), ASG(V("s"), B("+", V("s"), L(1)))], up)]
        prog, fn = pp(body, globs=[("k", INT)])
        cond = (lambda x, y: x <= y) if up else (lambda x, y: x >= y)
        yield "for:%s" % d, prog, fn, pairs([-2, 0, 1, 3, 4], cond=cond)
        yield "for:zero-trip:%s" % d, prog, fn, pairs([-2, 0, 1, 3, 4], cond=lambda x, y: not cond(x, y))
        prog, fn = pp(body, locals_=[("k", INT)])
        yield "for:%s:local" % d, prog, fn, pairs([-2, 0, 3], cond=cond)
    # bounds are evaluated once: the body changes the variables they were computed from
    prog, fn = pp([ASG(V("r"), L(0)), ASG(V("n"), Bv), ASG(V("m"), A),
                   FOR("k", V("m"), B("+", V("n"), L(1)), [ASG(V("n"), B("-", V("n"), L(1))), ASG(V("m"), L(50)), ASG(V("r"), B("+", V("r"), L(1)))])],
                  globs=[("k", INT), ("n", INT), ("m", INT)])
    yield "for:bounds-once", prog, fn, pairs([0, 1], [1, 3, 4])
    prog, fn = pp([ASG(V("r"), L(0)), FOR("k", L(1), A, [FOR("j", V("k"), Bv, [ASG(V("r"), B("+", V("r"), B("*", V("k"), V("j"))))])])],
                  globs=[("k", INT), ("j", INT)])
    yield "for:nested", prog, fn, pairs([1, 2, 3], [3, 4])
    prog, fn = pp([ASG(V("r"), L(0)), FOR("c", CL("a"), CL("e"), [ASG(V("r"), B("+", V("r"), L(1))), IF(B("=", V("c"), CL("c")), [ASG(V("s"), V("r"))])])],
                  globs=[("c", CHAR)])
    yield "for:char", prog, fn, [[0, 0]]
    arms = [([L(1)], [ASG(V("r"), L(10))]), ([L(2), L(3)], [ASG(V("r"), L(20))]), ([L(-4)], [ASG(V("r"), L(30))])]
    prog, fn = pp([ASG(V("r"), L(0)), CASE(A, arms, [ASG(V("r"), L(99))]), ASG(V("s"), B("+", V("r"), L(1)))])
    yield "case:else", prog, fn, [[v, 0] for v in (1, 2, 3, -4, 0, 4, -1, 100)]
    prog, fn = pp([ASG(V("r"), L(0)), CASE(A, arms), ASG(V("s"), B("+", V("r"), L(1)))])
    yield "case:no-else", prog, fn, [[v, 0] for v in (1, 2, 3, -4)]
    prog, fn = pp([ASG(V("r"), L(0)), CASE(B("+", A, Bv), [([L(0)], []), ([L(2)], [ASG(V("r"), L(2)), ASG(V("s"), L(3))])], [CASE(A, [([L(5)], [ASG(V("r"), L(55))])], [])])])
    yield "case:nested-empty", prog, fn, pairs([0, 1, 2, 5])
    prog, fn = pp([ASG(V("r"), L(0)), CASE(A, [([CL("a")], [ASG(V("r"), L(1))]), ([CL("b"), CL("z")], [ASG(V("r"), L(2))])], [ASG(V("r"), L(3))])],
                  params=(("a", CHAR), ("b", CHAR)))
    yield "case:char", prog, fn, [[v, 0] for v in (97, 98, 122, 99, 0, 255)]
    prog, fn = pp([ASG(V("r"), L(0)), CASE(A, [([EL(COLOR, "red")], [ASG(V("r"), L(1))]), ([EL(COLOR, "blue"), EL(COLOR, "black")], [ASG(V("r"), L(2))])],
                                          [ASG(V("r"), L(3))])], params=(("a", COLOR), ("b", COLOR)))
    yield "case:enum", prog, fn, [[v, 0] for v in (0, 1, 2, 3)]
    # procedures
    inc = PROC("bump", [P("x", INT), P("d", INT)], [("l", INT)], [ASG(V("l"), B("*", V("x"), L(2))), ASG(V("x"), B("+", V("l"), V("d"))), ASG(V("s"), V("x"))])
    prog, fn = pp([ASG(V("r"), A), CALL("bump", V("r"), Bv), CALL("bump", B("+", V("r"), V("s")), L(1)), ASG(V("r"), B("+", V("r"), V("s")))], subs=[inc])
    yield "proc:value-param", prog, fn, pairs([0, 3, -4], [1, -2])
    noarg = PROC("tick", [], [], [ASG(V("s"), B("+", V("s"), L(1)))])
    prog, fn = pp([ASG(V("s"), A), CALL("tick"), CALL("tick"), ASG(V("r"), V("s"))], subs=[noarg])
    yield "proc:noarg", prog, fn, [[0, 0], [5, 0]]
    rec = PROC("down", [P("n", INT)], [], [IF(B(">", V("n"), L(0)), [ASG(V("s"), B("+", V("s"), V("n"))), CALL("down", B("-", V("n"), L(1))), ASG(V("r"), B("+", V("r"), L(1)))])])
    prog, fn = pp([ASG(V("s"), L(0)), ASG(V("r"), L(0)), CALL("down", A)], subs=[rec])
    yield "proc:recursion", prog, fn, [[0, 0], [1, 0], [4, 0], [7, 0]]
    shadow = PROC("sh", [P("r", INT)], [("s", INT)], [ASG(V("s"), B("+", V("r"), L(1))), ASG(V("r"), B("*", V("s"), L(2))), ASG(V("g"), V("r"))])
    prog, fn = pp([ASG(V("r"), A), ASG(V("s"), Bv), CALL("sh", B("+", V("r"), V("s")))], subs=[shadow], globs=[("g", INT)])
    yield "proc:shadowing", prog, fn, pairs([1, 4], [2, -3])
    # functions
    sq = FUNC("twice", [P("x", INT)], INT, [], [RES("twice", B("*", V("x"), L(2)))])
    prog, fn = pp([ASG(V("r"), CALL("twice", A)), ASG(V("s"), B("+", CALL("twice", CALL("twice", Bv)), CALL("twice", L(1))))], subs=[sq])
    yield "func:result", prog, fn, pairs([0, 3, -4], [1, -2])
    fact = FUNC("fact", [P("x", INT)], INT, [], [IF(B("=", V("x"), L(0)), [RES("fact", L(1))], [RES("fact", B("*", V("x"), CALL("fact", B("-", V("x"), L(1)))))])])
    prog, fn = pp([ASG(V("r"), CALL("fact", A))], subs=[fact])
    yield "func:recursion", prog, fn, [[0, 0], [1, 0], [5, 0], [10, 0]]
    fib = FUNC("fib", [P("n", INT)], INT, [("t", INT)],
               [IF(B("<", V("n"), L(2)), [RES("fib", V("n"))], [ASG(V("t"), CALL("fib", B("-", V("n"), L(1)))), RES("fib", B("+", V("t"), CALL("fib", B("-", V("n"), L(2)))))])])
    prog, fn = pp([ASG(V("r"), CALL("fib", A))], subs=[fib])
    yield "func:recursion:fib", prog, fn, [[0, 0], [1, 0], [6, 0]]
    isp = FUNC("ispos", [P("x", INT)], BOOL, [], [RES("ispos", B(">", V("x"), L(0)))])
    prog, fn = pp([ASG(V("q"), CALL("ispos", A)), IF(B("and", CALL("ispos", Bv), U("not", CALL("ispos", A))), [ASG(V("r"), L(1))], [ASG(V("r"), L(2))])], subs=[isp])
    yield "func:bool-result", prog, fn, pairs([0, 3, -4])
    seven = FUNC("seven", [], INT, [], [RES("seven", L(7))])
    prog, fn = pp([ASG(V("r"), B("+", CALL("seven"), A))], subs=[seven])
    yield "func:noarg", prog, fn, [[0, 0], [5, 0]]
    acc = FUNC("acc", [P("x", INT)], INT, [("l", INT)], [ASG(V("l"), L(0)), RES("acc", L(0)), WHILE(B("<", V("l"), V("x")), [ASG(V("l"), B("+", V("l"), L(1))), RES("acc", B("+", V("l"), V("s")))])])
    prog, fn = pp([ASG(V("s"), Bv), ASG(V("r"), CALL("acc", A))], subs=[acc])
    yield "func:result-reassigned", prog, fn, pairs([0, 1, 3], [0, 10])
    # variable parameters
    add = PROC("addto", [P("y", INT, True), P("d", INT)], [], [ASG(V("y"), B("+", V("y"), V("d")))])
    prog, fn = pp([ASG(V("r"), A), CALL("addto", V("r"), Bv), CALL("addto", V("r"), V("r"))], subs=[add])
    yield "var-param:scalar", prog, fn, pairs([0, 3, -4], [1, -2])
    al = PROC("two", [P("x", INT, True), P("y", INT, True)], [], [ASG(V("x"), B("+", V("x"), L(1))), ASG(V("y"), B("*", V("y"), L(10))), ASG(V("s"), B("+", V("x"), V("y")))])
    prog, fn = pp([ASG(V("r"), A), ASG(V("g"), Bv), CALL("two", V("r"), V("r")), CALL("two", V("r"), V("g"))], subs=[al], globs=[("g", INT)])
    yield "var-param:alias", prog, fn, pairs([0, 3], [1, -2])
    sw = PROC("swap", [P("x", INT, True), P("y", INT, True)], [("t", INT)], [ASG(V("t"), V("x")), ASG(V("x"), V("y")), ASG(V("y"), V("t"))])
    prog, fn = pp([ASG(V("r"), A), ASG(V("s"), Bv), CALL("swap", V("r"), V("s"))], subs=[sw])
    yield "var-param:swap", prog, fn, pairs([0, 3], [1, -2])
    arr = ARR(0, 4, INT)
    prog, fn = pp([ASG(IDX("w", L(1)), A), ASG(IDX("w", L(2)), Bv), ASG(V("r"), L(1)), CALL("swap", IDX("w", V("r")), IDX("w", L(2))), ASG(V("r"), IDX("w", L(1))), ASG(V("s"), IDX("w", L(2)))],
                  subs=[sw], globs=[("w", arr)])
    yield "var-param:array-element", prog, fn, pairs([0, 3], [1, -2])
    thr = PROC("outer", [P("z", INT, True)], [("l", INT)], [ASG(V("l"), L(5)), CALL("addto", V("z"), V("l")), CALL("addto", V("l"), V("z")), ASG(V("s"), V("l"))])
    prog, fn = pp([ASG(V("r"), A), CALL("outer", V("r"))], subs=[add, thr])
    yield "var-param:passed-on", prog, fn, [[0, 0], [3, 0], [-9, 0]]
    fil = PROC("fill", [P("t", arr, True), P("v", INT)], [("k", INT)], [FOR("k", L(0), L(4), [ASG(IDX("t", V("k")), B("+", V("v"), V("k")))])])
    prog, fn = pp([CALL("fill", V("w"), A), ASG(V("r"), IDX("w", L(0))), ASG(V("s"), IDX("w", L(4)))], subs=[fil], globs=[("w", arr)])
    yield "var-param:array", prog, fn, [[0, 0], [3, 0]]
    vf = FUNC("take", [P("y", INT, True)], INT, [], [RES("take", V("y")), ASG(V("y"), L(0))])
    prog, fn = pp([ASG(V("r"), A), ASG(V("s"), CALL("take", V("r")))], subs=[vf])
    yield "var-param:function", prog, fn, [[4, 0], [-3, 0]]
    # arrays
    for name, lo, hi in (("lo0", 0, 3), ("lo1", 1, 4), ("neg-lo", -2, 1), ("lo5", 5, 6)):
        t = ARR(lo, hi, INT)
        body = [ASG(IDX("w", L(j)), B("+", A, L(j))) for j in range(lo, hi)] + [ASG(V("r"), L(0))]
        body += [FOR("k", L(lo), L(hi - 1), [ASG(V("r"), B("+", B("*", V("r"), L(2)), IDX("w", V("k"))))]), ASG(V("s"), IDX("w", B("+", L(lo), Bv)))]
        prog, fn = pp(body, globs=[("w", t), ("k", INT)])
        yield "array:%s:all-but-last" % name, prog, fn, pairs([0, 3, -7], [0, 1, hi - 1 - lo])
        body = [ASG(V("zz"), L(77)), ASG(IDX("w", L(hi)), A), ASG(IDX("w", B("-", L(hi), L(1))), Bv), ASG(V("r"), IDX("w", L(hi))), ASG(V("s"), B("+", IDX("w", L(hi - 1)), V("zz")))]
        prog, fn = pp(body, globs=[("w", t), ("zz", INT)])
        yield "array:%s:last-element" % name, prog, fn, pairs([5, -3], [1, 9])
    t = ARR(0, 3, INT)
    prog, fn = pp([ASG(IDX("l", L(0)), A), ASG(IDX("l", L(1)), Bv), ASG(IDX("l", L(2)), B("+", IDX("l", L(0)), IDX("l", L(1)))), ASG(V("r"), IDX("l", L(2))),
                   ASG(V("m"), L(2)), ASG(IDX("l", V("m")), B("*", IDX("l", B("-", V("m"), L(1))), L(3))), ASG(V("s"), IDX("l", L(2)))], locals_=[("l", t), ("m", INT)])
    yield "array:local", prog, fn, pairs([0, 3], [1, -2])
    prog, fn = pp([ASG(IDX("w", L(0)), CL("x")), ASG(IDX("w", L(1)), A), ASG(IDX("w", L(2)), IDX("w", L(1))), ASG(V("q"), B("<", IDX("w", L(2)), IDX("w", L(0)))), ASG(V("c"), IDX("w", L(2))),
                   ASG(IDX("f", L(1)), V("q")), ASG(IDX("f", L(0)), U("not", IDX("f", L(1)))), IF(IDX("f", L(0)), [ASG(V("r"), L(1))], [ASG(V("r"), L(2))])],
                  params=(("a", CHAR), ("b", CHAR)), globs=[("w", ARR(0, 3, CHAR)), ("f", ARR(0, 2, BOOL)), ("c", CHAR)])
    yield "array:char-bool-elements", prog, fn, [[97, 0], [122, 0], [120, 0]]
    # records
    prog, fn = pp([ASG(FLD("p", "x"), A), ASG(FLD("p", "y"), Bv), ASG(FLD("p", "ok"), B("<", FLD("p", "x"), FLD("p", "y"))), ASG(FLD("o", "x"), B("+", FLD("p", "x"), FLD("p", "y"))),
                   ASG(V("r"), FLD("o", "x")), ASG(V("s"), B("-", FLD("p", "y"), FLD("p", "x"))), ASG(V("q"), FLD("p", "ok"))], globs=[("p", PAIR), ("o", PAIR)])
    yield "record:fields", prog, fn, pairs([0, 3], [1, -2])
    prog, fn = pp([ASG(FLD("p", "x"), A), ASG(FLD("p", "y"), Bv), ASG(V("r"), B("*", FLD("p", "x"), FLD("p", "y")))], locals_=[("p", PAIR)])
    yield "record:local", prog, fn, pairs([0, 3], [1, -2])
    # enumerated, subrange and char variables
    prog, fn = pp([ASG(V("e"), A), ASG(V("f"), EL(COLOR, "green")), ASG(V("q"), B("<", V("e"), V("f"))), IF(B("=", V("e"), EL(COLOR, "blue")), [ASG(V("r"), L(1))], [ASG(V("r"), L(2))]), ASG(V("e"), V("f"))],
                  params=(("a", COLOR), ("b", COLOR)), globs=[("e", COLOR), ("f", COLOR)])
    yield "enum:variables", prog, fn, [[v, 0] for v in range(4)]
    prog, fn = pp([ASG(V("r"), BI("ord", A)), ASG(V("s"), B("+", BI("ord", EL(COLOR, "black")), BI("ord", Bv)))], params=(("a", COLOR), ("b", COLOR)))
    yield "builtin:ord:enum", prog, fn, pairs([0, 1, 3])
    prog, fn = pp([ASG(V("e"), BI("succ", A, 4)), ASG(V("f"), BI("pred", Bv, 4)), ASG(V("q"), B("=", V("e"), V("f")))], params=(("a", COLOR), ("b", COLOR)), globs=[("e", COLOR), ("f", COLOR)])
    yield "builtin:succ-pred:enum", prog, fn, pairs([0, 1, 2], [1, 2, 3])
    sr = SUB(-3, 10)
    prog, fn = pp([ASG(V("u"), A), ASG(V("r"), B("+", V("u"), Bv)), ASG(V("u"), B("-", V("u"), L(1))), ASG(V("s"), B("*", V("u"), L(2)))], globs=[("u", sr)])
    yield "subrange:variable", prog, fn, pairs([-2, 0, 10, 5], [1, -2])
    prog, fn = pp([ASG(V("r"), B("+", V("u"), L(1))), ASG(V("u"), L(4)), ASG(V("s"), V("u"))], params=(("u", sr), ("b", INT)))
    yield "subrange:parameter", prog, fn, pairs([-3, 0, 10], [0])
    prog, fn = pp([ASG(V("c"), A), ASG(V("d"), CL("m")), ASG(V("q"), B("<=", V("c"), V("d"))), IF(B("=", V("c"), CL("m")), [ASG(V("r"), L(1))], [ASG(V("r"), L(2))]), ASG(V("d"), V("c"))],
                  params=(("a", CHAR), ("b", CHAR)), globs=[("c", CHAR), ("d", CHAR)])
    yield "char:variables", prog, fn, [[v, 0] for v in (97, 109, 122, 0, 255)]
    prog, fn = pp([ASG(V("r"), BI("ord", A)), ASG(V("c"), BI("chr", B("+", BI("ord", A), L(1)))), ASG(V("s"), BI("ord", V("c")))], params=(("a", CHAR), ("b", CHAR)), globs=[("c", CHAR)])
    yield "builtin:ord-chr:char", prog, fn, [[v, 0] for v in (97, 0, 254, 65)]
    prog, fn = pp([ASG(V("r"), BI("ord", A)), ASG(V("s"), BI("ord", B("<", L(1), L(2))))], params=bb)
    yield "builtin:ord:bool", prog, fn, pairs([0, 1])
    for f in ("abs", "sqr", "succ", "pred"):
        prog, fn = pp([ASG(V("r"), BI(f, A)), ASG(V("s"), BI(f, B("-", Bv, L(3))))])
        yield "builtin:%s:int" % f, prog, fn, pairs([0, 1, -1, 7, -7, 46340, -46340, 46341, MAXINT, -MAXINT], [0, 5])
    prog, fn = pp([ASG(V("q"), BI("odd", A)), IF(BI("odd", B("+", A, Bv)), [ASG(V("r"), L(1))], [ASG(V("r"), L(2))])])
    yield "builtin:odd", prog, fn, pairs([0, 1, -1, 2, -2, 7, -7, MAXINT, -MAXINT], [0, 1])
    # output
    prog, fn = pp([WRITE(A), WRITE(Bv, B("+", A, Bv)), WRITE(U("-", A), ln=True), WRITE(ln=True)])
    yield "write:int", prog, fn, pairs([0, 5, -17, MAXINT], [1, -2])
    prog, fn = pp([WRITE((A, L(5))), WRITE((Bv, B("+", L(1), L(2))), A, ln=True)])
    yield "write:width", prog, fn, pairs([0, 5, -17], [1, -2])
    prog, fn = pp([WRITE(A), WRITE(CL("x"), Bv, ln=True), ASG(V("c"), A), WRITE(V("c"), V("c"))], params=(("a", CHAR), ("b", CHAR)), globs=[("c", CHAR)])
    yield "write:char", prog, fn, pairs([97, 48], [122, 10])
    wf = FUNC("noisy", [P("x", INT)], INT, [], [WRITE(V("x")), RES("noisy", B("+", V("x"), L(1)))])
    prog, fn = pp([ASG(V("r"), CALL("noisy", A)), WRITE(V("r")), ASG(V("s"), CALL("noisy", CALL("noisy", Bv)))], subs=[wf])
    yield "func:writes", prog, fn, pairs([0, 5], [1, -2])
    # whole programs
    prog, fn = mp([ASG(V("r"), L(0)), ASG(V("s"), L(1)), FOR("k", L(1), L(10), [ASG(V("r"), B("+", V("r"), V("s"))), ASG(V("s"), B("-", V("r"), V("s")))]), WRITE(V("r"), V("s"), ln=True),
                   ASG(V("q"), B("=", V("r"), L(55)))], globs=[("k", INT)])
    yield "program:fibonacci", prog, fn, [[]]
    prog, fn = mp([ASG(V("r"), L(1071)), ASG(V("s"), L(462)), WHILE(B("<>", V("s"), L(0)), [ASG(V("t"), B("mod", V("r"), V("s"))), ASG(V("r"), V("s")), ASG(V("s"), V("t"))]), WRITE(V("r"))],
                  globs=[("t", INT)])
    yield "program:gcd", prog, fn, [[]]


def construct_class(key):
    """The construct class (pasgen.Gen: avoid) that a failing probe key belongs to, or None."""
    parts = key.split(":")
    fam = parts[0]
    if fam == "func":
        return "func"
    if fam == "var-param":
        return "var-param"
    if fam == "array":
        return "array" if parts[-1] == "last-element" or parts[1] in ("lo0", "local", "char-bool-elements") else "array-lo"
    if fam == "if" and len(parts) > 1 and parts[1] == "constant-condition":
        return "const-cond"
    if fam == "for" and parts[1] == "zero-trip":
        return "for-zero-trip"
    if fam == "record":
        return "record"
    if fam == "subrange":
        return "subrange"
    if fam == "case" and parts[1] == "no-else":
        return "case-no-else"
    if fam == "builtin":
        return "builtin"
    if fam == "enum" or key.endswith(":enum"):
        return "enum"
    if key == "arith:mod:neg-dividend":
        return "mod-neg"
    return None


# ------------------------------------------------------------------ items
def make_item(key, prog, fn, vecs, kind):
    f = [s for s in prog["subs"] if s["n"] == fn]
    return {"key": key, "prog": prog, "fn": fn, "f": f[0] if f else None, "vecs": vecs, "kind": kind, "src": pasgen.render(prog)}


def random_items(ctx, n, classes=()):
    out = []
    for _ in range(n):
        seed = ctx.rng.randrange(1 << 30)
        prog = pasgen.Gen(random.Random(seed), avoid=classes).program()
        out.append(make_item("prog:p%d" % seed, prog, "", [[]], "random"))
    return out


# ------------------------------------------------------------------ ppci side
def pas_compile(src, march):
    from ppci.arch import get_arch
    from ppci.lang.pascal import pascal_to_ir
    from harness.watchdog import limited

    mods = limited(lambda: pascal_to_ir([io.StringIO(src)], get_arch(march)), 20, "pascal_to_ir")
    if not isinstance(mods, list) or len(mods) != 1:
        raise ValueError("pascal_to_ir returned %r" % (mods,))
    return mods[0]


def entry_name(it):
    return it["fn"] if it["fn"] else it["prog"]["name"] + "_main"


def stub_module(it, pb, why):
    """Stand-in for the IR of a program that the front-end did not translate: its entry cannot be executed (IR.tla ends
    'outofmodel' with the recorded reason), so that TLC judges the recorded outcome of the front-end."""
    np_ = len(it["f"]["params"]) if it["f"] else 0
    fname = entry_name(it)
    fn = {"name": fname, "ret": "", "params": [{"id": k + 1, "ty": "i32"} for k in range(np_)], "nvals": np_, "entry": 1,
          "blocks": [{"name": "none", "ins": [{"k": "oom", "d": 0, "ty": "", "why": why}]}]}
    return {"name": "not-translated", "pb": pb, "globals": [{"k": "fn", "name": fname, "fi": 1, "binding": "global"}], "funcs": [fn]}


def compile_items(ctx, items, marches):
    """Run the real front-end; attach the IR projections.  A rejection or an internal error on a generated (valid)
    program is recorded as the outcome of the translation (stub module) and judged by TLC like any other IR: the
    program is in the language, so Pascal prescribes values that no IR computes."""
    for it in items:
        it["pm"], it["ir_argv"], it["fe"] = {}, {}, {}
        for march, pb in marches:
            fname = entry_name(it)
            np_ = len(it["f"]["params"]) if it["f"] else 0
            try:
                m = pas_compile(it["src"], march)
                pm = project_ir.project_module(m, pb)
                fi = [g for g in pm["funcs"] if g["name"] == fname]
                if not fi or len(fi[0]["params"]) != np_ or any(p["ty"] not in IR_INT for p in fi[0]["params"]):
                    ctx.cov["no_ir_function"] = ctx.cov.get("no_ir_function", 0) + 1
                    pm = stub_module(it, pb, "front-end: no IR function %s with the declared ordinal parameters" % fname)
                it["fe"][march] = "ok"
            except Exception as e:  # rejection (CompilerError) or internal error of the front-end
                name = "frontend_rejected" if type(e).__name__ in ("TaskError", "CompilerError", "SemanticError") else "frontend_internal_error"
                ctx.cov[name] = ctx.cov.get(name, 0) + 1
                if len(ctx.cov.setdefault(name + "_samples", [])) < 8:
                    ctx.cov[name + "_samples"].append({"key": it["key"], "march": march, "exc": type(e).__name__, "msg": str(e)[:200]})
                pm = stub_module(it, pb, "front-end: %s: %s" % (type(e).__name__, str(e)[:80]))
                it["fe"][march] = "%s: %s" % (type(e).__name__, str(e)[:120])
            fi = [g for g in pm["funcs"] if g["name"] == fname]
            it["ir_argv"][march] = [[project_ir.limbs(int(v), IR_INT[q["ty"]]) for v, q in zip(vec, fi[0]["params"])] for vec in it["vecs"]]
            it["pm"][march] = pm
    return items


# ------------------------------------------------------------------ TLC: PasSrc observations
SRC_ACTIONS = ["Assign", "CallStmt", "If", "While", "LoopTest", "Repeat", "Until", "For", "ForNext", "Case", "Write", "BlockEnd", "OutOfFuel"]


def src_cases(items, fuel=4000):
    return [{"id": it["key"], "prog": pasgen.to_src(it["prog"]), "fn": it["fn"], "argv": [[pasgen.limbs(int(v)) for v in vec] for vec in it["vecs"]],
             "fuel": fuel} for it in items]


def run_src(ctx, items, label):
    """TLC executes every (item, vector) under PasSrc.tla; returns {(item index, vector index): observation}."""
    obsdir = tempfile.mkdtemp(prefix="obs_", dir=ctx.workdir)
    path = ctx.trace_file(src_cases(items), "src.json")
    res = ctx.tlc("PasSrc_Run", SRC_CFG, label=label, env={"TRACE_FILE": path, "OBS_DIR": obsdir}, continue_=True, workers=WORKERS, coverage=False)
    os.unlink(path)
    if res.errors:
        e = res.errors[0]
        i = e.last.get("i")
        raise MachineryError("PasSrc.tla could not execute a generated program (%s): %s\n%s\n%s" % (
            e.name, {k: str(v)[:200] for k, v in e.last.items() if k in ("i", "av", "status", "why")}, e.text[:1500],
            items[i - 1]["src"][:3000] if isinstance(i, int) and 0 < i <= len(items) else ""))
    obs = {}
    for fn in os.listdir(obsdir):
        with open(os.path.join(obsdir, fn)) as fh:
            r = json.load(fh)
        obs[(r["i"] - 1, r["av"] - 1)] = dict(r["obs"], steps=r["steps"])
        for a in r["acts"]:
            ctx.cov["actions"]["PasSrc." + a] = ctx.cov["actions"].get("PasSrc." + a, 0) + 1
    shutil.rmtree(obsdir, ignore_errors=True)
    want = sum(len(it["vecs"]) for it in items)
    if len(obs) != want:
        raise MachineryError("PasSrc_Run wrote %d observations, expected %d" % (len(obs), want))
    return obs


def decode(bs):
    v = sum(b << (8 * k) for k, b in enumerate(bs))
    return v - (1 << (8 * len(bs))) if bs and bs[-1] >= 128 else v


def describe(it, a, o, clause, st, march):
    exp = ", ".join("%s=%d" % (g["name"], decode(g["w"])) for g in o["globals"])
    return "%s(%s) on %s: Pascal (PasSrc.tla) gives %s%s%s; ppci's IR gives status=%s%s ret=%s calls=%s [%s]%s" % (
        it["fn"] or "program", ", ".join(map(str, it["vecs"][a])), march, exp,
        " result=%d" % decode(o["ret"]) if o["ret"] else "", " output=%d events" % len(o["out"]) if o["out"] else "",
        st.get("status"), (" (%s)" % st.get("why")) if st.get("why") else "",
        decode(st["ret"]) if isinstance(st.get("ret"), list) and st.get("ret") else "-",
        len(st.get("calls") or []), clause, "; front-end: " + it["fe"][march] if it["fe"][march] != "ok" else "")


# ------------------------------------------------------------------ M: the specification checked by itself
MC_CFG = """CONSTANT GridN = %d
INIT MInit
NEXT MNext
CHECK_DEADLOCK FALSE
INVARIANT TypeOK
INVARIANT NeverStuck
INVARIANT LawDivMod
INVARIANT LawArith
INVARIANT LawRel
INVARIANT LawAssign
INVARIANT LawBuiltIn
INVARIANT ExpectMet
INVARIANT Deterministic
"""


def micro_programs():
    """Hand-written programs with the outcome that rules P1-P10 of PasSrc.tla prescribe (derived by hand from ISO 7185):
    (name, program, entry, [(args, status, {variable: value}, [output events] | None, result | None)], fuel)."""
    out = []

    def add(name, pf, runs, fuel=600):
        out.append((name, pf[0], pf[1], runs, fuel))

    I, CH = "int", "char"
    # P2: div truncates toward zero; mod is never negative; both are errors for a zero divisor, mod for a negative one
    add("div-mod", pp([ASG(V("r"), B("div", A, Bv)), ASG(V("s"), B("mod", A, Bv))]),
        [([7, 2], "ok", {"r": 3, "s": 1}), ([-7, 2], "ok", {"r": -3, "s": 1}), ([-8, 2], "ok", {"r": -4, "s": 0}), ([7, 0], "undefined", {}),
         ([-1, 3], "ok", {"r": 0, "s": 2}), ([MAXINT, 1], "ok", {"r": MAXINT, "s": 0})])
    add("div-negative-divisor", pp([ASG(V("r"), B("div", A, Bv))]), [([7, -2], "ok", {"r": -3}), ([-7, -2], "ok", {"r": 3})])
    add("mod-negative-divisor", pp([ASG(V("r"), B("mod", A, Bv))]), [([7, -2], "undefined", {}), ([7, 0], "undefined", {})])
    add("overflow", pp([ASG(V("r"), B("+", A, Bv)), ASG(V("s"), B("*", A, Bv))]),
        [([MAXINT, 1], "undefined", {}), ([MAXINT, 0], "ok", {"r": MAXINT, "s": 0}), ([46341, 46341], "undefined", {}), ([-46340, 46340], "ok", {"r": 0, "s": -2147395600}),
         ([-MAXINT, -1], "undefined", {}), ([-MAXINT, 1], "ok", {"r": -MAXINT + 1, "s": -MAXINT})])
    # P6: undefined variables
    add("undefined-variable", pp([IF(B(">", A, L(0)), [ASG(V("s"), L(1))]), ASG(V("r"), V("s"))]), [([1, 0], "ok", {"r": 1, "s": 1}), ([0, 0], "undefined", {})])
    # P8: for
    forp = pp([ASG(V("r"), L(0)), FOR("k", A, Bv, [ASG(V("r"), B("+", B("*", V("r"), L(10)), V("k")))])], globs=[("k", INT)])
    add("for-to", forp, [([1, 3], "ok", {"r": 123}), ([3, 3], "ok", {"r": 3}), ([4, 3], "ok", {"r": 0}), ([-1, 1], "ok", {"r": -99})])
    add("for-downto", pp([ASG(V("r"), L(0)), FOR("k", A, Bv, [ASG(V("r"), B("+", B("*", V("r"), L(10)), V("k")))], False)], globs=[("k", INT)]),
        [([3, 1], "ok", {"r": 321}), ([1, 3], "ok", {"r": 0}), ([2, 2], "ok", {"r": 2})])
    add("for-variable-undefined-afterwards", pp([FOR("k", A, Bv, [ASG(V("r"), V("k"))]), ASG(V("s"), V("k"))], globs=[("k", INT)]),
        [([1, 3], "undefined", {}), ([5, 3], "undefined", {})])
    add("for-bounds-once", pp([ASG(V("r"), L(0)), ASG(V("n"), Bv), FOR("k", A, V("n"), [ASG(V("n"), L(0)), ASG(V("r"), B("+", V("r"), L(1)))])], globs=[("k", INT), ("n", INT)]),
        [([1, 4], "ok", {"r": 4, "n": 0}), ([1, 1], "ok", {"r": 1})])
    add("for-maxint", pp([ASG(V("r"), L(0)), FOR("k", B("-", A, L(1)), A, [ASG(V("r"), B("+", V("r"), L(1)))])], globs=[("k", INT)]), [([MAXINT, 0], "ok", {"r": 2})])
    add("repeat-at-least-once", pp([ASG(V("r"), L(0)), REPEAT([ASG(V("r"), B("+", V("r"), L(1)))], B(">=", V("r"), A))]), [([0, 0], "ok", {"r": 1}), ([3, 0], "ok", {"r": 3})])
    add("while-zero-times", pp([ASG(V("r"), L(0)), WHILE(B("<", V("r"), A), [ASG(V("r"), B("+", V("r"), L(2)))])]), [([0, 0], "ok", {"r": 0}), ([3, 0], "ok", {"r": 4})])
    # P9: case
    arms = [([L(1)], [ASG(V("r"), L(10))]), ([L(2), L(-3)], [ASG(V("r"), L(20))])]
    add("case-no-match-is-an-error", pp([ASG(V("r"), L(0)), CASE(A, arms)]), [([1, 0], "ok", {"r": 10}), ([-3, 0], "ok", {"r": 20}), ([5, 0], "undefined", {})])
    add("case-else", pp([ASG(V("r"), L(0)), CASE(A, arms, [ASG(V("r"), L(99))])]), [([2, 0], "ok", {"r": 20}), ([5, 0], "ok", {"r": 99})])
    # P7: parameters
    add2 = PROC("two", [P("x", INT, True), P("y", INT, True)], [], [ASG(V("x"), B("+", V("x"), L(1))), ASG(V("y"), B("*", V("y"), L(10)))])
    add("var-parameter-aliasing", pp([ASG(V("r"), A), ASG(V("s"), Bv), CALL("two", V("r"), V("r")), CALL("two", V("s"), V("r"))], subs=[add2]),
        [([1, 5], "ok", {"r": 200, "s": 6}), ([0, 0], "ok", {"r": 100, "s": 1})])
    valp = PROC("val", [P("x", INT)], [], [ASG(V("x"), B("+", V("x"), L(1))), ASG(V("s"), V("x"))])
    add("value-parameter-is-a-copy", pp([ASG(V("r"), A), CALL("val", V("r"))], subs=[valp]), [([1, 0], "ok", {"r": 1, "s": 2})])
    arr = ARR(2, 4, INT)
    sw = PROC("swap", [P("x", INT, True), P("y", INT, True)], [("t", INT)], [ASG(V("t"), V("x")), ASG(V("x"), V("y")), ASG(V("y"), V("t"))])
    add("var-parameter-array-element", pp([ASG(IDX("w", L(2)), A), ASG(IDX("w", L(4)), Bv), ASG(V("r"), L(2)), CALL("swap", IDX("w", V("r")), IDX("w", L(4))), ASG(V("r"), IDX("w", L(2))), ASG(V("s"), IDX("w", L(4)))],
                                           subs=[sw], globs=[("w", arr)]), [([1, 5], "ok", {"r": 5, "s": 1})])
    add("index-out-of-range", pp([ASG(IDX("w", A), L(1)), ASG(V("r"), IDX("w", A))], globs=[("w", arr)]), [([2, 0], "ok", {"r": 1}), ([4, 0], "ok", {"r": 1}), ([1, 0], "undefined", {}), ([5, 0], "undefined", {})])
    fil = PROC("fill", [P("t", arr, True), P("v", INT)], [("k", INT)], [FOR("k", L(2), L(4), [ASG(IDX("t", V("k")), B("+", V("v"), V("k")))])])
    add("var-parameter-array", pp([CALL("fill", V("w"), A), ASG(V("r"), IDX("w", L(2))), ASG(V("s"), IDX("w", L(4)))], subs=[fil], globs=[("w", arr)]), [([10, 0], "ok", {"r": 12, "s": 14})])
    # functions, recursion
    fact = FUNC("fact", [P("x", INT)], INT, [], [IF(B("=", V("x"), L(0)), [RES("fact", L(1))], [RES("fact", B("*", V("x"), CALL("fact", B("-", V("x"), L(1)))))])])
    add("recursion", pp([ASG(V("r"), CALL("fact", A))], subs=[fact]), [([0, 0], "ok", {"r": 1}), ([5, 0], "ok", {"r": 120}), ([12, 0], "ok", {"r": 479001600}), ([13, 0], "undefined", {})], fuel=2000)
    nores = FUNC("nores", [P("x", INT)], INT, [], [IF(B(">", V("x"), L(0)), [RES("nores", L(1))])])
    add("function-result-undefined", pp([ASG(V("r"), CALL("nores", A))], subs=[nores]), [([1, 0], "ok", {"r": 1}), ([0, 0], "undefined", {})])
    add("function-entry", (PROG([("s", INT)], [fact], []), "fact"), [([4], "ok", {}, None, 24)])
    # P4 / P5: and / or, evaluation order
    side = FUNC("side", [P("x", INT)], BOOL, [], [ASG(V("s"), B("+", V("s"), L(1))), RES("side", B(">", V("x"), L(0)))])
    pure = FUNC("pure", [P("x", INT)], BOOL, [("l", INT)], [ASG(V("l"), V("x")), RES("pure", B(">", V("l"), L(0)))])
    add("and-right-operand-error", pp([ASG(V("q"), B("and", B("<>", A, L(0)), B(">", B("div", L(10), A), L(1))))]), [([0, 0], "unspec", {}), ([2, 0], "ok", {"q": 1}), ([20, 0], "ok", {"q": 0})])
    add("or-right-operand-side-effect", pp([ASG(V("s"), L(0)), ASG(V("q"), B("or", B(">", A, L(0)), CALL("side", Bv)))], subs=[side]),
        [([1, 1], "unspec", {}), ([0, 1], "ok", {"q": 1, "s": 1}), ([0, 0], "ok", {"q": 0, "s": 1})])
    add("and-right-operand-pure-call", pp([ASG(V("q"), B("and", B(">", A, L(0)), CALL("pure", Bv)))], subs=[pure]), [([0, 1], "ok", {"q": 0}), ([1, 1], "ok", {"q": 1}), ([1, 0], "ok", {"q": 0})])
    bump = FUNC("bump", [P("x", INT)], INT, [], [ASG(V("s"), B("+", V("s"), V("x"))), RES("bump", V("s"))])
    add("operands-interfere", pp([ASG(V("s"), L(1)), ASG(V("r"), B("+", CALL("bump", A), V("s")))], subs=[bump]), [([1, 0], "unspec", {})])
    add("calls-sequenced-by-statements", pp([ASG(V("s"), L(1)), ASG(V("r"), CALL("bump", A)), ASG(V("r"), B("+", V("r"), CALL("bump", Bv)))], subs=[bump]), [([1, 2], "ok", {"r": 6, "s": 4})])
    add("calls-in-separate-statements", pp([ASG(V("s"), L(1)), ASG(V("r"), CALL("bump", A)), ASG(V("t"), CALL("bump", Bv)), ASG(V("r"), B("+", B("*", V("r"), L(100)), V("t")))], subs=[bump], globs=[("t", INT)]),
        [([1, 2], "ok", {"r": 204, "s": 4})])
    # P1 / P6: ordinal types
    sr = SUB(-3, 10)
    add("subrange-range-check", pp([ASG(V("u"), A), ASG(V("r"), B("+", V("u"), L(1)))], globs=[("u", sr)]), [([10, 0], "ok", {"r": 11, "u": 10}), ([-3, 0], "ok", {"r": -2}), ([11, 0], "undefined", {}), ([-4, 0], "undefined", {})])
    add("enum-order-succ-pred", pp([ASG(V("e"), BI("succ", A, 4)), ASG(V("r"), BI("ord", V("e"))), ASG(V("q"), B("<", A, V("e")))], params=(("a", COLOR), ("b", COLOR)), globs=[("e", COLOR)]),
        [([0, 0], "ok", {"r": 1, "q": 1, "e": 1}), ([2, 0], "ok", {"r": 3}), ([3, 0], "undefined", {})])
    add("char-ord-chr", pp([ASG(V("c"), BI("chr", B("+", BI("ord", A), L(1)))), ASG(V("r"), BI("ord", V("c"))), ASG(V("q"), B("<", A, V("c")))], params=(("a", CHAR), ("b", CHAR)), globs=[("c", CHAR)]),
        [([97, 0], "ok", {"r": 98, "q": 1, "c": 98}), ([255, 0], "undefined", {})])
    add("required-functions", pp([ASG(V("r"), B("+", BI("abs", A), BI("sqr", Bv))), ASG(V("q"), BI("odd", A)), ASG(V("s"), B("-", BI("succ", A), BI("pred", Bv)))]),
        [([-7, 3], "ok", {"r": 16, "q": 1, "s": -8}), ([4, -2], "ok", {"r": 8, "q": 0, "s": 8}), ([0, 46341], "undefined", {}), ([MAXINT, 0], "undefined", {})])
    add("records", pp([ASG(FLD("p", "x"), A), ASG(FLD("p", "ok"), B("<", A, Bv)), ASG(V("r"), FLD("p", "x")), ASG(V("q"), FLD("p", "ok")), ASG(V("s"), FLD("p", "y"))], globs=[("p", PAIR)]),
        [([1, 2], "undefined", {})])
    add("boolean-operators", pp([ASG(V("q"), B("=", B("or", B("and", A, U("not", Bv)), B("<", A, Bv)), A))], params=(("a", BOOL), ("b", BOOL))),
        [([0, 0], "ok", {"q": 1}), ([0, 1], "ok", {"q": 0}), ([1, 0], "ok", {"q": 1}), ([1, 1], "ok", {"q": 0})])
    # P10: output
    ev = lambda k, v=None, w=None: {"k": k, "v": v, "w": w}
    add("write", pp([WRITE(A, (Bv, L(3))), WRITE(CL("x"), ln=True), WRITE(ln=True)]), [([5, -2], "ok", {}, [ev("int", 5), ev("int", -2, 3), ev("char", 120), ev("ln"), ev("ln")])])
    add("write-width-error", pp([WRITE((A, Bv))]), [([5, 0], "undefined", {}), ([5, 1], "ok", {}, [ev("int", 5, 1)])])
    add("fuel", pp([WHILE(BL(True), [ASG(V("r"), L(1))])]), [([0, 0], "fuel", {})], fuel=60)
    add("program-block", mp([ASG(V("r"), L(2)), ASG(V("s"), B("*", V("r"), L(21)))]), [([], "ok", {"r": 2, "s": 42})])
    return out


def micro_cases():
    cases = []
    for name, prog, fn, runs, fuel in micro_programs():
        expect = []
        for run in runs:
            status, gl = run[1], run[2]
            outv = run[3] if len(run) > 3 else None
            resv = run[4] if len(run) > 4 else None
            expect.append({"status": status, "globals": [{"name": n, "w": pasgen.limbs(v)} for n, v in gl.items()],
                           "hasout": outv is not None,
                           "out": [{"k": e["k"], "v": pasgen.limbs(e["v"]) if e["v"] is not None else [], "hasw": e["w"] is not None,
                                    "wd": pasgen.limbs(e["w"]) if e["w"] is not None else []} for e in (outv or [])],
                           "ret": pasgen.limbs(resv) if resv is not None else []})
        cases.append({"id": name, "prog": pasgen.to_src(prog), "fn": fn, "argv": [[pasgen.limbs(v) for v in r[0]] for r in runs], "fuel": fuel, "expect": expect})
    return cases


def model_check(ctx):
    cases = micro_cases()
    path = ctx.trace_file(cases, "micro.json")
    obsdir = tempfile.mkdtemp(prefix="mcacts_", dir=ctx.workdir)
    grid = 25 if ctx.tier == "thorough" else 13
    res = ctx.tlc("PasSrc_MC", MC_CFG % grid, label="PasSrc_MC laws + micro programs", env={"TRACE_FILE": path, "OBS_DIR": obsdir},
                  continue_=True, workers=WORKERS, coverage=False)
    os.unlink(path)
    if res.errors:
        msgs = []
        for e in res.errors[:6]:
            st = e.last
            i = st.get("i")
            msgs.append("%s %s case=%s state=%s %s" % (
                e.kind, e.name, cases[i - 1]["id"] if isinstance(i, int) and 0 < i <= len(cases) else "-",
                {k: str(v)[:300] for k, v in st.items() if k in ("i", "av", "lw", "status", "why", "ret")},
                e.text[:600] if e.kind == "eval" else ""))
        raise MachineryError("PasSrc.tla fails its own model check:\n" + "\n".join(msgs))
    seen = {}
    nruns = 0
    for fn in os.listdir(obsdir):
        with open(os.path.join(obsdir, fn)) as fh:
            r = json.load(fh)
        nruns += 1
        for a in r["acts"]:
            seen[a] = seen.get(a, 0) + 1
    shutil.rmtree(obsdir, ignore_errors=True)
    want = sum(len(c["argv"]) for c in cases)
    missing = [a for a in SRC_ACTIONS if a not in seen]
    if nruns != want or missing:
        raise MachineryError("PasSrc_MC: %d of %d micro runs finished; actions never taken: %s" % (nruns, want, missing))
    ctx.cov["mc_actions_taken_by_micro_programs"] = seen
    ctx.cov["mc_micro_programs"] = len(cases)
    ctx.cov["mc_micro_runs"] = want
    ctx.cov["mc_law_instances"] = grid * grid


# ------------------------------------------------------------------ invalid programs (diagnostics, never an internal error)
DIAG_CFG = """INIT Init
NEXT Next
CHECK_DEADLOCK FALSE
INVARIANT Conforms
"""


def invalid_programs(prog_src):
    """Grammatical or lexical variants of a valid program that break one rule of the language: (rule, source)."""
    k = prog_src.rfind("begin")
    ins = lambda stmt: prog_src[:k] + "begin\n " + stmt + ";\n" + prog_src[k + len("begin"):]
    out = [("undeclared-variable", ins("zz9 := 1")), ("undeclared-in-expression", ins("r := zz8 + 1")), ("undeclared-procedure", ins("nosuch(1, 2)")),
           ("condition-not-boolean", ins("if r then r := 1")), ("while-not-boolean", ins("while r + 1 do r := 1")),
           ("until-not-boolean", ins("repeat r := 1 until r")), ("and-on-integers", ins("q := r and s")),
           ("unknown-type", prog_src.replace("var\n", "var\n  zv: nosuchtype;\n", 1)), ("duplicate-variable", prog_src.replace("var\n", "var\n  r: integer;\n", 1)),
           ("missing-end", prog_src.replace("end.", ".")), ("missing-then", ins("if q r := 1")), ("missing-do", ins("while q r := 1")),
           ("bad-token", ins("r := 1 ? 2")), ("unbalanced-parenthesis", ins("r := (1 + 2")), ("assignment-without-expression", ins("r := ")),
           ("index-of-scalar", ins("r[1] := 2")), ("field-of-scalar", ins("r.x := 2")), ("missing-program-heading", prog_src.split("\n", 1)[1]),
           ("wrong-argument-count", ins("probe(1)")), ("for-without-to", ins("for r := 1 do s := 1")), ("case-on-boolean-constant-type", ins("case r of true: r := 1; else r := 2; end")),
           ("unterminated-string", ins("write('abc)")), ("call-of-variable", ins("r := s(1)")), ("text-after-end", prog_src + "begin end.")]
    return out


def diag_records(ctx):
    from ppci.common import CompilerError

    base, _ = pp([ASG(V("r"), B("+", A, Bv))])
    src = pasgen.render(base)
    recs = []
    for rule, bad in invalid_programs(src):
        try:
            pas_compile(bad, "x86_64")
            outcome = "accepted"
        except Exception as e:
            outcome = "diag" if isinstance(e, CompilerError) else "error:" + type(e).__name__
        recs.append({"id": "invalid:" + rule, "rule": rule, "outcome": outcome, "src": bad[-300:]})
    return recs


# ------------------------------------------------------------------ the engine
class Engine:
    LEVEL = "model_checking"

    def run(self, ctx):
        replay = ctx.only is not None and bool((ctx.only.get("case") or {}).get("item"))
        thorough = ((ctx.only or {}).get("tier") if replay else ctx.tier) == "thorough"
        ctx.rule("(a) systematic probes: one micro program per construct (5 arithmetic operators incl. div / mod over all sign "
                 "combinations and boundary values, 6 relational operators x integer / char / Boolean / enumerated, and / or / not, if, "
                 "while, repeat, for to / downto incl. zero-trip, bounds evaluated once, nested, char control variable, case with / "
                 "without else, multiple and negative labels, char / enum selectors, procedures with value parameters, locals, "
                 "shadowing, recursion, functions incl. recursion and Boolean results, variable parameters incl. aliasing, array "
                 "elements, whole arrays, passing on, arrays with lower bound 0 / 1 / negative / 5 incl. the last element, local arrays, "
                 "char / Boolean elements, records, enumerated / subrange / char variables, the required functions ord chr succ pred abs "
                 "sqr odd, write / writeln with and without field width) run on boundary-value argument vectors through the entry "
                 "procedure probe(a, b); (b) random whole programs of harness/pasgen.py (0-3 routines, nested bounded loops, case, "
                 "arrays, records, calls, output).  Each (program, vector) is executed by TLC under PasSrc.tla; those ending 'ok' are "
                 "compared by TLC with the execution of the IR that pascal_to_ir emits under IR.tla.  distinct = distinct (program, "
                 "vector) pairs compared (PasSrc status ok); erroneous (ISO 'error') / implementation-dependent executions are skipped "
                 "and counted; (c) 24 programs that break one static or syntactic rule: the front-end must answer with a diagnostic")
        ctx.assume("harness/pasgen.py render prints the abstract program faithfully as Pascal text; the same AST is what PasSrc.tla reads")
        ctx.assume("harness/project_ir.py reports the IR module faithfully; IR.tla is the meaning of ppci IR (as for C02)")
        ctx.assume("PasSrc.tla is the meaning of Pascal for this fragment: rules P1-P10 in its header, taken from ISO 7185:1990 (clause numbers given there)")
        ctx.assume("the representation of Pascal values in ppci's IR stated in the header of PasSrc_IR.tla (ordinal values as int-sized words at the variable's address, "
                   "char as one byte, write -> write_int(value, 10, width) / bsp_putc)")
        from ppci.arch import get_arch

        for march, pb in MARCHES:
            info = get_arch(march).info
            if info.get_size("int") != 4 or info.get_size("ptr") != pb:
                raise MachineryError("PasSrc.tla assumes integer = 4 bytes, pointers %d bytes on %s" % (pb, march))
        if not replay:
            model_check(ctx)
            self.diagnostics(ctx)
        marches = MARCHES if thorough else MARCHES[:1]
        known_classes = {c for k in ctx.known for c in [construct_class(k["key"].split(":", 1)[1])] if c}
        # X01_ALLOW=class,class: generate these construct classes although a known finding is listed for them
        # (used with VERIF_REPO=<tree with a candidate fix> to confirm the fix before the entry is retired)
        known_classes -= set(filter(None, os.environ.get("X01_ALLOW", "").split(",")))
        allp = list(probes())
        items = []
        import fnmatch

        for key, prog, fn, vecs in allp:
            if any(fnmatch.fnmatchcase("X01:" + key, k["key"]) for k in ctx.known):
                vecs = vecs[:4 if thorough else 2]     # a listed finding: shown on a few vectors (every failing execution costs TLC an error trace)
            if not thorough and len(vecs) > QUICK_VECTORS:
                keep = sorted(ctx.rng.sample(range(len(vecs)), QUICK_VECTORS))
                vecs = [vecs[k] for k in keep]
            elif len(vecs) > 60:
                keep = sorted(ctx.rng.sample(range(len(vecs)), 60))
                vecs = [vecs[k] for k in keep]
            items.append(make_item(key, prog, fn, vecs, "probe"))
        ctx.cov["probes_total"] = len(allp)
        stat = {}
        if thorough:
            failing = self.stage(ctx, items, "probes", stat, marches)
            classes = sorted(known_classes | {c for k in failing for c in [construct_class(k)] if c})
            self.stage(ctx, random_items(ctx, THOROUGH_PROGRAMS, classes), "random", stat, marches)
        else:
            classes = sorted(known_classes)
            self.stage(ctx, items + random_items(ctx, QUICK_PROGRAMS, classes), "probes+random", stat, marches)
        ctx.cov["construct_classes_avoided_in_random_programs"] = classes
        ctx.cov["src_status"] = stat
        tot = sum(v for k, v in stat.items() if ":" not in k)
        ctx.cov["compared_ratio"] = round(stat.get("ok", 0) / max(1, tot), 3)
        rt = sum(v for k, v in stat.items() if k.startswith("random:"))
        ctx.cov["compared_ratio_random_programs"] = round(stat.get("random:ok", 0) / max(1, rt), 3)

    def diagnostics(self, ctx):
        from harness import core

        recs = diag_records(ctx)
        ctx.cov["invalid_programs"] = len(recs)
        ctx.cov["invalid_outcomes"] = {}
        for r in recs:
            ctx.cov["invalid_outcomes"][r["outcome"]] = ctx.cov["invalid_outcomes"].get(r["outcome"], 0) + 1
            ctx.count(r["id"])
        core.eval_records(ctx, "PasSrc_Diag", DIAG_CFG, recs, keyfn=lambda r: "X01:" + r["id"],
                          whatfn=lambda r, e: "a program that breaks the rule '%s' must be rejected with a CompilerError diagnostic; the front-end answered: %s" % (r["rule"], r["outcome"]),
                          label="invalid programs -> diagnostics", workers=2, coverage=False)

    def stage(self, ctx, items, name, stat, marches):
        """Compile, execute under PasSrc.tla, judge against the IR; returns the keys of the items with a violation."""
        if ctx.only is not None and (ctx.only.get("case") or {}).get("item"):
            want = ctx.only["case"]["item"]
            items = [it for it in items if it["key"] == want]
        ctx.cov["programs_generated"] = ctx.cov.get("programs_generated", 0) + len(items)
        items = compile_items(ctx, items, marches)
        ctx.cov["programs_compiled"] = ctx.cov.get("programs_compiled", 0) + sum(
            1 for it in items if all(pm["name"] != "not-translated" for pm in it["pm"].values()))
        obs = run_src(ctx, items, "PasSrc executions (%s)" % name)
        bad = self.judge(ctx, items, obs, "PasSrc vs IR (%s)" % name, marches)
        return self.account(ctx, items, obs, bad, stat)

    def judge(self, ctx, batch, obs, label, marches):
        """One TLC run over all (item, target) cases; returns {(item, vector): [(clause, state, target)]}."""
        oks = [[a for a in range(len(it["vecs"])) if obs[(k, a)]["status"] == "ok"] for k, it in enumerate(batch)]
        where = [(k, march) for k in range(len(batch)) if oks[k] for march, _ in marches]
        cases = []
        for k, march in where:
            it = batch[k]
            cases.append({"id": it["key"] + "@" + march, "mods": [it["pm"][march]], "fn": entry_name(it),
                          "argv": [it["ir_argv"][march][a] for a in oks[k]], "ext": [],
                          # the IR may take IR_FACTOR instructions per PasSrc transition (a transition is one statement / one loop test)
                          "fuel": IR_FACTOR * max(obs[(k, a)]["steps"] for a in oks[k]) + 1500,
                          "obs": [{x: obs[(k, a)][x] for x in ("status", "ret", "globals", "out")} for a in oks[k]]})
        bad = {}
        if not cases:
            return bad
        path = ctx.trace_file(cases, "ir.json")
        res = ctx.tlc("PasSrc_IR", IR_CFG, label=label, env={"TRACE_FILE": path}, continue_=True, workers=WORKERS, heap="12g", coverage=False)
        os.unlink(path)
        for e in res.errors:
            st = e.last
            i, av = st.get("i"), st.get("av")
            if e.kind != "invariant" or not isinstance(i, int) or i < 1 or i > len(cases) or not isinstance(av, int) \
                    or av < 1 or av > len(oks[where[i - 1][0]]):
                raise MachineryError("unexpected TLC error in the PasSrc_IR run: %s\n%s" % (e, e.text[:1500]))
            k, march = where[i - 1]
            bad.setdefault((k, oks[k][av - 1]), []).append((e.name, st, march))
        return bad

    def account(self, ctx, batch, obs, bad, stat):
        reported = set()
        failing = set()
        for k, it in enumerate(batch):
            for a in range(len(it["vecs"])):
                o = obs[(k, a)]
                st = o["status"]
                stat[st] = stat.get(st, 0) + 1
                kind = it["kind"] + ":" + st
                stat[kind] = stat.get(kind, 0) + 1
                if st != "ok":
                    ctx.count(None, n=1)
                    continue
                ctx.count("%s|%s" % (it["key"], it["vecs"][a]))
                ctx.cov["traces_validated_against_impl"] += 1
                if (k, a) in bad:
                    clause, s, march = bad[(k, a)][0]
                    failing.add(it["key"])
                    if it["key"] in reported:
                        continue
                    reported.add(it["key"])
                    ctx.violation("X01:" + it["key"], describe(it, a, o, clause, s, march),
                                  {"item": it["key"], "source": it["src"], "args": it["vecs"][a], "clause": clause, "march": march,
                                   "expected": {"ret": o["ret"], "globals": o["globals"], "out": o["out"]},
                                   "ir_state": {x: s.get(x) for x in ("status", "why", "ret")}, "frontend": it["fe"][march]})
        for it in batch[:2]:
            ctx.sample({"key": it["key"], "args": it["vecs"][:2], "source": it["src"][:400]}, limit=4)
        return failing
