"""X03 — WebAssembly -> IR translation (ppci.wasm.wasm_to_ir) preserves behaviour (Wasm.tla + W2I.tla over IR.tla).

M: W2I_MC.tla — the address map of the runtime contract (linear memory behind the pointer wasm_mem0_address, moved by
   every memory.grow; address computation as wasm2ppci emits it, pointer size 4 and 8) model-checked against the
   memory instructions of Wasm.tla for every sequence of <= MaxOps loads / stores / grows over boundary operands.
T: harness/wasmgen.py builds valid integer modules (directed: every i32/i64 instruction on boundary operands, every
   load/store width at the memory edges, control nesting, br_table, calls, call_indirect, start, data, imports;
   seeded random ones) plus the modules of this file (multi-value functions, conditions used as values, memory.grow
   between address and store, br_table); each is parsed by ppci, projected (harness/project_wasm.py), translated by
   wasm_to_ir with pointer size 4 (python target) and 8 (native target) and the IR module projected
   (harness/project_ir.py).
   TLC run 1 (Wasm_Run.NextEmit): Wasm.tla executes the source module: instantiation, then every exported call of
   the trace on the same instance; the observation per call index is printed.
   TLC run 2 (W2I.tla): IR.tla executes the translated module under the runtime contract (W2I.tla: _run_init,
   tables / element segments / memory / data set up as ppci's instantiate does, start function, the IR function of
   each export, wasm_rt_* calls, linear memory behind wasm_mem0_address) and the invariants XOutcome / XResult /
   XGlobals / XMemory / XCalls / XMapping compare with the observation of run 1, call by call.
   Judged: calls for which Wasm.tla says ok or trap(unreachable); every other wasm outcome (traps ppci does not
   implement, out of model, fuel) is skipped and counted.
A module object is also translated a second time (what instantiating the same Module twice does): the second IR
module must behave as the source as well.
"""
import contextlib
import io
import os
import random

from engines import c22, c23
from harness import core, project_ir, project_wasm, wasmgen
from harness.tlc import MachineryError
from harness.watchdog import CallTimeout, limited
from harness.wasmgen import (C, ELSE, END, I32, I64, Mod, block, br, br_if, br_table, bt_idx, bt_val, call, const, gget,
                             gset, if_, ins, item, lget, loop, lset, ltee, mem, simple)

MC_CFG = """CONSTANT MaxOps = %d
CONSTANT MaxPg = 3
INIT Init
NEXT Next
CHECK_DEADLOCK FALSE
INVARIANT Refines
INVARIANT InBoundsMap
INVARIANT GrowSame
INVARIANT BaseMoves
INVARIANT MCTypeOK
"""
EMIT_CFG = """INIT Init
NEXT NextEmit
CHECK_DEADLOCK FALSE
INVARIANT TypeOK
"""
W2I_CFG = """INIT XInit
NEXT XNext
CHECK_DEADLOCK FALSE
INVARIANT XOutcome
INVARIANT XResult
INVARIANT XGlobals
INVARIANT XMemory
INVARIANT XCalls
INVARIANT XMapping
INVARIANT XTypeOK
"""
CLAUSES = ["XOutcome", "XResult", "XGlobals", "XMemory", "XCalls", "XMapping", "XTypeOK"]
WASM_FUEL = 3000
MAXCALLS = 30


# ---------------------------------------------------------------------------------------------------
# modules of this engine (beyond harness/wasmgen.directed)
# ---------------------------------------------------------------------------------------------------
def m_multivalue():
    """Functions with two results (translated to a procedure with a result-area pointer), called directly and
    through the table; blocks whose type is a type index with two results; a loop with two parameters."""
    m = Mod()
    m.memory(1, 1)
    m.table(2)
    t2 = m.type([I32, I64], [I64, I32])
    f_swap = m.func([I32, I64], [I64, I32], [], [lget(1), lget(0)])
    f_divmod = m.func([I32, I32], [I32, I32], [], [lget(0), lget(1), simple("i32.div_u"), lget(0), lget(1),
                                                     simple("i32.rem_u")])
    m.elem(0, [f_swap])
    m.func([I32, I64], [I64], [], [lget(0), lget(1), call(f_swap), simple("i64.extend_i32_s"), simple("i64.sub")],
           export="swapsub")
    m.func([I32, I32], [I32], [], [lget(0), lget(1), call(f_divmod), const(I32, 1000), simple("i32.mul"),
                                   simple("i32.add")], export="divmod")
    m.func([I32, I64], [I64], [], [lget(0), lget(1), const(I32, 0), ins("call_indirect", type=t2, table=0),
                                   simple("drop")], export="ind_swap")
    tb = m.type([], [I32, I32])
    m.func([I32], [I32], [], [block(bt_idx(tb)), const(I32, 7), lget(0), lget(0), br_if(0), simple("drop"),
                              const(I32, 9), END, simple("i32.sub")], export="block2")
    tl = m.type([I32, I32], [I32, I32])
    # loop with two parameters (a, acc): acc += a; a -= 1 until a = 0; leaves (0, acc)
    m.func([I32], [I32], [I32, I32], [lget(0), const(I32, 0), loop(bt_idx(tl)), lset(2), lset(1),
                                      lget(1), const(I32, 1), simple("i32.sub"), lget(2), lget(1), simple("i32.add"),
                                      lget(1), const(I32, 1), simple("i32.gt_s"), br_if(0), END,
                                      simple("i32.add")], export="loop2")
    calls = [C("swapsub", [5, 100], [I32, I64]), C("swapsub", [-1, -(1 << 63)], [I32, I64]),
             C("divmod", [17, 5], [I32, I32]), C("divmod", [-1, 7], [I32, I32]), C("ind_swap", [3, 1 << 40], [I32, I64]),
             C("block2", [0], [I32]), C("block2", [5], [I32]), C("loop2", [1], [I32]), C("loop2", [4], [I32])]
    return item("x03_multivalue", m, [calls])


def m_conditions():
    """Comparison results used as values (wasm2ppci keeps them symbolic on its value stack): stored, added, passed,
    returned, selected, teed; select / if / br_if on values that are not comparisons."""
    m = Mod()
    g = m.glob(I32, True, 0, export="g")
    f_id = m.func([I32], [I32], [], [lget(0)])
    for t in (I32, I64):
        m.func([t, t], [I32], [], [lget(0), lget(1), simple(t + ".lt_u"), lget(0), lget(1), simple(t + ".eq"),
                                   const(I32, 2), simple("i32.mul"), simple("i32.add"), lget(0), lget(1),
                                   simple(t + ".ge_s"), const(I32, 4), simple("i32.mul"), simple("i32.add")],
               export="sum_" + t)
        m.func([t, t], [I32], [I32], [lget(0), lget(1), simple(t + ".gt_u"), ltee(2), gset(g), lget(2), call(f_id),
                                      gget(g), simple("i32.add")], export="tee_" + t)
        m.func([t, t], [t], [], [lget(0), lget(1), lget(0), lget(1), simple(t + ".lt_s"), simple("select")],
               export="min_" + t)
        m.func([t, t], [I32], [], [lget(0), lget(1), simple(t + ".le_u"), lget(0), simple(t + ".eqz"),
                                   lget(1), simple(t + ".eqz"), simple("select")], export="selcmp_" + t)
    m.func([I32, I32, I32], [I32], [], [lget(0), lget(1), lget(2), simple("select")], export="sel")
    m.func([I32], [I32], [], [lget(0), if_(bt_val(I32)), const(I32, 1), ELSE, const(I32, 2), END], export="ifv")
    m.func([I32], [I32], [], [block(bt_val(I32)), const(I32, 1), lget(0), br_if(0), simple("drop"), const(I32, 2), END],
           export="brv")
    m.func([I32, I32], [I32], [], [lget(0), lget(1), simple("i32.lt_s"), simple("i32.eqz")], export="not")
    m.func([I32, I32], [I32], [], [lget(0), lget(1), simple("i32.ne"), simple("drop"), lget(0), lget(1),
                                   simple("i32.gt_s")], export="dropcmp")
    calls = []
    pts = [(0, 0), (1, 2), (2, 1), (-1, 1), (1, -1), (-(1 << 31), (1 << 31) - 1)]
    for t in (I32, I64):
        pp = pts + ([(-(1 << 63), (1 << 63) - 1), (1 << 32, 1)] if t == I64 else [])
        for a, b in pp:
            for f in ("sum_", "tee_", "min_", "selcmp_"):
                calls.append(C(f + t, [a, b], [t, t]))
    for c in (0, 1, -1, 256, 1 << 31):
        calls.append(C("sel", [11, 22, wasmgen.signed(c, I32)], [I32, I32, I32]))
        calls.append(C("ifv", [wasmgen.signed(c, I32)], [I32]))
        calls.append(C("brv", [wasmgen.signed(c, I32)], [I32]))
    for a, b in pts:
        calls.append(C("not", [a, b], [I32, I32]))
        calls.append(C("dropcmp", [a, b], [I32, I32]))
    return item("x03_conditions", m, [calls])


def m_growstore():
    """memory.grow between the evaluation of an address and the access (the memory moves), memory.size after it."""
    m = Mod()
    m.memory(1, 4)
    m.data(8, [1, 2, 3, 4])
    m.func([I32], [I32], [], [lget(0), const(I32, 1), ins("memory.grow", m=0), mem("i32.store"), lget(0),
                              mem("i32.load")], export="store_grow")
    m.func([I32], [I32], [], [const(I32, 1), ins("memory.grow", m=0), simple("drop"), lget(0), mem("i32.load")],
           export="grow_load")
    m.func([I32], [I32], [], [lget(0), mem("i32.load"), const(I32, 0), ins("memory.grow", m=0), simple("i32.add"),
                              ins("memory.size", m=0), simple("i32.add")], export="load_grow0")
    m.func([I32, I64], [I64], [], [lget(0), lget(1), mem("i64.store", 65536), lget(0), mem("i64.load32_u", 65540)],
           export="far")
    # two accesses of one function with a grow in between: the base pointer must be read again
    m.func([I32], [I32], [], [lget(0), mem("i32.load"), const(I32, 0), ins("memory.grow", m=0), simple("drop"), lget(0),
                              mem("i32.load16_u", 2), simple("i32.add"), lget(0), const(I32, 77), mem("i32.store8", 1),
                              lget(0), mem("i32.load"), simple("i32.xor")], export="load_grow_load")
    t1 = [C("store_grow", [16], [I32]), C("grow_load", [8], [I32]), C("load_grow0", [16], [I32]),
          C("far", [24, 0x1122334455667788], [I32, I64]), C("grow_load", [65536 + 24], [I32]),
          C("store_grow", [100], [I32]), C("load_grow0", [8], [I32]), C("load_grow_load", [8], [I32]),
          C("load_grow_load", [65536 + 24], [I32])]
    return item("x03_growstore", m, [t1, [C("grow_load", [8], [I32]), C("far", [0, -2], [I32, I64])]])


def m_brtable():
    m = Mod()
    g = m.glob(I64, True, 0, export="acc")
    body = [block(), block(), block(), lget(0), br_table([2, 0, 1], 2), END, const(I32, 10), simple("return"), END,
            const(I32, 20), simple("return"), END, const(I32, 30)]
    m.func([I32], [I32], [], body, export="three")
    m.func([I32], [I32], [], [block(bt_val(I32)), const(I32, 5), lget(0), br_table([0], 1), END, const(I32, 1),
                              simple("i32.add")], export="fnlabel")
    # br_table inside a loop: state machine counting into a global
    m.func([I32], [I64], [I32], [block(), loop(), block(), block(), lget(1), br_table([0, 1], 3), END,
                                 gget(g), const(I64, 1), simple("i64.add"), gset(g), const(I32, 1), lset(1), br(1), END,
                                 gget(g), const(I64, 100), simple("i64.add"), gset(g), lget(0), lset(1),
                                 lget(0), const(I32, 1), simple("i32.add"), lset(0), br(0), END, END, gget(g)],
           export="machine")
    calls = [C("three", [wasmgen.signed(k, I32)], [I32]) for k in (0, 1, 2, 3, -1)]
    calls += [C("fnlabel", [k], [I32]) for k in (0, 1, 2)]
    calls += [C("machine", [k], [I32]) for k in (0, 1, 2)]
    return item("x03_brtable", m, [calls])


def own_items():
    return [m_multivalue(), m_conditions(), m_growstore(), m_brtable()]


# ---------------------------------------------------------------------------------------------------
# translation
# ---------------------------------------------------------------------------------------------------
def has_op(mod, op):
    return any(i["op"] == op for f in mod["funcs"] for i in f["body"])


def translate(wm, pb):
    """-> (IR module | None, outcome)."""
    from ppci.arch.arch_info import TypeInfo
    from ppci.wasm import wasm_to_ir

    try:
        with contextlib.redirect_stdout(io.StringIO()):
            irm = limited(lambda: wasm_to_ir(wm, TypeInfo(pb, pb)), 30, "wasm_to_ir")
        return irm, "ok"
    except CallTimeout:
        return None, "timeout"
    except NotImplementedError as e:
        return None, "unsupported:" + str(e)[:40]
    except Exception as e:
        return None, "exc:" + type(e).__name__


def runtime_map(irm, pm, wp):
    """What the runtime knows about the translated module: ir module._wasm_info (names per wasm index space)."""
    info = irm._wasm_info
    gindex = {}
    for k, g in enumerate(pm["globals"]):
        gindex.setdefault(g["name"], k + 1)
    funcs = [gindex.get(n, 0) for n in info.function_names]
    return {"init": gindex.get("_run_init", 0),
            "start": gindex.get(info.start_name, 0) if info.start_name else 0,
            "globals": [gindex.get(n, 0) for _, n in info.global_names],
            "tables": [gindex.get(n, 0) for n in info.table_names],
            "elems": [gindex.get(n, 0) for n in info.elem_names],
            "mem0": gindex.get("wasm_mem0_address", 0),
            "exports": [{"name": e["name"], "g": funcs[e["idx"]] if 0 <= e["idx"] < len(funcs) else 0}
                        for e in wp["exports"] if e["kind"] == "func"],
            "imports": [{"w": im["name"], "x": "%s_%s" % (im["mod"], im["name"])}
                        for im in wp["imports"] if im["kind"] == "func"]}


def prepare(ctx, it, pbs, second):
    """Parse, project, translate.  -> list of variants {tag, pb, pm, rt} ; sets it['_wp']."""
    from ppci.wasm import Module

    wat = wasmgen.render_wat(it["mod"])
    it["wat"] = wat
    out = []
    jobs = [(pb, False) for pb in pbs] + ([(pbs[0], True)] if second else [])
    for pb, twice in jobs:
        tag = "@pb%d%s" % (pb, "~2nd" if twice else "")
        try:
            wm = Module(wat)
            wp = project_wasm.strip(project_wasm.project_module(wm))
        except Exception as e:   # ppci's parser: C21's business
            ctx.cov["parse_failed"] = ctx.cov.get("parse_failed", 0) + 1
            return []
        it.setdefault("_wp", wp)
        irm, outcome = translate(wm, pb)
        if irm is not None and twice:
            irm, outcome = translate(wm, pb)
        oc = ctx.cov.setdefault("translation_outcomes", {})
        oc[outcome.split(":")[0]] = oc.get(outcome.split(":")[0], 0) + 1
        if irm is None:
            if not outcome.startswith("unsupported"):
                ctx.violation("X03:%s%s@translate:%s" % (it["key"], tag, outcome),
                              "wasm_to_ir fails on a valid module of the integer subset (%s)" % outcome,
                              {"wat": wat, "outcome": outcome, "ptr_bytes": pb, "second_translation": twice})
            continue
        try:
            pm = project_ir.project_module(irm, ptr_bytes=pb)
            rt = runtime_map(irm, pm, wp)
        except Exception as e:
            ctx.violation("X03:%s%s@module:%s" % (it["key"], tag, type(e).__name__),
                          "the produced IR module / its _wasm_info cannot be inspected: %r" % e, {"wat": wat})
            continue
        out.append({"tag": tag, "pb": pb, "pm": pm, "rt": rt, "irm": irm})
    return out


def obs_to_json(o):
    ob = o["obs"]
    cells = ob["mem"]
    cells = cells[1] if isinstance(cells, tuple) else cells
    return {"status": ob["status"], "why": o["why"], "steps": o["steps"], "ret": ob["ret"], "glob": ob["glob"],
            "mem": sorted([a, b] for a, b in cells), "pages": ob["pages"],
            "calls": [{"name": c["name"], "args": c["args"]} for c in ob["calls"]]}


def corpus(ctx):
    rng = ctx.rng
    thorough = ctx.tier == "thorough"
    items = wasmgen.directed(random.Random(rng.randrange(1 << 30)), thorough) + own_items()
    for k in range(50 if thorough else 6):
        seed = rng.randrange(1 << 30)
        items.append(wasmgen.random_item(random.Random(seed), "rand%d" % seed, size=(1.0 + (k % 3) * 0.5) if thorough else 1.0,
                                         imports=(k % 4 == 3), ncalls=3 if thorough else 2, one_trace=True))
    return items


def irtext(irm):
    try:
        from ppci import irutils

        f = io.StringIO()
        irutils.Writer(f).write(irm)
        return f.getvalue()[:12000]
    except Exception:
        return ""


class Engine:
    LEVEL = "model_checking"

    def run(self, ctx):
        thorough = ctx.tier == "thorough"
        ctx.rule("M: W2I_MC (address map vs Wasm.tla memory instructions, all sequences of <= MaxOps operations over "
                 "boundary bases / offsets / widths / grow counts, pointer sizes 4 and 8).  T: directed wasmgen modules "
                 "(every i32/i64 instruction on boundary operands, all load/store widths at the memory edges, control, "
                 "br_table, calls, call_indirect, start, data, imports, multi-value, conditions as values, grow between "
                 "address and access) and seeded random valid modules, translated by wasm_to_ir with pointer size 4 / 8 "
                 "(and a second time from the same module object); each trace = fresh instance + sequence of export calls; "
                 "Wasm.tla's observation per call compared with IR.tla's (under the runtime contract of W2I.tla) by TLC; "
                 "distinct = distinct (module, pointer size, trace, call) judged")
        ctx.assume("harness/wasmgen.py renders valid modules; harness/project_wasm.py / project_ir.py report ppci's "
                   "wasm and IR modules faithfully")
        ctx.assume("runtime contract as read from ppci/wasm/execution: _run_init, then tables (record {data pointer, "
                   "size}), element segments copied from elem_<n>, memory base in wasm_mem0_address, data segments, start "
                   "function; exports and globals found through module._wasm_info; wasm_rt_* = Wasm.tla numerics; "
                   "memory.grow inside the declared maximum succeeds and moves the memory")
        ctx.assume("traps ppci's translation does not implement (division by zero / overflow, out-of-bounds accesses, "
                   "call_indirect checks) are not judged: only ok and trap(unreachable) outcomes of Wasm.tla are")
        if ctx.only is None:
            res = ctx.tlc("W2I_MC", MC_CFG % (3 if thorough else 2), label="address map vs Wasm.tla memory", workers=8)
            for e in res.errors:
                raise MachineryError("W2I_MC: the address map does not refine Wasm.tla's memory: %s\n%s" % (e, e.text[:800]))
            cov = core.tlcmod.action_coverage(res)
            ctx.cov["mc_action_coverage"] = {k: v for k, v in sorted(cov.items())}
            missing = [a for a in ("McStore", "McLoad", "McGrow") if not cov.get("W2I_MC." + a)]
            if cov and missing:
                raise MachineryError("W2I_MC does not take the actions %s" % missing)
        items = corpus(ctx)
        if ctx.only is not None:
            want = ctx.only["key"].split(":", 1)[1].split("#")[0].split("@")[0]
            items = [it for it in items if it["key"] == want]
        # ---- translate ---------------------------------------------------------------------------------
        work = []
        for k, it in enumerate(items):
            directed = not it["key"].startswith("rand")
            # pointer size matters where addresses are computed: memory, tables, calls; pure arithmetic alternates
            arith = it["key"].split("_")[0] in ("bin", "cmp", "unary")
            pbs = [4, 8] if (thorough and directed and not arith) else [4 if k % 2 == 0 else 8]
            second = has_op(it["mod"], "br_table") and (thorough or directed)
            vs = prepare(ctx, it, pbs, second)
            if vs:
                work.append((it, vs))
        ctx.cov["modules"] = len(work)
        if not work:
            return
        # ---- run 1: Wasm.tla on the source modules ----------------------------------------------------------
        # long traces are cut into pieces of <= MAXCALLS calls, each on a fresh instance (an error trace of TLC is as
        # long as the behaviour that leads to the failing call)
        for it, _ in work:
            it["traces"] = [tr[k:k + MAXCALLS] for tr in it["traces"] for k in range(0, len(tr), MAXCALLS)]
        wcases = c22.tlc_cases([it for it, _ in work], mods_of=lambda it: [it["_wp"]], fuel=WASM_FUEL)
        res = c22.run_wasm(ctx, wcases, cfg=EMIT_CFG, label="Wasm.tla executes the source modules")
        for e in res.errors:
            raise MachineryError("unexpected TLC error in the wasm run: %s" % e)
        observed = c23.parse_obs(res.raw)
        # ---- run 2: IR.tla under the runtime contract -----------------------------------------------------------
        variants = {id(it): vs for it, vs in work}
        cases, meta = [], []
        skipped = {}
        for k, wc in enumerate(wcases, start=1):
            it = wc["_item"]
            wobs = []
            ci = 0
            while (k, ci) in observed:
                wobs.append(obs_to_json(observed[(k, ci)]))
                ci += 1
            if not wobs:
                raise MachineryError("no observation for wasm case %s" % wc["id"])
            for o in wobs:
                if not (o["status"] == "ok" or (o["status"] == "trap" and o["why"] == "unreachable")):
                    tag = o["status"] + (":" + o["why"] if o["status"] == "trap" else "")
                    skipped[tag] = skipped.get(tag, 0) + 1
                if len(o["ret"]) > 1:
                    o["status"], o["why"] = "outofmodel", "several results of an exported function"
            ext = []
            for x in c22.ext_table(it):
                im = [i for i in it["_wp"]["imports"] if i["name"] == x["name"]]
                ext.append({"name": "%s_%s" % (im[0]["mod"], x["name"]) if im else x["name"], "rets": x["rets"]})
            wmod = {f: it["_wp"][f] for f in ("mems", "tables", "elems", "datas")}
            for v in variants[id(it)]:
                cases.append({"id": "%s%s" % (wc["id"], v["tag"]), "mods": [v["pm"]], "fn": "", "argv": [], "ext": ext,
                              "fuel": 1000000000, "rt": v["rt"], "wmod": wmod, "calls": wc["calls"], "wobs": wobs})
                meta.append((wc, v, wobs))
                for ci, o in enumerate(wobs):       # the calls W2I.tla runs: up to the first one that is not "ok"
                    if o["status"] == "ok" or (o["status"] == "trap" and o["why"] == "unreachable"):
                        ctx.count("%s%s/%d" % (wc["id"], v["tag"], ci))
                    if o["status"] != "ok":
                        break
        ctx.cov["wasm_outcomes_not_judged"] = skipped
        for wc, v, wobs in meta[:: max(1, len(meta) // 4)][:4]:
            ctx.sample({"case": wc["id"], "variant": v["tag"], "calls": len(wc["calls"]),
                        "wasm_obs": [{"status": o["status"], "ret": o["ret"]} for o in wobs[:3]]})
        path = ctx.trace_file(cases)
        res2 = ctx.tlc("W2I", W2I_CFG, label="IR.tla under the runtime contract vs the wasm observation",
                       env={"TRACE_FILE": path}, continue_=True, workers=8, heap="8g", extra=["-difftrace"])
        os.unlink(path)
        ctx.cov["traces_validated_against_impl"] += len(cases)
        cov = core.tlcmod.action_coverage(res2)
        ctx.cov["w2i_action_coverage"] = {k: v for k, v in sorted(cov.items())}
        if ctx.only is None and cov:
            missing = [a for a in ("Instantiate", "LoadState", "RtCall", "LinLoad", "LinStore", "Plain", "NextCall")
                       if not cov.get("W2I." + a)]
            if missing:
                raise MachineryError("W2I does not take the actions %s" % missing)
        first = {}
        for e in res2.errors:
            st = {}
            for _, d in e.states:       # -difftrace: every state lists the variables that changed
                st.update(d)
            i, ci = st.get("i"), st.get("ci")
            if e.kind != "invariant" or e.name not in CLAUSES or not isinstance(i, int) or i < 1 or not isinstance(ci, int):
                raise MachineryError("unexpected TLC error in the W2I run: %s\n%s" % (e, e.text[:1500]))
            cur = first.get((i, ci))
            if cur is None or CLAUSES.index(e.name) < CLAUSES.index(cur[0]):
                first[(i, ci)] = (e.name, st)
        for (i, ci), (clause, st) in sorted(first.items()):
            wc, v, wobs = meta[i - 1]
            k = max(ci, 0)
            o = wobs[k] if k < len(wobs) else {}
            what = c22.call_text(wc, k)
            irs = "%s(%s)" % (st.get("status"), st.get("why")) if st.get("status") != "ok" else "ok"
            key = "X03:%s%s/%s:%s" % (wc["id"], v["tag"], what, clause)
            if clause == "XOutcome":
                key += ":ir=" + irs
            ctx.violation(key, "%s of module '%s' (pointer size %d%s): Wasm.tla gives %s%s; the IR module made by wasm_to_ir "
                          "gives %s ret=%s under IR.tla [%s]" % (
                              what, wc["_item"]["key"], v["pb"], ", second translation of the module object" if "2nd" in v["tag"] else "",
                              o.get("status"), (" ret=%s" % o.get("ret")) if o.get("status") == "ok" else " (%s)" % o.get("why"),
                              irs, st.get("ret"), clause),
                          {"wat": wc["_item"]["wat"], "trace": wc["_item"]["traces"][wc["_trace"]][:k], "call": what,
                           "clause": clause, "wasm": {x: o.get(x) for x in ("status", "why", "ret", "glob", "pages")},
                           "ir": {"status": st.get("status"), "why": st.get("why"), "ret": st.get("ret")},
                           "ptr_bytes": v["pb"], "ir_module": irtext(v["irm"])})
