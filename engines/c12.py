"""C12 — the linker places sections correctly and preserves their contents.

Deciding method: TLA+ specification tla/Linker.tla + TLC.
  M  Linker_MC     exhaustive exploration of the linker design (phases Start / InjectSections /
                   MergeGlobal / ... / Relocate as actions) on small universes of link jobs
                   (tla/LinkerJobs_MC.tla), all invariants of the property, every action covered;
                   a second run explores every *legal* padding / output alignment (Free = TRUE)
  T  Linker_Trace  every link of generated object files and layouts performed by the real
                   ppci.binutils.linker (phase snapshots obtained by wrapping Linker methods,
                   harness/objgen.py) is validated phase by phase by TLC against Linker.tla;
                   error outcomes must coincide with the specification's Fail
"""
import random
import re

from harness import core, objgen
from harness import tlc as tlcmod

P = "C12"
INVARIANTS = ("Placement", "InputAligned", "Inside", "NoOverlap", "Content", "AllPlaced", "SymbolAt",
              "LayoutSymbolAt", "RelocsResolve", "NoUndefinedOutput", "DoneIsClean", "FailIsJustified")
MC_JOBS = "---- MODULE LinkerJobs ----\nEXTENDS LinkerJobs_MC\nJobs == MCJobs\n====\n"
# actions of Linker.tla every M run set must cover (names as TLC's coverage reports them)
ACTIONS = ("Start", "InjectSections", "InjectNew", "MergeGlobal", "DuplicateGlobal", "InjectRelocs",
           "DuplicateEntry", "PlaceSection", "PlaceSectionData", "DefineSymbol", "DefineSymbolTwice", "AlignTo",
           "CloseMemory", "MemoryOverflow", "EmptyLayout", "CheckUndefined", "UndefinedFound", "RelaxNone",
           "Relocate", "RelocateFails")
# sizes of relocation fields (checked against Reloc.tla's RelSize by Linker_Trace's invariant Domain)
REL_SIZES = {"absaddr16": 2, "absaddr32": 4, "absaddr64": 8, "rel32": 4, "abs32": 4, "abs64": 8, "jmp8": 1,
             "b_imm12": 4, "b_imm20": 4, "abs32_imm20": 4, "abs32_imm12": 4, "rel_imm20": 4, "rel_imm12": 4,
             "imm24": 4, "ldr_imm12": 4, "adr_imm12": 4, "lit8": 2, "wrap_new11": 2, "rel8": 2, "bl_imm11": 4,
             "b_imm11_imm6": 4}


def tla_set(xs):
    return "{" + ", ".join(('"%s"' % x) if isinstance(x, str) else str(x) for x in xs) + "}"


def mc_cfg(families, sizes=(1, 3), aligns=(1, 4), shape="2+1", statuses=("absent", "gdef", "gref"), syms3=False,
           relsizes=(2,), free=False, announce=False):
    out = ["CONSTANTS", " Families = %s" % tla_set(families), " Sizes = %s" % tla_set(sizes),
           " Aligns = %s" % tla_set(aligns), ' Shape = "%s"' % shape, " Statuses = %s" % tla_set(statuses),
           " SymObjs3 = %s" % ("TRUE" if syms3 else "FALSE"), " RelSizes = %s" % tla_set(relsizes),
           " Free = %s" % ("TRUE" if free else "FALSE"), " Announce = %s" % ("TRUE" if announce else "FALSE"),
           "INIT MCInit", "NEXT MCNext", "CHECK_DEADLOCK TRUE"]
    out += ["INVARIANT %s" % i for i in INVARIANTS + ("NoStuck",)]
    return "\n".join(out) + "\n"


def trace_cfg(check_values, nchunks=16):
    out = ["CONSTANTS", " CheckValues = %s" % ("TRUE" if check_values else "FALSE"), " NChunks = %d" % nchunks,
           "INIT TInit", "NEXT TNext", "CHECK_DEADLOCK FALSE",
           "INVARIANT NotRejected", "INVARIANT NoSpuriousFailure", "INVARIANT Domain"]
    out += ["INVARIANT I_%s" % i for i in INVARIANTS]
    return "\n".join(out) + "\n"


def model_check(ctx, prop=P):
    """idiom M; a failing invariant here is a fault of the specification, not of ppci.
    TLC's -coverage costs a factor 5 and more on this specification, so it is not used: in a small
    universe that reaches every action each action announces itself (PrintT) and the counts are
    taken from TLC's output."""
    thorough = ctx.tier == "thorough"
    small = mc_cfg(("place", "syms", "reloc"), sizes=(3,), aligns=(1, 4), statuses=("gdef", "gref"), relsizes=(1,),
                   announce=True)
    runs = [("placement, symbols, relocation sites; every action", mc_cfg(
        ("place", "syms", "reloc"), statuses=("gdef", "gref"), relsizes=(1,), announce=True), True)]
    if thorough:
        runs = [("every action", small, True),
                ("place", mc_cfg(("place",), sizes=(0, 1, 3), aligns=(1, 2, 4)), False),
                ("place 2+2", mc_cfg(("place",), sizes=(1, 3), aligns=(1, 4), shape="2+2"), False),
                ("place 2+1+1", mc_cfg(("place",), sizes=(1,), aligns=(1, 2), shape="2+1+1"), False),
                ("syms", mc_cfg(("syms",), statuses=("absent", "local", "gdef", "gref")), False),
                ("syms 3 objects", mc_cfg(("syms",), statuses=("gdef", "gref"), syms3=True), False),
                ("reloc", mc_cfg(("reloc",), relsizes=(3,)), False),
                ("free choices", mc_cfg(("place",), sizes=(1, 3), aligns=(2,), free=True), False)]
    covered = {}
    for label, cfg, cov in runs:
        res = ctx.tlc("Linker_MC", cfg, label="M: " + label, workers=4, extra_modules={"LinkerJobs": MC_JOBS},
                      timeout=3000, coverage=False)
        for e in res.errors:
            raise tlcmod.MachineryError("Linker.tla violates its own invariant in run '%s': %s\n%s" % (
                label, e, e.text[:1500]))
        for m in re.finditer(r'^<<"act", "(\w+)">>', res.raw, re.M):
            covered[m.group(1)] = covered.get(m.group(1), 0) + 1
    missing = [a for a in ACTIONS if not covered.get(a)]
    if missing:
        raise tlcmod.MachineryError("M configs do not cover the actions %s" % missing)
    ctx.cov["m_action_coverage"] = {a: covered[a] for a in ACTIONS}


def gen_jobs(ctx, n, seed_tag="c12"):
    jobs = []
    for k in range(n):
        rng = random.Random("%s:%s:%d" % (ctx.seed, seed_tag, k))  # one stream per job: stable ids
        job = objgen.gen_job(rng, max_size=rng.choice([8, 24, 24, 40]))
        job["id"] = "%s-%d" % (seed_tag, k)
        jobs.append(job)
    return jobs


def classify(tr):
    """outcome class of a recorded link (evidence only)"""
    last = tr["events"][-1] if tr["events"] else {"ev": "none"}
    if last["ev"] == "end":
        return "linked"
    if last["ev"] == "fail":
        return "failed:%s:%s" % (last["phase"], last["exc"])
    return "incomplete"


def judge_traces(ctx, traces, check_values, prop, label, keyfn, workers=4):
    """run Linker_Trace over the traces; map every TLC error back to its trace"""
    spurious = []

    def what(rec, e):
        st = e.last
        if e.name == "NotRejected":
            return "link %s: the specification refuses event %s (%s): %s" % (
                rec["id"], st.get("l"), _evname(rec, st.get("l")), st.get("why"))
        return "link %s: invariant %s of Linker.tla fails in phase %s" % (rec["id"], e.name, st.get("ph"))

    path = ctx.trace_file(traces)
    res = ctx.tlc("Linker_Trace", trace_cfg(check_values), label=label, env={"TRACE_FILE": path},
                  continue_=True, workers=workers, timeout=3000, coverage=False)
    ctx.cov["traces_validated_against_impl"] += len(traces)
    seen = set()
    for e in res.errors:
        st = e.last
        idx = st.get("job")
        if not isinstance(idx, int) or idx < 1 or idx > len(traces):
            raise tlcmod.MachineryError("TLC error without trace index in Linker_Trace: %s\n%s" % (e, e.text[:2000]))
        if (idx, e.name) in seen:
            continue
        seen.add((idx, e.name))
        rec = traces[idx - 1]
        if e.name == "Domain":
            raise tlcmod.MachineryError("trace %s is outside the domain of Linker_Trace (harness fault)" % rec["id"])
        if e.name == "NoSpuriousFailure":
            spurious.append(rec["id"])
            continue
        ctx.violation(keyfn(rec, e), what(rec, e) + " [clause %s]" % e.name,
                      {"id": rec["id"], "clause": e.name, "why": st.get("why"), "event": st.get("l"),
                       "lay": rec["lay"], "opt": rec["opt"], "outcome": classify(rec),
                       "inputs": [{"secs": [{k: s[k] for k in ("name", "align", "size")} for s in o["secs"]],
                                   "syms": o["syms"], "rels": o["rels"], "entry": o["entry"]} for o in rec["inp"]]})
    return res, spurious


def _evname(rec, l):
    try:
        ev = rec["events"][l - 1]
        return ev["ev"] + (":" + ev["phase"] + ":" + ev["exc"] if ev["ev"] == "fail" else "")
    except Exception:
        return "end of trace"


def slug(why):
    why = (why or "").split(":")[0]
    return "".join(c if c.isalnum() else "_" for c in why)[:40].strip("_")


class Engine:
    LEVEL = "model_checking"

    def run(self, ctx):
        thorough = ctx.tier == "thorough"
        ctx.rule("M: Linker.tla (link phases as actions over provenance-tagged section contents) explored "
                 "exhaustively on the job universes of LinkerJobs_MC (sizes x alignments x merge order x layouts; "
                 "absent/local/global-def/global-ref per name and object x entry x extra symbols x partial; "
                 "relocation sites), all invariants, every action covered, plus every legal padding/alignment "
                 "choice.  T: each generated link job (1-4 objects, 1-3 sections each of 0..64 bytes, alignments "
                 "1..16, local/global/undefined symbols, x86_64 relocations, 0-3 memories with "
                 "SECTION/SECTIONDATA/DEFINESYMBOL/ALIGN inputs built as objects or parsed from layout text, "
                 "ample/exact/short memory sizes, partial links, entry, extra symbols) is linked by the real "
                 "Linker under a method-wrapping recorder and validated phase by phase by TLC; distinct = "
                 "distinct job ids")
        ctx.assume("harness/project_obj.py copies ObjectFile attributes faithfully; the recorder's snapshots are "
                   "taken at the method boundaries of Linker (inject_object, layout_sections, "
                   "check_undefined_symbols, do_relaxations, _do_relocation)")
        ctx.assume("padding byte values and symbol typ/size after merging are not constrained by the property")
        if ctx.only is None:
            model_check(ctx)
        n = 1500 if thorough else 160
        jobs = gen_jobs(ctx, n)
        if ctx.only is not None:
            jobs = [j for j in jobs if j["id"] == ctx.only["case"]["id"]]
        traces = []
        outcomes = {}
        for job in jobs:
            tr, out, objs = objgen.run_job(job, lambda t: REL_SIZES.get(t, 0), job["id"])
            traces.append(tr)
            c = classify(tr)
            outcomes[c] = outcomes.get(c, 0) + 1
            ctx.count(job["id"])
        ctx.cov["link_outcomes"] = outcomes
        for tr in traces[:: max(1, len(traces) // 3)]:
            ctx.sample({"id": tr["id"], "objects": len(tr["inp"]), "layout": tr["lay"], "outcome": classify(tr)})
        for part in core.chunks(traces, 800):
            judge_traces(ctx, part, False, P, "T: generated links",
                         lambda rec, e: "C12:%s:%s:%s" % (e.name, slug(e.last.get("why")), rec["id"]))
