"""C29 — code generation succeeds for supported IR on x86-64, ARM, RISC-V (Toolchain.tla, idiom T)."""
import random

from harness import absprog, core, irgen, optcorpus, pipeline
from harness.tlc import MachineryError

CFG = """INIT Init
NEXT Next
CHECK_DEADLOCK FALSE
INVARIANT TraceFollowsPipeline
INVARIANT CodegenSucceeds
INVARIANT Completes
"""
TARGETS = {
    "x86_64": ["i8", "u8", "i16", "u16", "i32", "u32", "i64", "u64"],
    "arm": ["i8", "u8", "i16", "u16", "i32", "u32"],
    "arm:thumb": ["i8", "u8", "i16", "u16", "i32", "u32"],
    "riscv": ["i8", "u8", "i16", "u16", "i32", "u32"],
    "riscv:rvc": ["i8", "u8", "i16", "u16", "i32", "u32"],
}
C_TYPES_32 = ["c8", "u8", "i16", "u16", "i32", "u32"]


def supported(march):
    """The value types the target itself declares (the property's proviso)."""
    from ppci import api

    a = api.get_arch(march)
    return {t.name for t in a.info.value_classes}


def traces(ctx, nir, nc, levels):
    rng = ctx.rng
    out = []
    for march, want in TARGETS.items():
        try:
            sup = supported(march)
        except Exception as e:
            out.append({"id": "C29:%s:get_arch" % march, "claim": "C29", "src": march,
                        "events": [{"st": "object", "out": "error:" + type(e).__name__, "arg": "get_arch"}]})
            continue
        types = [t for t in want if t in sup]
        for k in range(nir):
            seed = rng.randrange(1 << 30)
            for lv in levels:
                def make(seed=seed, types=types):
                    return irgen.gen_module(random.Random(seed), types=types)[0]
                ev, obj, msg = pipeline.run_pipeline(make, march, lv, frontend_label="frontend")
                if ev[0]["out"] != "ok":
                    ctx.cov["generator_failed"] = ctx.cov.get("generator_failed", 0) + 1
                    continue
                out.append({"id": "C29:%s:O%s:irgen%d" % (march, lv, seed), "claim": "C29", "events": ev, "msg": msg, "march": march,
                            "src": "irgen.gen_module(random.Random(%d), types=%r)" % (seed, types)})
        ctypes_ = absprog.TYPES if march == "x86_64" else C_TYPES_32
        for k in range(nc):
            seed = rng.randrange(1 << 30)
            prog = absprog.Gen(random.Random(seed), max_funcs=3, max_stmts=6, max_depth=3, types=ctypes_).program()
            src = absprog.render_c(prog)
            for lv in levels:
                def make(src=src, march=march):
                    return optcorpus.compile_c(src, march)
                ev, obj, msg = pipeline.run_pipeline(make, march, lv)
                if ev[0]["out"] != "ok":  # the front-end's business (C28), not code generation's
                    ctx.cov["frontend_rejected"] = ctx.cov.get("frontend_rejected", 0) + 1
                    continue
                out.append({"id": "C29:%s:O%s:c%d" % (march, lv, seed), "claim": "C29", "events": ev, "msg": msg, "src": src, "march": march})
    return out


BIN = {"+": "ADD", "-": "SUB", "*": "MUL", "/": "DIV", "%": "REM", "|": "OR", "&": "AND", "^": "XOR",
       "<<": "SHL", ">>": "SHR", "rol": "ROL", "ror": "ROR"}


def probe_traces(ctx):
    """One tiny function per (instruction kind, operator, type) and target: the systematic part of the corpus."""
    from ppci import ir
    from ppci.binutils.debuginfo import DebugDb

    out = []

    def fn_module(build, rty, ptys):
        def make():
            m = ir.Module("probe", debug_db=DebugDb())
            f = ir.Function("f", ir.Binding.GLOBAL, getattr(ir, rty))
            m.add_function(f)
            f._vm = m
            b = ir.Block("entry")
            f.add_block(b)
            f.entry = b
            ps = []
            for k, t in enumerate(ptys):
                p = ir.Parameter("p%d" % k, getattr(ir, t))
                f.add_parameter(p)
                ps.append(p)
            build(ir, f, b, ps)
            return m
        return make

    for march, want in TARGETS.items():
        try:
            sup = supported(march)
        except Exception:
            continue
        types = [t for t in want if t in sup]
        probes = []
        for t in types:
            T = t
            for op in BIN:
                def build(ir, f, b, ps, op=op, T=T):
                    r = ir.Binop(ps[0], op, ps[1], "r", getattr(ir, T))
                    b.add_instruction(r)
                    b.add_instruction(ir.Return(r))
                probes.append(("binop:%s:%s" % (op, t), BIN[op] + t.upper(), fn_module(build, t, [t, t])))
            for op, nm in (("-", "NEG"), ("~", "INV")):
                def build(ir, f, b, ps, op=op, T=T):
                    r = ir.Unop(op, ps[0], "r", getattr(ir, T))
                    b.add_instruction(r)
                    b.add_instruction(ir.Return(r))
                probes.append(("unop:%s:%s" % (op, t), nm + t.upper(), fn_module(build, t, [t])))
            for t2 in types:
                if t2 == t:
                    continue
                def build(ir, f, b, ps, T=T, t2=t2):
                    r = ir.Cast(ps[0], "r", getattr(ir, T))
                    b.add_instruction(r)
                    b.add_instruction(ir.Return(r))
                probes.append(("cast:%s->%s" % (t2, t), "%sTO%s" % (t2.upper(), t.upper()), fn_module(build, t, [t2])))

            def build_ld(ir, f, b, ps, T=T):
                a = ir.Alloc("a", 8, 8)
                p = ir.AddressOf(a, "p")
                st = ir.Store(ps[0], p)
                ld = ir.Load(p, "ld", getattr(ir, T))
                for x in (a, p, st, ld, ir.Return(ld)):
                    b.add_instruction(x)
            probes.append(("loadstore:%s" % t, "LDR" + t.upper(), fn_module(build_ld, t, [t])))
            for cond in ("==", "!=", "<", ">", "<=", ">="):
                def build(ir, f, b, ps, cond=cond, T=T):
                    yes, no = ir.Block("yes"), ir.Block("no")
                    f.add_block(yes)
                    f.add_block(no)
                    b.add_instruction(ir.CJump(ps[0], cond, ps[1], yes, no))
                    yes.add_instruction(ir.Return(ps[0]))
                    no.add_instruction(ir.Return(ps[1]))
                probes.append(("cjmp:%s:%s" % (cond, t), "CJMP" + t.upper(), fn_module(build, t, [t, t])))
        # memory copies, literals, calls, globals
        T0 = types[-1] if types else "i32"
        for nbytes in (1, 2, 3, 4, 8, 12, 16):
            for kind in ("stack_to_global", "global_to_stack", "stack_to_stack"):
                def build(ir, f, b, ps, nbytes=nbytes, kind=kind, T0=T0):
                    g = ir.Variable("G", ir.Binding.GLOBAL, 16, 4, value=bytes(range(16)))
                    f._vm.add_variable(g)
                    a1 = ir.Alloc("a1", 16, 4)
                    p1 = ir.AddressOf(a1, "p1")
                    a2 = ir.Alloc("a2", 16, 4)
                    p2 = ir.AddressOf(a2, "p2")
                    for x in (a1, p1, a2, p2):
                        b.add_instruction(x)
                    if kind == "stack_to_global":
                        b.add_instruction(ir.CopyBlob(g, p1, nbytes))
                    elif kind == "global_to_stack":
                        b.add_instruction(ir.CopyBlob(p1, g, nbytes))
                    else:
                        b.add_instruction(ir.CopyBlob(p2, p1, nbytes))
                    b.add_instruction(ir.Return(ps[0]))
                probes.append(("copyblob:%s:%d" % (kind, nbytes), "MOVB", fn_module(build, T0, [T0])))
        for nargs in (0, 1, 4, 7, 9):
            def build(ir, f, b, ps, nargs=nargs, T0=T0):
                x = ir.ExternalFunction("ext", [getattr(ir, T0)] * nargs, getattr(ir, T0))
                f._vm.add_external(x)
                r = ir.FunctionCall(x, [ps[0]] * nargs, "r", getattr(ir, T0))
                b.add_instruction(r)
                b.add_instruction(ir.Return(r))
            probes.append(("call:%d" % nargs, "CALL", fn_module(build, T0, [T0])))
        for t in types:
            def build(ir, f, b, ps, t=t):
                lit = ir.LiteralData(bytes(range(8)), "lit")
                la = ir.AddressOf(lit, "la")
                ld = ir.Load(la, "ld", getattr(ir, t))
                g = ir.Variable("G", ir.Binding.GLOBAL, 8, 8, value=bytes(8))
                f._vm.add_variable(g)
                st = ir.Store(ld, g)
                gl = ir.Load(g, "gl", getattr(ir, t))
                for x in (lit, la, ld, st, gl, ir.Return(gl)):
                    b.add_instruction(x)
            probes.append(("literal_global:%s" % t, "LDR" + t.upper(), fn_module(build, t, [t])))
        # constants at the boundaries of every type, as result and as operand
        for t in types:
            bits = {"i8": 8, "u8": 8, "i16": 16, "u16": 16, "i32": 32, "u32": 32, "i64": 64, "u64": 64}[t]
            lo, hi = (-(1 << (bits - 1)), (1 << (bits - 1)) - 1) if t[0] == "i" else (0, (1 << bits) - 1)
            for cv in sorted({x for x in (lo, lo + 1, -1, 0, 1, 127, 128, 255, 256, hi - 1, hi) if lo <= x <= hi}):
                for how in ("ret", "add", "store"):
                    def build(ir, f, b, ps, t=t, cv=cv, how=how):
                        c = ir.Const(cv, "c", getattr(ir, t))
                        b.add_instruction(c)
                        if how == "ret":
                            b.add_instruction(ir.Return(c))
                        elif how == "add":
                            r = ir.Binop(ps[0], "+", c, "r", getattr(ir, t))
                            b.add_instruction(r)
                            b.add_instruction(ir.Return(r))
                        else:
                            a = ir.Alloc("a", 8, 8)
                            p = ir.AddressOf(a, "p")
                            st = ir.Store(c, p)
                            ld = ir.Load(p, "ld", getattr(ir, t))
                            for x in (a, p, st, ld, ir.Return(ld)):
                                b.add_instruction(x)
                    probes.append(("const:%s:%s:%d" % (how, t, cv), "CONST" + t.upper(), fn_module(build, t, [t])))
            # a used undefined value (allowed in well-formed IR; the code generator must cope)
            def build_undef(ir, f, b, ps, t=t):
                u = ir.Undefined("u", getattr(ir, t))
                r = ir.Binop(ps[0], "+", u, "r", getattr(ir, t))
                for x in (u, r, ir.Return(r)):
                    b.add_instruction(x)
            probes.append(("undefined_used:%s" % t, "UND" + t.upper(), fn_module(build_undef, t, [t])))
        # addresses of externals / functions used as values
        for kind in ("store_ext", "pass_ext", "ret_cmp_ext", "call_via_ptr"):
            def build(ir, f, b, ps, kind=kind, T0=T0):
                x = ir.ExternalFunction("handler", [getattr(ir, T0)], getattr(ir, T0))
                f._vm.add_external(x)
                ap = ir.ExternalFunction("apply", [ir.ptr, getattr(ir, T0)], getattr(ir, T0))
                f._vm.add_external(ap)
                if kind == "store_ext":
                    g = ir.Variable("hook", ir.Binding.GLOBAL, 8, 8)
                    f._vm.add_variable(g)
                    b.add_instruction(ir.Store(x, g))
                    b.add_instruction(ir.Return(ps[0]))
                elif kind == "pass_ext":
                    r = ir.FunctionCall(ap, [x, ps[0]], "r", getattr(ir, T0))
                    b.add_instruction(r)
                    b.add_instruction(ir.Return(r))
                elif kind == "ret_cmp_ext":
                    yes, no = ir.Block("yes"), ir.Block("no")
                    f.add_block(yes)
                    f.add_block(no)
                    cp = ir.Cast(ps[0], "cp", ir.ptr)
                    b.add_instruction(cp)
                    b.add_instruction(ir.CJump(cp, "==", x, yes, no))
                    yes.add_instruction(ir.Return(ps[0]))
                    no.add_instruction(ir.Return(ps[0]))
                else:
                    a = ir.Alloc("a", 8, 8)
                    p = ir.AddressOf(a, "p")
                    st = ir.Store(x, p)
                    fp = ir.Load(p, "fp", ir.ptr)
                    r = ir.FunctionCall(fp, [ps[0]], "r", getattr(ir, T0))
                    for i_ in (a, p, st, fp, r, ir.Return(r)):
                        b.add_instruction(i_)
            probes.append(("fnaddr:%s" % kind, "LABEL", fn_module(build, T0, [T0])))
        for name, opname, make in probes:
            ev, obj, msg = pipeline.run_pipeline(make, march, "0")
            out.append({"id": "C29:%s:probe:%s" % (march, name), "claim": "C29", "events": ev, "msg": msg,
                        "src": "probe " + name, "march": march, "opname": opname, "probe": True})
    return out


def opnames(msg):
    import re

    return set(re.findall(r"([A-Z][A-Z0-9]+)[\[(]", msg or ""))


def judge(ctx, trs, prop):
    slim = [{"claim": t["claim"], "events": t["events"]} for t in trs]
    path = ctx.trace_file(slim)
    res = ctx.tlc("Toolchain", CFG if prop == "C29" else CFG28, label="Toolchain traces", env={"TRACE_FILE": path},
                  continue_=True, workers=8)
    import os

    os.unlink(path)
    ctx.cov["traces_validated_against_impl"] += len(trs)
    seen = set()
    # operators whose elementary probe fails on a target explain failures of bigger trees containing them
    failed_ops = {}
    failed_msgs = {}
    for t in trs:
        if t.get("probe") and t["events"] and t["events"][-1]["out"] != "ok":
            failed_ops.setdefault(t["march"], set()).add(t["opname"])
            failed_msgs.setdefault(t["march"], set()).add(t.get("msg") or "")
    for e in res.errors:
        i, l = e.last.get("i"), e.last.get("l")
        if e.kind != "invariant" or not isinstance(i, int) or i < 1:
            raise MachineryError("unexpected TLC error: %s\n%s" % (e, e.text[:1500]))
        t = trs[i - 1]
        evs = t["events"]
        msg_ = t.get("msg") or ""
        fo = failed_ops.get(t.get("march"), set())
        if not t.get("probe") and (any((o + "(") in msg_ or (o + "[") in msg_ for o in fo)
                                   or (msg_.startswith("KeyError") and msg_ in failed_msgs.get(t.get("march"), set()))):
            ctx.cov["failures_explained_by_failed_probe"] = ctx.cov.get("failures_explained_by_failed_probe", 0) + 1
            continue
        if not t.get("probe") and msg_.startswith("RuntimeError: Tree ") and msg_.rstrip().endswith("not covered"):
            # the instruction selector's "tree not covered" call site, on a tree built from operators whose
            # elementary probes pass: one finding per target (listed), not one per random module
            key = "C29:%s:random-module:tree-not-covered" % t["march"]
            ctx.violation(key, "%s: %s" % (t["id"], msg_[:300]), {"id": t["id"], "source": t.get("src"), "clause": e.name})
            continue
        last = evs[min(max(l - 2, 0), len(evs) - 1)] if evs else {}
        key = "%s:%s:%s:%s" % (t["id"], last.get("st"), last.get("out"), e.name)
        if key in seen:
            continue
        seen.add(key)
        ctx.violation(key, "%s: stage %s(%s) ended with %s [%s]" % (t["id"], last.get("st"), last.get("arg"),
                                                                   last.get("out"), t.get("msg", "")),
                      {"id": t["id"], "source": t.get("src"), "events": evs[-6:], "clause": e.name})


CFG28 = """INIT Init
NEXT Next
CHECK_DEADLOCK FALSE
INVARIANT TraceFollowsPipeline
INVARIANT FrontendFailsOnlyWithDiagnostics
INVARIANT AcceptedInputDoesNotCrash
"""


class Engine:
    LEVEL = "exploration"

    def run(self, ctx):
        q = ctx.tier == "quick"
        ctx.rule("well-formed IR from harness/irgen.py restricted to the value types each target declares "
                 "(arch.info.value_classes) and IR of generated C programs, compiled for x86_64, arm, arm:thumb, riscv, "
                 "riscv:rvc at every optimisation level; stage events (verify, each pass, codegen per function, object) "
                 "recorded by wrapping the real functions; Toolchain.tla accepts the trace and requires every stage to end ok; "
                 "distinct = distinct (target, level, module)")
        ctx.assume("generators only use integer types; floating point is not exercised")
        trs = probe_traces(ctx) + traces(ctx, 6 if q else 60, 3 if q else 30, ("0", "2") if q else ("0", "1", "2", "s"))
        for t in trs:
            ctx.count(t["id"])
        for t in trs[:: max(1, len(trs) // 3)][:4]:
            ctx.sample({"id": t["id"], "stages": [e["st"] + ":" + e["out"] for e in t["events"]][-5:]})
        judge(ctx, trs, "C29")
