"""C19 — S-record files written by ppci vs. SRec.tla (idioms M + T/E).

M: SRec_MC — reference encoder, streaming reader and declarative decoder of the specification
   model-checked on a scaled-down address space, plus known-answer files with the real constants.
T/E: SRec_Trace — every file write_srecord wrote for an object is read back by the specification's
   reader, one record per state, and compared with the object's code section at its address."""
import io

from harness import core, recfmt

MC_CFG = """CONSTANT LoMod = %d
CONSTANT H2 = %d
CONSTANT H3 = %d
CONSTANT MaxLen = %d
CONSTANT Chunk = %d
INIT Init
NEXT Next
CHECK_DEADLOCK FALSE
INVARIANT LawCover
INVARIANT LawWellFormed
INVARIANT LawAccept
INVARIANT LawRoundTrip
INVARIANT LawHeader
INVARIANT LawWidth
INVARIANT LawCorrupt
INVARIANT LawAgree
"""
KAT_CFG = """CONSTANT LoMod = 65536
CONSTANT H2 = 256
CONSTANT H3 = 65536
CONSTANT MaxLen = 0
CONSTANT Chunk = 16
INIT InitKat
NEXT Next
CHECK_DEADLOCK FALSE
INVARIANT LawKat
INVARIANT LawKatWide
INVARIANT LawCover
"""
TRACE_CFG = """CONSTANT LoMod = 65536
CONSTANT H2 = 256
CONSTANT H3 = 65536
INIT Init
NEXT Next
CHECK_DEADLOCK FALSE
INVARIANT Domain
INVARIANT Written
INVARIANT RecordWellFormed
INVARIANT DataIsCode
INVARIANT EachByteOnce
INVARIANT CountRecordRight
INVARIANT NothingAfterTermination
INVARIANT Terminated
INVARIANT AllCovered
INVARIANT DecodesToCode
INVARIANT HeaderCarried
"""
LINE_CLAUSES = {"RecordWellFormed", "DataIsCode", "EachByteOnce", "CountRecordRight", "NothingAfterTermination"}
SMALL = 1500
TOP = 1 << 32


CHUNK = 30  # bytes per data record written by ppci (only used to place zero runs on record boundaries)


def inputs(ctx):
    """(base address of the code section, code bytes, header argument or None, content tag)"""
    rng = ctx.rng
    thorough = ctx.tier == "thorough"
    out = []

    def data(n):
        return bytes(rng.getrandbits(8) for _ in range(n))

    def nz(n):
        return bytes(rng.randrange(1, 256) for _ in range(n))

    for n in [0, 1, 2, 16, 17, 29, 30, 31, 59, 60, 61, 255, 256, 1000, 65535, 65536, 65537, 70000]:
        out.append((0, data(n), None, ""))
    for base, n in [(0x100, 5), (0x100, 100), (0x7AF0, 16), (0xFFF0, 16), (0xFFF0, 17), (0xFFF0, 64), (0xFFFF, 1),
                    (0x10000, 1), (0x10000, 40), (0x12340, 100), (0xFFFFE0, 32), (0xFFFFE0, 33), (0xFFFFE0, 90),
                    (0x1000000, 31), (0x7FFFFFF0, 64), (0x80000000, 40), (0xFFFFFFE0, 32), (0xFFFFFFFF, 1), (0xC000, 0)]:
        out.append((base, data(n), None, ""))
    # code containing runs of zero bytes (zero tables, padding, an all-zero section, a zero tail),
    # placed on the boundaries of the writer's data records and off them
    for base in (0, 0x8000, 0xFFF0, 0xFFFFE2):
        for n in (1, 29, 30, 31, 60, 100):
            out.append((base, bytes(n), None, "zeros"))
    for base in (0, 0x4000, 0xFFC4, 0xFFFFC4):
        for n in (90, 100, 150, 305):
            full = n // CHUNK
            body = nz(n)

            def zero(code, lo, hi):
                return code[:lo] + bytes(hi - lo) + code[hi:]

            mid = max(1, full // 2)
            out.append((base, zero(body, 0, CHUNK), None, "z@start"))
            out.append((base, zero(body, mid * CHUNK, (mid + 1) * CHUNK), None, "z@mid"))
            out.append((base, zero(body, (full - 1) * CHUNK, full * CHUNK), None, "z@lastfull"))
            out.append((base, zero(zero(body, 0, CHUNK), mid * CHUNK, (mid + 1) * CHUNK), None, "z@start+mid"))
            if n % CHUNK:
                out.append((base, zero(body, full * CHUNK, n), None, "ztail"))
                out.append((base, zero(body, (full - 1) * CHUNK, n), None, "z@lastfull+tail"))
            out.append((base, zero(body, 7, 7 + CHUNK), None, "z@unaligned"))
    # header arguments: none, short, the longest that fits one S0 record (252 bytes), longer ones
    for base, n in ((0, 40), (0x12340, 61)):
        for hl in (0, 1, 3, 252, 253, 300, 600):
            out.append((base, data(n), bytes(rng.randrange(32, 127) for _ in range(hl)), ""))
    out.append((0, b"", b"empty object", ""))
    if thorough:
        out.append((0xFF0000, data(70000), None, ""))
        out.append((0x8000, data(40000), None, ""))
        out.append((0, data(200000), None, ""))
        out.append((0, bytes(70000), None, "zeros"))
        big = bytearray(nz(70000))
        big[65520:65580] = bytes(60)
        out.append((0, bytes(big), None, "z@64k"))
    for k in range(400 if thorough else 60):
        kind = rng.randrange(4)
        if kind == 0:
            base = 0
        elif kind == 1:
            base = rng.randrange(1 << 16)
        elif kind == 2:
            base = rng.choice([1 << 16, 1 << 24, 1 << 31]) - rng.randrange(0, 200)
        else:
            base = rng.getrandbits(rng.choice([16, 24, 32]))
        n = rng.choice([1, 2, 29, 30, 31, 60, 61, rng.randrange(1, 400), rng.randrange(1, 400)])
        if base + n > TOP:
            continue
        code = bytearray(data(n))
        tag = ""
        if k % 2:  # sparse contents: some records' worth of zero bytes
            tag = "zrnd%d" % k
            for c in range(0, n, CHUNK):
                if rng.randrange(3) == 0:
                    code[c:c + CHUNK] = bytes(len(code[c:c + CHUNK]))
        hdr = None
        if k % 5 == 0:
            hdr = bytes(rng.randrange(32, 127) for _ in range(rng.choice([0, 2, 10, 100, 251, 252, 253, 254, 255, 256, 400])))
        out.append((base, bytes(code), hdr, tag))
    return out


def drive(base, code, header=None):
    from ppci.api import get_arch
    from ppci.binutils.objectfile import ObjectFile
    from ppci.format.srecord import write_srecord

    obj = ObjectFile(get_arch("m68k"))
    section = obj.get_section("code", create=True)
    section.add_data(code)
    section.address = base
    # the object also has a data section: it is not code and must not show up
    other = obj.get_section("data", create=True)
    other.add_data(b"\x11\x22\x33\x44")
    other.address = 0x20000000
    written = {"ok": True, "exc": ""}
    text = ""
    try:
        f = io.StringIO()
        if header is None:
            write_srecord(obj, f)
        else:
            write_srecord(obj, f, header=header)
        text = f.getvalue()
    except Exception as e:  # the outcome is judged by the specification
        written = {"ok": False, "exc": recfmt.exc_name(e)}
        text = ""
    return text, written


def linked_object():
    """One object made by the tool chain itself (as in examples/m68k/demo.py)."""
    import contextlib
    from ppci.api import cc, link

    with contextlib.redirect_stdout(io.StringIO()), contextlib.redirect_stderr(io.StringIO()):
        obj = link([cc(io.StringIO("int add(int x, int y) { return x + y; }\n"), "m68k")])
    sec = obj.get_section("code")
    return obj, sec.address, bytes(sec.data)


def what(f, clause, info):
    msg = {
        "Written": "write_srecord raised %s (header of %d bytes)" % (f["written"]["exc"], len(f["header"])),
        "RecordWellFormed": "record is not a well-formed S-record (syntax, type, byte count, checksum)",
        "DataIsCode": "data record carries bytes that are not the object's code at the addresses it denotes "
                      "(header text or misplaced code in a data record)",
        "EachByteOnce": "data record writes an address that an earlier record already wrote",
        "CountRecordRight": "S5/S6 record does not state the number of data records before it",
        "NothingAfterTermination": "record after the termination record",
        "Terminated": "no termination record (S7/S8/S9)",
        "AllCovered": "the set of addresses written by the file is not the set of addresses of the code section",
        "DecodesToCode": "the decoded memory map differs from the code section",
        "HeaderCarried": "the header text passed to write_srecord is not what the file's S0 records carry",
    }.get(clause, clause)
    return "%s: %s" % (f["input"]["desc"], msg)


def size_class(base, n):
    """Input class: which address width the code needs."""
    end = base + n
    return "w16" if end <= 1 << 16 else "w24" if end <= 1 << 24 else "w32"


class Engine:
    LEVEL = "model_checking"

    def run(self, ctx):
        thorough = ctx.tier == "thorough"
        ctx.rule("M: every object (base address, code length) over a toy address space where S1 reaches LoMod, S2 "
                 "H2*LoMod and S3 H3*LoMod bytes, 8 encoder styles: reference encoder -> streaming reader -> laws (round "
                 "trip, well-formedness, header only in S0, narrowest sufficient address width and matching termination "
                 "record, corruption detected, streaming = declarative decoder on the file and all one-record "
                 "deletions/duplications); known-answer files with the real constants.  T/E: each file written by "
                 "ppci.format.srecord.write_srecord for an object whose code section has a given size (0, 1, 16, 17, 29..31, "
                 "65535, 65536, 65537, 70000, seeded random), content (random, all-zero sections, zero runs on and off the "
                 "writer's record boundaries at start/middle/end, zero tails), address (0, below/at/over 2^16, 2^24, 2^31, "
                 "up to 2^32) and header argument (none, lengths 0, 1, 3, 252, 253, 300, 600; refusing one that does not "
                 "fit a record is accepted, a written file must carry it in S0 records) read "
                 "record by record by SRec.tla in TLC; distinct = distinct (section address, code bytes)")
        ctx.assume("line splitting at newlines and the encoding of characters as codes / addresses as 16-bit halves "
                   "(harness/recfmt.py) are correct")
        ctx.assume("the object's code is the data of its section named 'code', located at section.address")
        if ctx.only is None:
            lo, h2, h3, ml, ch = (8, 2, 4, 32, 3) if thorough else (4, 2, 4, 16, 3)
            for label, cfg in (("laws", MC_CFG % (lo, h2, h3, ml, ch)), ("known-answer files", KAT_CFG)):
                res = ctx.tlc("SRec_MC", cfg, label=label)
                for e in res.errors:
                    raise core.tlcmod.MachineryError("SRec law fails in the specification itself: %s\n%s" % (e, e.text[:1500]))
        if ctx.only is not None:   # replay: the recorded input itself, independent of tier and seed
            inp = ctx.only["case"]["input"]
            hdr = bytes.fromhex(inp["header"]) if inp.get("header") is not None else None
            cases = [(inp["base"], bytes.fromhex(inp["code"]), None, hdr, inp.get("tag", ""))]
        else:
            cases = [(b, c, None, h, t) for b, c, h, t in inputs(ctx)]
        if ctx.only is None or ctx.only["case"]["input"]["desc"].startswith("linked:"):
            try:
                obj, b, c = linked_object()
                cases = cases + [(b, c, obj, None, "")] if ctx.only is None else [(b, c, obj, None, "")]
            except Exception as e:  # the compiler is not the subject of this property
                ctx.note("linked m68k object skipped: %s" % recfmt.exc_name(e))
        files = []
        seen = set()
        for base, code, obj, hdr, tag in cases:
            desc = "%sbase=%#x,size=%d" % ("linked:" if obj is not None else "", base, len(code))
            if tag:
                desc += "," + tag
            if hdr is not None:
                desc += ",hdr=%d" % len(hdr)
            key = "C19:%s:%s:{clause}:%s" % (size_class(base, len(code)), "b0" if base == 0 else "bn", desc)
            if key in seen:
                continue
            seen.add(key)
            if obj is None:
                text, written = drive(base, code, hdr)
            else:
                from ppci.format.srecord import write_srecord

                written = {"ok": True, "exc": ""}
                text = ""
                try:
                    f = io.StringIO()
                    write_srecord(obj, f)
                    text = f.getvalue()
                except Exception as e:
                    written = {"ok": False, "exc": recfmt.exc_name(e)}
            lines = recfmt.split_lines(text)
            files.append({
                "key": key,
                "lines": [recfmt.codes(x) for x in lines],
                "base": recfmt.pair(base),
                "code": recfmt.byte_list(code),
                "hgiven": hdr is not None,
                "header": recfmt.byte_list(hdr or b""),
                "written": written,
                "small": len(code) <= SMALL,
                "text": lines,
                "input": {"desc": desc, "base": base, "size": len(code), "tag": tag,
                          "header": bytes(hdr).hex() if hdr is not None else None,
                          "code": bytes(code).hex()},
            })
            ctx.count(key)
        ctx.cov["records_validated"] = sum(len(f["lines"]) for f in files)
        for f in files[:: max(1, len(files) // 4)]:
            ctx.sample({"input": f["input"]["desc"], "first_records": f["text"][:3], "records": len(f["text"])})
        recfmt.run_trace(ctx, "SRec_Trace", TRACE_CFG, files, LINE_CLAUSES, what, "files written by ppci")
