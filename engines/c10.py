"""C10 — out-of-range operands are rejected, never silently truncated (RV32.tla; idioms M + G + E)."""
from harness import asmgen
from engines.c08 import report, restrict


class Engine:
    LEVEL = "model_checking"

    def run(self, ctx):
        thorough = (ctx.only.get("tier", ctx.tier) if ctx.only else ctx.tier) == "thorough"
        ctx.rule("G: TLC enumerates from RV32.FieldRange the labelled boundary product {min-a, min-1, min, min+1, "
                 "min+a, -a, -1, 0, 1, a, max-a .. max+a, half-a .. half+a, top-a, top-1, top, top+a, 2top-a, -top} for "
                 "the immediate / displacement of every mnemonic; every riscv / rvc instruction class x every such "
                 "value (two register defaults) + register sweeps of every slot, driven through encode() (+ the "
                 "instruction's relocation applied) and through the assembler + real linker (symbol placed by a "
                 "layout); E: TLC decides accepted <=> Encodable and Decode(bytes) = value; thorough: also x86_64 / arm / thumb "
                 "relocation sites at distances around +-2^(w-1), +-2^w through the linker and Relocation.apply, judged "
                 "with Reloc.tla (Representable, FieldOK, Preserved); "
                 "distinct = distinct (class, path, printed text, symbol address)")
        ctx.assume("lexical tokenisation of the printed text; the layout places the two sections where requested "
                   "(checked on the linked object)")
        if ctx.only is None:
            table = asmgen.laws_and_table(ctx, ["ins", "hilo"], thorough)
        else:
            table = asmgen.gen_table(ctx)
        rig = asmgen.AsmRig()
        recs = []
        for which in ("riscv", "rvc"):
            r, skipped = asmgen.enc_records("C10", which, table, ctx.rng, "boundary", rig, thorough, paths=("enc", "asm"),
                                            sweep_paths=("enc", "asm") if thorough else ("enc",))
            recs += r
            for s in skipped:
                ctx.note("class %s:%s not instantiated / not an instruction" % (which, s))
        recs = restrict(ctx, recs)
        for r in recs:
            ctx.count(r["key"])
        for r in recs[:: max(1, len(recs) // 4)]:
            ctx.sample({"key": r["key"], "out": r["out"]})
        verdicts = asmgen.judge(ctx, recs, ["AcceptsRepresentable", "RejectsUnrepresentable", "FieldDecodesToValue",
                                            "SyntaxKnown"], "E: C10 records")

        def what(rec, clause):
            o = rec["out"]
            if clause == "RejectsUnrepresentable":
                return "'%s' does not fit its field but was accepted and encoded as %s" % (rec["text"], bytes(o["bytes"]).hex())
            if clause == "AcceptsRepresentable":
                return "'%s' is representable but was refused (%s)" % (rec["text"], o["exc"])
            return "'%s' was encoded as %s, which decodes to a different value" % (rec["text"], bytes(o["bytes"]).hex())

        report(ctx, "C10", verdicts, what)
        if ctx.only is None:
            self.other_targets(ctx)   # relocations of x86_64 / arm / thumb (both tiers)

    def other_targets(self, ctx):
        """Relocations of x86_64 / arm / thumb, judged with the field layouts of tla/Reloc.tla (module of C11)."""
        from harness import tlc as tlcmod
        recs, skipped = asmgen.reloc_records("C10", ctx.rng, True)
        for s in skipped:
            ctx.note("relocation site %s not assembled" % s)
        for r in recs:
            ctx.count(r["key"])
        try:
            verdicts = asmgen.judge(ctx, recs, ["RelocAcceptsRepresentable", "RelocRejectsUnrepresentable", "RelocFieldExact",
                                                "TypeModelled"], "E: C10 relocations of x86_64 / arm / thumb (Reloc.tla)",
                                    module="C10Reloc_Eval")
        except tlcmod.MachineryError as e:
            # Reloc.tla belongs to another engine (C11); if it cannot be evaluated the riscv part above still stands
            ctx.note("relocation ranges of x86_64 / arm / thumb NOT judged: C10Reloc_Eval / Reloc.tla could not be evaluated (%s)"
                     % str(e)[:200])
            return
        unmodelled = 0
        for rec, clause, _ in verdicts:
            if clause == "TypeModelled":
                unmodelled += 1
                continue
            if clause == "RelocRejectsUnrepresentable":
                w = "%s relocation %s at distance %d does not fit but was patched to %s" % (
                    rec["arch"], rec["rt"], rec["d"], bytes(rec["after"]).hex())
            elif clause == "RelocAcceptsRepresentable":
                w = "%s relocation %s at distance %d is representable but was refused (%s)" % (rec["arch"], rec["rt"], rec["d"], rec["exc"])
            else:
                w = "%s relocation %s at distance %d patched to %s, which designates another address" % (
                    rec["arch"], rec["rt"], rec["d"], bytes(rec["after"]).hex())
            ctx.violation(rec["key"], w + " [clause %s]" % clause, {"record": rec, "clause": clause})
        if unmodelled:
            ctx.note("%d relocation(s) of a type without a field model in Reloc.tla: no verdict" % unmodelled)
