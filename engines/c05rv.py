"""C05, RISC-V part (riscv and riscv:rvc) — called from engines/c05.py (see its module text).

B: RV32_Run.tla + IR.tla  IR modules restricted to types of at most 32 bits are compiled with api.optimize + api.ir_to_object for
   both variants at levels 0/1/2/s, linked by ppci's own linker (code at 0x1000, data at 0x8000; rvc code is relaxed by the linker),
   executed by TLC under tla/RV32.tla (image loader + call wrapper + observation: tla/RV32_Run.tla); the observation is handed to
   tla/IR.tla as the case's `obs` record and ObsMatchesImpl decides.
M: RV32_Run on hand-written images with known results (AsExpected).
(Development aid: the environment variable C05_PART=riscv | x86_64 restricts ./check C05 to one part.)
"""
import random

from harness import core, irgen, native, project_ir
from harness.tlc import MachineryError

from engines.c05 import BINOPS, BITS, LEVELS, WORKERS, restrict


# ===================================================================================================
# RISC-V part: riscv and riscv:rvc, decided through tla/RV32.tla (RV32_Run) and tla/IR.tla
# ===================================================================================================
RV_MARCHS = ("riscv", "riscv:rvc")
RV_TYPES = ["i8", "u8", "i16", "u16", "i32", "u32"]
RV_FUEL = 2500          # machine instructions per call (a run that needs more is not judged)
RV_IR_CFG = """INIT Init
NEXT Next
CHECK_DEADLOCK FALSE
INVARIANT ObsMatchesImpl
INVARIANT TypeOK
"""
STUB_VALUE = 9


def rv_probe_unsupported(ctx):
    """elementary operations the riscv selectors reject (C29's findings), per variant; the union is rewritten"""
    from ppci import api, ir
    from ppci.binutils.debuginfo import DebugDb

    bad = set()
    per = {}
    for march in RV_MARCHS:
        arch = rvlink_mod().arch_of(march)
        for t in RV_TYPES:
            T = getattr(ir, t)
            for kind, ops in (("binop", BINOPS), ("unop", ["-", "~"])):
                for op in ops:
                    m = ir.Module("probe", debug_db=DebugDb())
                    f = ir.Function("f", ir.Binding.GLOBAL, T)
                    m.add_function(f)
                    e = ir.Block("f_entry")
                    f.add_block(e)
                    f.entry = e
                    a = ir.Parameter("a", T)
                    f.add_parameter(a)
                    if kind == "binop":
                        b = ir.Parameter("b", T)
                        f.add_parameter(b)
                        v = ir.Binop(a, op, b, "v", T)
                    else:
                        v = ir.Unop(op, a, "v", T)
                    e.add_instruction(v)
                    e.add_instruction(ir.Return(v))
                    try:
                        api.ir_to_object([m], arch)
                    except Exception:
                        bad.add((kind, op, t))
                        per[march] = per.get(march, 0) + 1
    ctx.cov["riscv_unselectable_elementary_ops"] = dict(per, union=len(bad))
    return bad


def rvlink_mod():
    from harness import rvlink

    return rvlink


def module_types(pm):
    """every type name a projected module mentions"""
    out = set()
    for f in pm["funcs"]:
        out.add(f["ret"])
        for q in f["params"]:
            out.add(q["ty"])
        for b in f["blocks"]:
            for i in b["ins"]:
                for k in ("ty", "aty"):
                    if isinstance(i.get(k), str):
                        out.add(i[k])
    for g in pm["globals"]:
        if g["k"] == "xfn":
            out.update(g["args"])
            out.add(g["ret"])
    return out - {""}


def rv_programs(ctx, bad, thorough):
    from engines.c02 import int_vectors
    from harness import absprog, irpatterns, optcorpus

    nvec = 4 if thorough else 3
    out = []
    stub = [{"name": "ext_f", "rets": [project_ir.limbs(STUB_VALUE, 4)] * 64}, {"name": "ext_p", "rets": []}]
    rng = random.Random("%d:c05:rv" % ctx.seed)
    # directed: every elementary operation of every type (the operands come in as arguments, go through a global)
    for t in RV_TYPES:
        for kind, ops in (("binop", BINOPS), ("unop", ["-", "~"])):
            for op in ops:
                if (kind, op, t) in bad:
                    continue

                def make(t=t, kind=kind, op=op):
                    from harness.irpatterns import B
                    from ppci import ir

                    b = B("f", t, [t, t])
                    x, y = b.p
                    T = getattr(ir, t)
                    if op in ("/", "%"):
                        y = b.bin(y, "|", b.c(1, t), t)
                    if op in ("<<", ">>", "rol", "ror"):
                        y = b.bin(y, "&", b.c(7, t), t)
                    v = b.bin(x, op, y, t) if kind == "binop" else b.e(ir.Unop(op, x, b.nm("u"), T))
                    b.ret(b.bin(v, "^", b.c(1, t), t))
                    return b.m

                key = "rvop.%s.%s.%s" % (kind, {"+": "add", "-": "sub", "*": "mul", "/": "div", "%": "rem", "|": "or", "&": "and",
                                                 "^": "xor", "<<": "shl", ">>": "shr", "~": "not"}.get(op, op), t)
                prng = random.Random(key)
                out.append({"key": key, "make": make, "fn": "f", "vecs": int_vectors([t, t], prng, nvec + 2), "ext": [],
                            "src": "engines/c05.py rv_programs: f(x, y) = (x %s y) ^ 1 on %s" % (op, t)})
    # more arguments than argument registers; narrow arguments; a call chain through memory arguments
    for n, t in ((8, "i32"), (9, "u8"), (7, "i16")):
        def make(n=n, t=t):
            from harness.irpatterns import B

            b = B("f", t, [t] * n)
            acc = b.c(0, t)
            for k, q in enumerate(b.p):
                acc = b.bin(b.bin(acc, "*", b.c(3, t), t), "+", b.bin(q, "^", b.c(k, t), t), t)
            b.ret(acc)
            return b.m

        key = "rvargs.%d.%s" % (n, t)
        out.append({"key": key, "make": make, "fn": "f", "vecs": int_vectors([t] * n, random.Random(key), nvec), "ext": [],
                    "src": "engines/c05.py rv_programs: %d arguments of type %s (6 argument registers)" % (n, t)})
    out += rv_directed(bad, nvec, thorough)
    # patterns
    pats = irpatterns.patterns(random.Random(rng.randrange(1 << 30)), thorough=thorough)
    pats = [p for p in pats if all(t in RV_TYPES for t in p[3])]
    npat = 400 if thorough else 24
    if npat < len(pats):
        always = [p for p in pats if ":self_loop:" in p[0]][:4] + \
                 [p for p in pats if any(a in p[0] for a in (":cross_loop:", ":swap_loop:", "tail:rotate:", "tail:swap:"))]
        rest = [p for p in pats if p not in always]
        pats = always + rng.sample(rest, max(0, npat - len(always)))
    for key, mk, fn, ptys in pats:
        def make(mk=mk):
            m = mk()
            restrict(m, bad)
            return m

        prng = random.Random(sum(ord(ch) * (k + 1) for k, ch in enumerate(key)))
        out.append({"key": key.replace(":", "."), "make": make, "fn": fn, "vecs": int_vectors(ptys, prng, nvec), "ext": stub,
                    "src": "harness/irpatterns.py pattern " + key})
    # irgen
    for _ in range(150 if thorough else 10):
        seed = rng.randrange(1 << 30)

        def make(seed=seed):
            m, info = irgen.gen_module(random.Random(seed), types=RV_TYPES, budget=10)
            restrict(m, bad)
            return m

        try:
            _, info = irgen.gen_module(random.Random(seed), types=RV_TYPES, budget=10)
        except Exception:
            ctx.cov["irgen_failed"] = ctx.cov.get("irgen_failed", 0) + 1
            continue
        prng = random.Random(seed ^ 0x5EED)
        out.append({"key": "rvir%d" % seed, "make": make, "fn": info["main"], "vecs": int_vectors(info["params"], prng, nvec), "ext": stub,
                    "src": "harness/irgen.py gen_module(random.Random(%d), types=i8..u32, budget=10) with the operations riscv cannot "
                           "select rewritten" % seed})
    # C programs through ppci's front-end (the IR it produces for riscv is the reference)
    for _ in range(60 if thorough else 4):
        seed = rng.randrange(1 << 30)
        prng = random.Random(seed)
        gen = absprog.Gen(prng, max_funcs=2, max_stmts=5, max_depth=2, types=["c8", "u8", "i16", "u16", "i32", "u32"],
                          features=absprog.DEFAULT_FEATURES - {"extern"})
        prog = gen.program()
        src = absprog.render_c(prog)

        def make(src=src):
            m = optcorpus.compile_c(src, "riscv")
            restrict(m, bad)
            return m

        try:
            make()
        except Exception:
            ctx.cov["c_frontend_rejected"] = ctx.cov.get("c_frontend_rejected", 0) + 1
            continue
        f, vecs = absprog.arg_vectors(prog, prng, nvec)
        out.append({"key": "rvc%d" % seed, "make": make, "fn": f["n"], "vecs": vecs, "ext": [], "src": src})
    return out


OPNAME = {"+": "add", "-": "sub", "*": "mul", "/": "div", "%": "rem", "|": "or", "&": "and", "^": "xor", "<<": "shl", ">>": "shr",
          "<": "lt", ">": "gt", "<=": "le", ">=": "ge", "==": "eq", "!=": "ne"}
RV_CONSTS = [-0x80000000, -0x12345, -0x10000, -4097, -4096, -2049, -2048, -2047, -33, -32, -1, 0, 1, 31, 32, 2047, 2048, 2049,
             4095, 4096, 0xFFFF, 0x10000, 0x1FFFF, 0x20000, 0x12345, 0x7FFFF800, 0x7FFFFFFF, 0xFFFFF800, 0xFFFFFFFF]


def rv_directed(bad, nvec, thorough):
    """directed modules for the places where a 32-bit register machine has to work for the narrow / wide values of IR:
    constants at the edges of the immediate fields, shifts by constants, every cast pair observed at 32 bits, comparisons of
    narrow values after an overflowing operation, narrow loads / stores, narrow values through calls"""
    from engines.c02 import int_vectors
    from harness.irpatterns import B

    out = []

    def add(key, make, ptys, src, extra=()):
        prng = random.Random(key)
        vecs = [list(v) for v in extra] + int_vectors(ptys, prng, nvec)
        out.append({"key": key, "make": make, "fn": "f", "vecs": vecs, "ext": [], "src": "engines/c05.py rv_directed: " + src})

    def edges(t):
        b = BITS[t]
        lo, hi = (-(1 << (b - 1)), (1 << (b - 1)) - 1) if t[0] == "i" else (0, (1 << b) - 1)
        return [lo, hi, -1 if lo < 0 else hi - 1, hi // 2 + 1]

    # constants: x op C and C op x, one module per constant C at the edges of the 6 / 12 / 20-bit immediates
    consts = RV_CONSTS if thorough else [-0x80000000, -4096, -2049, -2048, 2047, 2048, 0x1FFFF, 0x20000]
    for t in (("i32", "u32", "i16", "u8") if thorough else ("i32", "u32")):
        for op in (("+", "-", "&", "|", "^") if thorough else ("+", "&")):
            if ("binop", op, t) in bad:
                continue
            for side in ("xc", "cx"):
                for c in consts:
                    cw = c & ((1 << BITS[t]) - 1) if t[0] == "u" else ((c + (1 << (BITS[t] - 1))) % (1 << BITS[t])) - (1 << (BITS[t] - 1))
                    if cw != c and (BITS[t] == 32 and t[0] == "i" and c > 0x7FFFFFFF) is False and BITS[t] < 32:
                        continue

                    def make(t=t, op=op, side=side, c=c):
                        b = B("f", t, [t])
                        k = b.c(c, t)
                        b.ret(b.bin(b.p[0], op, k, t) if side == "xc" else b.bin(k, op, b.p[0], t))
                        return b.m

                    add("rvconst.%s.%s.%s.%s" % (t, OPNAME[op], side, ("m%x" % -c) if c < 0 else "%x" % c), make, [t],
                        "x %s %#x (%s) on %s" % (op, c, side, t), [[e] for e in edges(t)[:2]])
    # shifts with a constant operand, either side
    for t in RV_TYPES:
        for op in ("<<", ">>"):
            if ("binop", op, t) in bad:
                continue
            for side in ("xc", "cx"):
                for c in ((0, 1, 3, 7) if BITS[t] == 8 else (0, 1, 7, 15) if BITS[t] == 16 else (0, 1, 7, 15, 16, 31)):
                    if side == "cx" and c in (0, 16):
                        continue

                    def make(t=t, op=op, side=side, c=c):
                        b = B("f", t, [t])
                        x = b.p[0]
                        if side == "cx":
                            x = b.bin(x, "&", b.c(BITS[t] - 1, t), t)
                            v = b.bin(b.c(c if c < 16 else 0x41, t), op, x, t)
                        else:
                            v = b.bin(x, op, b.c(c, t), t)
                        b.ret(v)
                        return b.m

                    add("rvshc.%s.%s.%s.%d" % (t, OPNAME[op], side, c), make, [t], "%s with constant operand %d (%s)" % (op, c, side),
                        [[e] for e in edges(t)])
    # casts: every pair, observed through a 32-bit result
    for t in RV_TYPES:
        for t2 in RV_TYPES:
            if t == t2:
                continue
            for wide in (("i32", "u32") if thorough else ("u32",)):
                def make(t=t, t2=t2, wide=wide):
                    b = B("f", wide, [t])
                    v = b.cast(b.p[0], t2)
                    b.ret(v if t2 == wide else b.cast(v, wide))
                    return b.m

                add("rvcast.%s.%s.%s" % (t, t2, wide), make, [t], "(%s)(%s)x for x of type %s" % (wide, t2, t), [[e] for e in edges(t)])
    # comparisons of narrow values that went through an overflowing operation
    for t in ("i8", "u8", "i16", "u16"):
        for op in (("+", "-", "*") if thorough else ("+", "*")):
            if ("binop", op, t) in bad:
                continue
            for cond in (("<", ">", "<=", ">=", "==", "!=") if thorough else ("<", ">=", "==")):
                def make(t=t, op=op, cond=cond):
                    b = B("f", "i32", [t, t])
                    x, y = b.p
                    yes, no = b.block("yes"), b.block("no")
                    s = b.bin(x, op, y, t)
                    b.cj(s, cond, y, yes, no)
                    b.at(yes).ret(b.c(1, "i32"))
                    b.at(no).ret(b.c(2, "i32"))
                    return b.m

                e = edges(t)
                add("rvcmp.%s.%s.%s" % (t, OPNAME[op], OPNAME[cond]), make, [t, t], "(x %s y) %s y on %s" % (op, cond, t),
                    [[e[0], e[2]], [e[1], 1], [e[1], e[1]], [e[3], e[3]], [7, e[1]]])
    # narrow values in memory and through calls
    for t in ("i8", "u8", "i16", "u16", "i32"):
        def make(t=t):
            from ppci import ir

            b = B("f", "i32", [t, t])
            x, y = b.p
            sz = BITS[t] // 8
            g = b.glob("g", 4 * sz, bytes([0x80 + k for k in range(4 * sz)]))
            p0 = b.e(ir.AddressOf(g, b.nm("gp")))
            old = b.load(b.off(p0, 2 * sz), t)
            b.store(x, b.off(p0, sz))
            b.store(b.bin(y, "+", old, t), b.off(p0, 3 * sz))
            r = b.bin(b.cast(b.load(b.off(p0, sz), t), "i32"), "+", b.cast(b.load(b.off(p0, 3 * sz), t), "i32"), "i32")
            b.ret(b.bin(r, "^", b.cast(old, "i32"), "i32"))
            return b.m

        add("rvmem.%s" % t, make, [t, t], "narrow stores / loads of a global array of %s, widened to i32" % t,
            [[edges(t)[0], edges(t)[1]], [edges(t)[2], 1]])

        def make2(t=t):
            from ppci import ir

            b = B("h", t, [t, t])
            b.ret(b.bin(b.p[0], "+", b.p[1], t))
            h = b.f
            b2 = B("f", "i32", [t, t], module=b.m)
            r = b2.e(ir.FunctionCall(h, [b2.p[0], b2.p[1]], b2.nm("call"), getattr(ir, t)))
            r2 = b2.e(ir.FunctionCall(h, [r, b2.p[1]], b2.nm("call"), getattr(ir, t)))
            b2.ret(b2.cast(r2, "i32"))
            return b2.m

        add("rvcall.%s" % t, make2, [t, t], "h(h(x, y), y) with h(a, b) = a + b on %s, widened to i32" % t,
            [[edges(t)[1], 1], [edges(t)[0], edges(t)[2]]])
    return out


def rv_tags(pm, march):
    """Which of the listed riscv defect classes the module handed to the back-end can touch at all (part of the violation
    key; determined from the IR, not by the oracle):
      s2u        a cast from i8 / i16 to a wider unsigned type
      negimm     an i32 constant below -2048 (immediate patterns without lower bound)
      narrowcmp  a comparison, logical shift right, division or remainder on an 8 / 16-bit type
      rvcimm     (rvc) an i32 constant in 0x1F800..0x1FFFF
      rvcshift   (rvc) a shift of i32 with a constant operand"""
    tags = set()
    narrow = ("i8", "u8", "i16", "u16")
    for f in pm["funcs"]:
        consts = {}
        for b in f["blocks"]:
            for i in b["ins"]:
                if i["k"] == "const" and isinstance(i.get("v"), list):
                    v = int.from_bytes(bytes(i["v"]), "little", signed=i["ty"].startswith("i"))
                    consts[i["d"]] = v
                    if i["ty"] == "i32" and v < -2048:
                        tags.add("negimm")
                    if i["ty"] == "i32" and 0x1F800 <= v < 0x20000 and "rvc" in march:
                        tags.add("rvcimm")
        for b in f["blocks"]:
            for i in b["ins"]:
                if i["k"] == "cast" and i.get("aty") in ("i8", "i16") and i["ty"] in ("u16", "u32") and BITS[i["ty"]] > BITS[i["aty"]]:
                    tags.add("s2u")
                elif i["k"] == "cjmp" and i.get("aty") in narrow:
                    tags.add("narrowcmp")
                elif i["k"] == "binop":
                    if (i["op"] == ">>" and i["ty"] in ("u8", "u16")) or (i["op"] in ("/", "%") and i["ty"] == "u16"):
                        tags.add("narrowcmp")
                    if i["op"] in ("<<", ">>") and i["ty"] == "i32" and "rvc" in march and (i["a"] in consts or i["b"] in consts):
                        tags.add("rvcshift")
    return "{%s}" % "+".join(sorted(tags)) if tags else ""


def rv_stub_object(march, pm):
    """external functions as assembled stubs: return STUB_VALUE (procedures: return)"""
    rl = rvlink_mod()
    names = [g for g in pm["globals"] if g["k"] == "xfn"]
    if not names:
        return None
    lines = []
    for g in names:
        lines += ["global %s" % g["name"], "%s:" % g["name"]]
        if g["ret"]:
            lines.append("addi x10, x0, %d" % STUB_VALUE)
        lines.append("jalr x0, x1, 0")
    return rl.build_object(march, ["section code"] + lines)


def rv_prepare(ctx, programs, levels=LEVELS):
    """compile every program for both variants at every level, link, project the image; variants whose images are
    byte-identical share one execution"""
    from ppci import api

    rl = rvlink_mod()
    ready = []
    for p in programs:
        try:
            pm = project_ir.project_module(p["make"](), 4)
        except Exception:
            ctx.cov["rv_build_failed"] = ctx.cov.get("rv_build_failed", 0) + 1
            continue
        if not module_types(pm) <= set(RV_TYPES) | {"ptr"}:
            ctx.cov["rv_skipped_types"] = ctx.cov.get("rv_skipped_types", 0) + 1
            continue
        f = [x for x in pm["funcs"] if x["name"] == p["fn"]]
        if not f or not f[0]["ret"] or any(q["ty"] not in RV_TYPES for q in f[0]["params"]) or any(g["k"] == "xvar" for g in pm["globals"]):
            ctx.cov["rv_skipped_signature"] = ctx.cov.get("rv_skipped_signature", 0) + 1
            continue
        ptys = [q["ty"] for q in f[0]["params"]]
        vecs = [v for v in p["vecs"] if len(v) == len(ptys)]
        if not vecs:
            continue
        globs = [(g["name"], g["size"]) for g in pm["globals"] if g["k"] == "var"]
        images, variants = {}, []
        for march in RV_MARCHS:
            for lv in levels:
                label = "%s-O%s" % (march.replace(":", "+"), lv)
                try:
                    def work(march=march, lv=lv):
                        m = p["make"]()
                        if lv != "0":
                            api.optimize(m, level=lv)
                        try:
                            tags = rv_tags(project_ir.project_module(m, 4), march)
                        except Exception:
                            tags = ""
                        return api.ir_to_object([m], rl.arch_of(march)), tags

                    obj, tags = native.limited(work, native.COMPILE_LIMIT_S, "riscv codegen")
                except Exception as e:      # the back-end (or the optimiser) raised: C29 / C28's business, counted
                    k = "rv_skipped_codegen_" + type(e).__name__
                    ctx.cov[k] = ctx.cov.get(k, 0) + 1
                    continue
                try:
                    stub = rv_stub_object(march, pm)
                    linked = rl.link_objects([obj] + ([stub] if stub is not None else []), rl.LAYOUT_SPLIT)
                    img = rl.image_of(linked, p["fn"], globs)
                except Exception as e:
                    variants.append((label, None, "error:link:" + type(e).__name__, tags))
                    continue
                if img is None or rl.images_overlap(img):
                    variants.append((label, None, "error:image", tags))
                    continue
                h = native.digest(repr((img["segs"], img["entry"])).encode())
                images.setdefault(h, img)
                variants.append((label, h, None, tags))
        if not variants:
            continue
        ready.append({"p": p, "pm": pm, "ptys": ptys, "ret": f[0]["ret"], "vecs": vecs, "globs": globs, "images": images,
                      "variants": variants})
    return ready


def rv_micro(ctx):
    """M: RV32_Run on hand-written images whose results are known (loader, call wrapper, observation)"""
    rl = rvlink_mod()
    L = rl.limbs
    cases = []
    src = ["global main", "global g", "section code", "main:", "add x10, x12, x13", "la x7, g", "lw x6, 0(x7)", "add x10, x10, x6",
           "sw x10, 0(x7)", "lw x5, 0(x2)", "add x10, x10, x5", "jalr x0, x1, 0", "section data", "g:", "dd 0x11223344"]
    for march in RV_MARCHS:
        obj = rl.build_object(march, src)
        img = rl.image_of(rl.link_objects([obj], rl.LAYOUT_SPLIT), "main", [("g", 4)])
        calls = [{"regs": [[12, L(5)], [13, L(7)]], "stk": [[0, L(100)]]}, {"regs": [[12, L(-1)], [13, L(2)]], "stk": [[0, L(0)]]}]
        cases.append({"id": "micro-" + march, "imgs": [img], "calls": calls, "sp": rl.SP, "ra": rl.RA, "keep": rl.keep_regs(march),
                      "fuel": 50, "expect": {"status": "ok", "a0": [L(0x11223344 + 112), L(0x11223345)],
                                             "globals": [[{"name": "g", "bytes": L(0x11223344 + 12)}], [{"name": "g", "bytes": L(0x11223345)}]]}})
    # an endless loop ends "fuel", a jump out of the image "fault", a CSR access "outofmodel"
    for name, body, st in (("loop", ["main:", "beq x0, x0, main"], "fuel"), ("wild", ["main:", "jalr x0, x0, 64"], "fault"),
                           ("trap", ["main:", "ebreak"], "outofmodel")):
        obj = rl.build_object("riscv", ["global main", "section code"] + body)
        img = rl.image_of(rl.link_objects([obj], "MEMORY flash LOCATION=0x1000 SIZE=0x100 { SECTION(code) }\n"), "main", [])
        cases.append({"id": "micro-" + name, "imgs": [img], "calls": [{"regs": [], "stk": []}], "sp": rl.SP, "ra": rl.RA, "keep": [],
                      "fuel": 40, "expect": {"status": st, "a0": [[]], "globals": [[]]}})
    res, _ = rl.run_images(ctx, cases, "M: RV32_Run on hand-written images", emit=False,
                           invariants=("AsExpected", "ConventionKept", "TypeOK"), workers=2)
    for e in res.errors:
        raise MachineryError("RV32_Run self-check fails: %s %s" % (e, e.text[:1500]))
    ctx.cov["rv_micro_images"] = len(cases)


def run_riscv(ctx, thorough, only=None):
    import os

    rl = rvlink_mod()
    ctx.assume("tla/RV32.tla is the meaning of RV32IMC machine code (C08 validates ppci's encodings against it, RV32_MC its own "
               "laws); misaligned data accesses are performed byte-wise; the calling convention is the one ppci's RiscvArch "
               "declares (arguments x12..x17 then memory at sp, result x10, callee-saved x8 x9 x18..x27, sp)")
    ctx.assume("harness/rvlink.py copies the linked sections, symbol addresses and ppci's argument locations faithfully; an "
               "integer argument narrower than a register is passed as its own sign / zero extension; results are compared on "
               "the bytes of the IR return type")
    if only is None:
        rv_micro(ctx)
    bad = rv_probe_unsupported(ctx)
    programs = rv_programs(ctx, bad, thorough)
    if only is not None:
        programs = [p for p in programs if p["key"] == only]
    ctx.cov["rv_programs_generated"] = len(programs)
    ready = rv_prepare(ctx, programs)
    ctx.cov["rv_programs_compiled"] = len(ready)
    nvar = sum(len(r["variants"]) for r in ready)
    if only is None and nvar * 2 < len(programs) * len(RV_MARCHS) * len(LEVELS):
        # (on the unchanged tree 93 % of the generated modules compile at every level; the rest is C29's business)
        ctx.violation("C05:riscv:code-generation-collapses", "ppci generated riscv code for only %d of %d (module, variant, level) "
                      "combinations of the corpus: nothing is left to compare with the IR" % (nvar, len(programs) * len(RV_MARCHS) * len(LEVELS)),
                      {"part": "riscv", "skipped": {k: v for k, v in ctx.cov.items() if k.startswith("rv_skipped")}})
    # ---- run 1: the machine side
    cases, meta = [], []
    for r in ready:
        for h, img in r["images"].items():
            cases.append({"id": r["p"]["key"], "imgs": [img], "sp": rl.SP, "ra": rl.RA, "keep": rl.keep_regs("riscv"), "fuel": RV_FUEL,
                          "calls": [rl.call_record("riscv", r["ptys"], v) for v in r["vecs"]]})
            meta.append((r, h))
    ctx.cov["rv_distinct_images_executed"] = len(cases)
    observed = {}
    steps = []
    for b0 in range(0, len(cases), 2500):
        res, obs = rl.run_images(ctx, cases[b0:b0 + 2500], "RV32.tla executes the linked images (%d)" % (b0 // 2500), emit=True,
                                 invariants=("TypeOK",))
        for e in res.errors:
            raise MachineryError("unexpected TLC error in the RV32_Run run: %s\n%s" % (e, e.text[:1500]))
        for (ci, av, im), (o, n) in obs.items():
            r, h = meta[b0 + ci - 1]
            observed[(id(r), h, av)] = (o, n)
            steps.append(n)
    if steps:
        ctx.cov["rv_machine_instructions_executed"] = sum(steps)
        ctx.cov["rv_max_instructions_per_call"] = max(steps)
    # ---- run 2: the IR side judges.  One IR.tla case per (program, vector, distinct observation)
    TYB = {t: int(t[1:]) // 8 for t in RV_TYPES}
    ir_cases, ir_meta = [], []
    skipped = {}
    for r in ready:
        for vi, vec in enumerate(r["vecs"]):
            groups = {}
            for label, h, err, tags in r["variants"]:
                if err is not None:
                    ob = {"outcome": err, "ret": [], "globals": [], "hascalls": False, "calls": []}
                else:
                    got = observed.get((id(r), h, vi + 1))
                    if got is None:
                        raise MachineryError("no observation for %s %s vector %d" % (r["p"]["key"], label, vi + 1))
                    o, n = got
                    st = o["status"]
                    if st == "outofmodel":
                        # an instruction RV32.tla does not execute (illegal / reserved encoding, trap, CSR): integer code
                        # generated from IR has no business with any of them
                        st = "illegal-or-unmodelled-instruction"
                    if st == "fuel":
                        skipped[st] = skipped.get(st, 0) + 1
                        skipped.setdefault(st + "_programs", set()).add(r["p"]["key"] + ":" + label)
                        continue
                    if st == "ok" and not o["kept"]:
                        st = "convention-not-kept"
                    ob = {"outcome": "ok" if st == "ok" else "error:" + st,
                          "ret": list(o["a0"][:TYB[r["ret"]]]) if st == "ok" else [],
                          "globals": [{"name": g["name"], "bytes": list(g["bytes"])} for g in o["globals"]] if st == "ok" else [],
                          "hascalls": False, "calls": []}
                groups.setdefault(repr(ob), (ob, []))[1].append((label, tags))
            for ob, labels in groups.values():
                ir_cases.append({"id": "%s@%d" % (r["p"]["key"], vi), "mods": [r["pm"]], "fn": r["p"]["fn"],
                                 "argv": [[project_ir.limbs(v, TYB[t]) for v, t in zip(vec, r["ptys"])]],
                                 "ext": r["p"]["ext"], "fuel": 3000, "obs": ob})
                ir_meta.append((r, vec, labels, ob))
                ctx.count(None, n=len(labels))
    ctx.cov["rv_skipped_machine_side"] = {k: (sorted(v)[:12] if isinstance(v, set) else v) for k, v in skipped.items()}
    for r, vec, labels, ob in ir_meta[:3]:
        ctx.sample({"program": r["p"]["key"], "args": vec, "variants": [l for l, _ in labels], "observed": ob["outcome"], "x10": ob["ret"]})
    judged = 0
    for b0 in range(0, len(ir_cases), 5000):
        part = ir_cases[b0:b0 + 5000]
        path = ctx.trace_file(part)
        res2 = ctx.tlc("IR", RV_IR_CFG, label="IR.tla judges the riscv observations (%d)" % (b0 // 5000), env={"TRACE_FILE": path},
                       continue_=True, workers=WORKERS, heap="8g")
        os.unlink(path)
        acts = {k.split(".")[-1]: v for k, v in core.tlcmod.action_coverage(res2).items()}
        seen = set()
        for e in res2.errors:
            st = e.last
            i = st.get("i")
            if e.kind != "invariant" or e.name != "ObsMatchesImpl" or not isinstance(i, int) or not 1 <= i <= len(part):
                raise MachineryError("unexpected TLC error in the IR run: %s\n%s" % (e, e.text[:1500]))
            r, vec, labels, ob = ir_meta[b0 + i - 1]
            for lab, tags in labels:
                key = "C05:%s%s:%s" % (tags, r["p"]["key"], lab)
                if key in seen:
                    continue
                seen.add(key)
                ctx.violation(key, "%s(%s) [%s]: the linked image executed by RV32.tla ends %s with x10=%s globals=%s; the IR prescribes ret=%s" % (
                    r["p"]["fn"], ", ".join(map(str, vec)), lab, ob["outcome"], ob["ret"],
                    {g["name"]: bytes(g["bytes"]).hex() for g in ob["globals"]}, st.get("ret")),
                    {"program": r["p"]["key"], "part": "riscv", "source": r["p"]["src"][:6000], "args": vec, "variant": lab,
                     "observed": ob, "ir_state": {x: st.get(x) for x in ("status", "ret")}})
        judged += len(part)
    ctx.cov["traces_validated_against_impl"] += judged
    ctx.cov["distinct_nontrivial"] += sum(len(m[2]) for m in ir_meta)
