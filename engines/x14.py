"""X14 -- ppci.graph algorithms and mutable graph objects vs. Graphs2*.tla (idioms M + G/T + E).

Python only builds graphs, drives ppci's graph code and records what it answered / what the objects
showed; whether that is right is decided by TLC against tla/Graphs2.tla (definitions),
tla/Graphs2_SM.tla (DiGraph / MaskableGraph state machines) and their MC / Eval / Trace modules.
"""
import os
import re

from harness import core, tlaval, watchdog

tlcmod = core.tlcmod
P = "X14"
PK = 1000            # a pair <<a, b>> travels to TLC as PK * a + b
WORKERS = 8
NCHUNKS = 32         # = Graphs2_Eval.NChunks
STOP_AFTER = 60      # unknown violations after which later stages are skipped
CALL_LIMIT = 20.0    # seconds per call into ppci (a changed tree may loop forever)

MC_INVARIANTS = """INVARIANT LawSCCPartition
INVARIANT LawSCCWarshall
INVARIANT LawSCCMaximal
INVARIANT LawClasses
INVARIANT LawDag
INVARIANT LawTopoExists
INVARIANT LawLoopPaths
INVARIANT LawLoopShape
INVARIANT LawLoopsNest
INVARIANT LawAsBuiltLoops
INVARIANT LawCyclo
INVARIANT LawMaps
INVARIANT TsSound
INVARIANT TsFailsOnlyOnCycles
INVARIANT TsInv
INVARIANT GTypeOK
INVARIANT SucPredSymmetric
INVARIANT AdjSymmetric
INVARIANT NoDangling
INVARIANT DiRefines
INVARIANT MkRefines
PROPERTY MaskKeepsGraph
"""


def mc_cfg(nn, parts, kinds=("di", "mask"), notriggers=False, asbuilt=False, invariants=True):
    return ("CONSTANT NN = %d\nCONSTANT Parts = {%s}\nCONSTANT Kinds = {%s}\nCONSTANT NoTriggers = %s\n"
            "CONSTANT AsBuiltLoops = %s\nINIT Init\nNEXT Next\nCHECK_DEADLOCK FALSE\n" % (
                nn, ",".join('"%s"' % p for p in parts), ",".join('"%s"' % k for k in kinds),
                "{TRUE, FALSE}" if notriggers else "{FALSE}", "TRUE" if asbuilt else "FALSE")
            + (MC_INVARIANTS + "VIEW MCView\n" if invariants else ""))


MC_ACTIONS = {
    "laws": ["PickFirst", "PickRest"],
    "topo": ["TsStart", "TsRoot", "TsChild", "TsReturn", "TsDone"],
    "sm": ["SmStart", "A_DiAddNode", "A_DiAddEdge", "A_DiDelEdge", "A_DiDelSelf", "A_DiDelSelfRefused",
           "A_DiDelNode", "A_MkAddNode", "A_MkAddEdge", "A_MkDelEdge", "A_MkDelNode", "A_MkMask", "A_MkUnmask"],
}

EVAL_CFG = """INIT Init
NEXT Next
CHECK_DEADLOCK FALSE
ALIAS Shown
INVARIANT KnownClause
INVARIANT SccOK
INVARIANT DfsOK
INVARIANT TopoOK
INVARIANT LoopsOKOrListed
INVARIANT LoopsOK
INVARIANT NestOK
INVARIANT CountOKOrListed
INVARIANT CountOK
INVARIANT CycloOKOrListed
INVARIANT CycloOK
INVARIANT MapsOK
INVARIANT CallGraphOK
"""

TRACE_CFG = """CONSTANT NN = %d
INIT Init
NEXT Next
CHECK_DEADLOCK FALSE
ALIAS Shown
INVARIANT NotRejected
"""

# which violated invariant means what for the key (TLC decides listed deviation vs. something else)
CLAUSE_CLASS = {
    "LoopsOK": "loops:domreach", "LoopsOKOrListed": "loops:other", "NestOK": "loops:nesting",
    "CountOK": "count:adjsum", "CountOKOrListed": "count:other",
    "CycloOK": "cyclo:adjsum", "CycloOKOrListed": "cyclo:other",
}


def attempt(fn, what):
    try:
        return watchdog.limited(fn, CALL_LIMIT, what)
    except Exception as e:  # the outcome class is part of the observation
        return {"ok": False, "exc": type(e).__name__}


# ---------------------------------------------------------------------------
# driving ppci: static graphs (E)
# ---------------------------------------------------------------------------
class Driver:
    """Builds ppci graphs with deterministic node hashing and records the API answers."""

    def __init__(self):
        from ppci.graph import cfg, digraph, graph, cyclo, callgraph, maskable_graph

        self.cfg, self.digraph, self.graph, self.cyclo = cfg, digraph, graph, cyclo
        self.callgraph, self.maskable = callgraph, maskable_graph

        class HNode(cfg.ControlFlowNode):
            # hash = node number: set iteration order is fixed by the work list, not by addresses
            def __init__(self, g, idx):
                self.idx = idx
                super().__init__(g, name="n%d" % idx)

            def __hash__(self):
                return self.idx

        class HDiNode(digraph.DiNode):
            def __init__(self, g, idx):
                self.idx = idx
                super().__init__(g)

            def __hash__(self):
                return self.idx

        class HUNode(graph.Node):
            def __init__(self, g, idx):
                self.idx = idx
                super().__init__(g)

            def __hash__(self):
                return self.idx

        class TNode:
            """what graph.topological_sort works on: anything with .children"""

            def __init__(self, idx):
                self.idx = idx
                self.children = []

            def __hash__(self):
                return self.idx

        self.HNode, self.HDiNode, self.HUNode, self.TNode = HNode, HDiNode, HUNode, TNode

    def build_cfg(self, n, edges, entry):
        g = self.cfg.ControlFlowGraph()
        nodes = [None] + [self.HNode(g, k) for k in range(1, n + 1)]
        for a, b in edges:
            g.add_edge(nodes[a], nodes[b])
        g.entry_node = nodes[entry]
        g.exit_node = nodes[n]
        return g, nodes

    def build_di(self, n, edges):
        g = self.digraph.DiGraph()
        nodes = [None] + [self.HDiNode(g, k) for k in range(1, n + 1)]
        for a, b in edges:
            g.add_edge(nodes[a], nodes[b])
        return g, nodes


def _idx(idxmap, obj):
    try:
        return idxmap.get(obj, 999)
    except TypeError:
        return 999


def _num(v):
    if isinstance(v, bool) or not isinstance(v, int) or abs(v) >= 2 ** 30:
        return {"ok": False, "exc": "NotAnInt"}
    return {"ok": True, "n": abs(v), "neg": v < 0}


def graph_name(n, edges, entry):
    return "n=%d:e=%s:entry=%d" % (n, ",".join("%d>%d" % e for e in edges), entry)


def reachable(n, edges, start):
    seen, st = {start}, [start]
    while st:
        a = st.pop()
        for x, y in edges:
            if x == a and y not in seen:
                seen.add(y)
                st.append(y)
    return seen


ALL = ("scc", "dfs", "topo", "loops", "count", "cyclo", "maps")


def observe(drv, rng, n, edges, entry, what):
    """Every observation made on one graph.  `what` says which clauses to record; "loops" is only
    recorded when every node is reachable from the entry (the domain of dominance)."""
    obs = []
    if set(what) & {"scc", "loops", "count", "cyclo"}:
        g, nodes = drv.build_cfg(n, edges, entry)
        idxmap = {nodes[k]: k for k in range(1, n + 1)}
    if "scc" in what:
        def reach():
            t, x = [], []
            for a in range(1, n + 1):
                for b in range(1, n + 1):
                    try:
                        if g.can_reach(nodes[a], nodes[b]):
                            t.append(PK * a + b)
                    except watchdog.CallTimeout:
                        raise
                    except Exception:
                        x.append(PK * a + b)
            return {"ok": True, "t": t, "x": x}

        obs.append({"cl": "scc", "reach": attempt(reach, "can_reach")})
    if "dfs" in what:
        starts = [entry] if n == 1 else [entry, rng.randrange(1, n + 1)]
        for s in sorted(set(starts)):
            for rev in (False, True):
                def walk(s=s, rev=rev):
                    dg, dn = drv.build_di(n, edges)
                    dmap = {dn[k]: k for k in range(1, n + 1)}
                    return {"ok": True, "v": [PK * (0 if p is None else _idx(dmap, p)) + _idx(dmap, m)
                                             for p, m in drv.digraph.dfs(dn[s], reverse=rev)]}

                obs.append({"cl": "dfs", "start": s, "rev": rev, "out": attempt(walk, "dfs")})
    if "topo" in what:
        def topo():
            tn = [None] + [drv.TNode(k) for k in range(1, n + 1)]
            es = list(edges)
            rng.shuffle(es)
            for a, b in es:
                tn[a].children.append(tn[b])
            order = list(range(1, n + 1))
            rng.shuffle(order)
            res = drv.graph.topological_sort([tn[k] for k in order])
            return {"ok": True, "v": [getattr(x, "idx", 999) for x in res]}

        obs.append({"cl": "topo", "out": attempt(topo, "topological_sort")})
    if "loops" in what and len(reachable(n, edges, entry)) == n:
        def loops():
            return {"ok": True, "v": [[_idx(idxmap, lp.header)] + [_idx(idxmap, x) for x in lp.rest]
                                      for lp in g.calculate_loops()]}

        obs.append({"cl": "loops", "loops": attempt(loops, "calculate_loops")})
    if "count" in what:
        obs.append({"cl": "count", "nn": attempt(lambda: _num(len(g)), "len"),
                    "ne": attempt(lambda: _num(g.get_number_of_edges()), "get_number_of_edges")})
    if "cyclo" in what:
        obs.append({"cl": "cyclo", "cc": attempt(lambda: _num(drv.cyclo.cyclomatic_complexity(g)), "cyclo")})
    if "maps" in what:
        dg, dn = drv.build_di(n, edges)
        dmap = {dn[k]: k for k in range(1, n + 1)}

        def mp(get):
            return lambda: {"ok": True, "v": [sorted(_idx(dmap, y) for y in get(dn[k])) for k in range(1, n + 1)]}

        obs.append({"cl": "maps", "suc": attempt(mp(lambda x: x.successors), "successors"),
                    "pre": attempt(mp(lambda x: x.predecessors), "predecessors"),
                    "adj": attempt(mp(lambda x: x.adjecent), "adjecent")})
    return obs


def record(drv, rng, n, edges, entry=1, what=ALL, name=None):
    edges = [tuple(e) for e in edges]
    name = name or graph_name(n, edges, entry)
    obs = observe(drv, rng, n, edges, entry, what)
    for o in obs:
        tag = o["cl"]
        if tag == "dfs":
            tag += ":start=%d:rev=%d" % (o["start"], o["rev"])
        o["key"] = "%s:%s:%s" % (P, tag, name)
    return {"n": n, "edges": [PK * a + b for a, b in edges], "entry": entry, "obs": obs, "name": name}


# ---- call graphs -----------------------------------------------------------
def callgraph_record(drv, rng, F, X, calls, name):
    """Module with F defined routines (alternating procedures / functions) and X external routines
    plus an external variable; calls[f] = callee numbers, 0 = call through a pointer parameter."""
    from ppci import ir

    def build():
        m = ir.Module("m")
        routines = [None]
        for k in range(1, F + 1):
            r = ir.Procedure("f%d" % k, ir.Binding.GLOBAL) if k % 2 else ir.Function("f%d" % k, ir.Binding.GLOBAL, ir.i32)
            m.add_function(r)
            routines.append(r)
        m.add_external(ir.ExternalVariable("xv"))
        for k in range(1, X + 1):
            r = ir.ExternalProcedure("x%d" % k, []) if k % 2 else ir.ExternalFunction("x%d" % k, [], ir.i32)
            m.add_external(r)
            routines.append(r)
        for f in range(1, F + 1):
            r = routines[f]
            ptr = ir.Parameter("p", ir.ptr)
            r.add_parameter(ptr)
            blocks = [ir.Block("b%d" % j) for j in range(1 + (len(calls[f - 1]) > 1))]
            for b in blocks:
                r.add_block(b)
            r.entry = blocks[0]
            for j, cal in enumerate(calls[f - 1]):
                b = blocks[j % len(blocks)]
                callee = ptr if cal == 0 else routines[cal]
                if isinstance(callee, (ir.Function, ir.ExternalFunction)):
                    b.add_instruction(ir.FunctionCall(callee, [], "r", ir.i32))
                else:
                    b.add_instruction(ir.ProcedureCall(callee, []))
            if len(blocks) > 1:
                blocks[0].add_instruction(ir.Jump(blocks[1]))
            last = blocks[-1]
            if isinstance(r, ir.Function):
                c = ir.Const(0, "c", ir.i32)
                last.add_instruction(c)
                last.add_instruction(ir.Return(c))
            else:
                last.add_instruction(ir.Exit())
        return m

    def run():
        cg = drv.callgraph.mod_to_call_graph(build())
        nodes = list(cg.nodes)
        idxmap = {nd: k + 1 for k, nd in enumerate(nodes)}   # creation order = routine order
        return {"ok": True, "n": len(nodes),
                "edges": sorted(PK * idxmap[a] + _idx(idxmap, b) for a in nodes for b in cg.successors(a))}

    out = attempt(run, "mod_to_call_graph")
    indirect = int(any(0 in c for c in calls))
    key = "%s:callgraph:indirect=%d:%s%s" % (P, indirect, "" if out["ok"] else "exc=%s:" % out["exc"], name)
    o = {"cl": "callgraph", "F": F, "X": X, "calls": [list(c) for c in calls], "cg": out, "key": key}
    return {"n": 1, "edges": [], "entry": 1, "obs": [o], "name": name}


def callgraph_specs(rng, count):
    specs = [(1, 0, [[]]), (1, 0, [[1]]), (2, 1, [[2, 3], [1]]), (2, 2, [[3, 3, 2], []]), (2, 1, [[0], [1]]),
             (3, 1, [[2], [3], [1, 4, 0]])]
    for _ in range(count):
        F = rng.randrange(1, 6)
        X = rng.randrange(0, 4)
        ind = rng.random() < 0.2
        calls = []
        for f in range(F):
            c = [rng.randrange(1, F + X + 1) for _ in range(rng.choice((0, 1, 1, 2, 3, 5)))]
            if ind and rng.random() < 0.5:
                c.insert(rng.randrange(len(c) + 1), 0)
            calls.append(c)
        specs.append((F, X, calls))
    return specs


# ---------------------------------------------------------------------------
# work lists (inputs only; nothing here says what the right answer is)
# ---------------------------------------------------------------------------
def all_digraphs(n, selfloops):
    pairs = [(a, b) for a in range(1, n + 1) for b in range(1, n + 1) if selfloops or a != b]
    for mask in range(1 << len(pairs)):
        yield [p for i, p in enumerate(pairs) if mask >> i & 1]


def random_graph(rng, n):
    """Seeded random graph shaped like a CFG: spanning arborescence from node 1, extra forward /
    back / cross edges and self loops, sometimes an isolated or dangling part."""
    order = list(range(2, n + 1))
    rng.shuffle(order)
    edges, placed = set(), [1]
    detached = rng.random() < 0.2
    for k in order:
        if detached and k == order[-1]:
            break
        edges.add((rng.choice(placed), k))
        placed.append(k)
    for _ in range(rng.randrange(0, 2 * n)):
        a, b = rng.randrange(1, n + 1), rng.randrange(1, n + 1)
        if detached and order and order[-1] in (a, b) and rng.random() < 0.7:
            continue
        edges.add((a, b))
    return sorted(edges)


def random_dag(rng, n):
    perm = list(range(1, n + 1))
    rng.shuffle(perm)
    edges = set()
    for _ in range(rng.randrange(n, 3 * n)):
        i, j = sorted(rng.sample(range(n), 2))
        edges.add((perm[i], perm[j]))
    return sorted(edges)


def nested_loops(rng, depth):
    """while-loops nested `depth` deep with code behind every inner loop (entry 1)."""
    edges, n = [], 1
    def loop(entry_from, d):
        nonlocal n
        n += 1
        h = n
        edges.append((entry_from, h))
        cur = h
        if d > 1:
            cur = loop(h, d - 1)          # inner loop, returns its exit block
        n += 1
        body = n
        edges.append((cur, body))
        edges.append((body, h))
        if rng.random() < 0.5:
            edges.append((body, body))
        n += 1
        after = n
        edges.append((h, after))
        return after
    loop(1, depth)
    return n, sorted(set(edges))


def static_specs(ctx, thorough):
    """Work list per stage: (n, edges, entry, clauses).  The node / edge count and the cyclomatic
    complexity are recorded for every graph on <= 2 nodes (thorough: <= 3) and for seeded samples of
    the larger ones (every wrong answer costs TLC an error trace, and on a tree with a wrong edge
    count nearly every graph is one)."""
    rng = ctx.rng

    def some(base, p):
        return base if rng.random() < p else tuple(c for c in base if c not in ("count", "cyclo"))

    stages = []
    small = []
    for n in (1, 2, 3):
        for e in all_digraphs(n, True):
            small.append((n, e, 1, some(ALL, 1.0 if (n < 3 or thorough) else 0.2)))
    for d in (1, 2, 3):
        n, e = nested_loops(rng, d)
        small.append((n, e, 1, ALL))
    for _ in range(400 if thorough else 120):
        n = rng.randrange(5, 10)
        small.append((n, random_graph(rng, n), 1, some(ALL, 0.25)))
    for _ in range(200 if thorough else 60):
        n = rng.randrange(5, 10)
        small.append((n, random_dag(rng, n), 1, some(("topo", "scc", "count", "cyclo", "dfs"), 0.25)))
    stages.append(("<=3 nodes (all), nested loops, seeded 5-9 nodes", small))
    four = []
    for e in all_digraphs(4, False):
        if thorough:
            # thorough: all 65536 digraphs on 4 nodes -- every clause without and with all self
            # loops, topological_sort + loops on a seeded quarter of the other self-loop sets
            for lm in range(16):
                e2 = sorted(e + [(k + 1, k + 1) for k in range(4) if lm >> k & 1])
                if lm in (0, 15):
                    four.append((4, e2, 1, some(ALL, 0.1)))
                elif rng.random() < 0.25:
                    four.append((4, e2, 1, ("topo", "loops")))
        else:
            # quick: topological_sort and loops on every graph without self loops, loops again on one
            # seeded self-loop variant, the other clauses on a seeded eighth
            lm = rng.randrange(1, 16)
            e2 = sorted(e + [(k + 1, k + 1) for k in range(4) if lm >> k & 1])
            if rng.random() < 0.125:
                four.append((4, e, 1, some(ALL, 0.25)))
                four.append((4, e2, 1, some(ALL, 0.25)))
            else:
                four.append((4, e, 1, ("topo", "loops")))
                four.append((4, e2, 1, ("loops",)))
    stages.append(("4 nodes", four))
    if thorough:
        big = []
        for _ in range(3000):
            n = rng.randrange(5, 10)
            big.append((n, random_graph(rng, n), 1, some(ALL, 0.1)))
        for _ in range(600):
            n = rng.randrange(6, 12)
            big.append((n, random_dag(rng, n), 1, some(("topo", "scc", "count", "cyclo"), 0.1)))
        stages.append(("seeded 5-11 nodes", big))
    return stages


# ---------------------------------------------------------------------------
# judging static records
# ---------------------------------------------------------------------------
def judge(ctx, recs, label):
    if not recs:
        return None
    slim = [{"n": r["n"], "edges": r["edges"], "entry": r["entry"],
             "obs": [{k: v for k, v in o.items() if k != "key"} for o in r["obs"]]} for r in recs]
    prefix = os.path.join(ctx.workdir, "x14_%d_" % len(ctx.cov["tlc_runs"]))
    for ch in range(NCHUNKS):   # record g (0-based) is number g // NCHUNKS + 1 of chunk g % NCHUNKS + 1
        tlcmod.write_json("%s%d.json" % (prefix, ch + 1), slim[ch::NCHUNKS])
    res = ctx.tlc("Graphs2_Eval", EVAL_CFG, label=label, env={"TRACE_FILE": prefix}, continue_=True,
                  workers=WORKERS, coverage=False, heap="4g")
    for ch in range(NCHUNKS):
        os.unlink("%s%d.json" % (prefix, ch + 1))
    for r in recs:
        for o in r["obs"]:
            ctx.count(o["key"])
    ctx.cov["traces_validated_against_impl"] += sum(len(r["obs"]) for r in recs)
    seen = set()
    for e in res.errors:
        st = e.last
        k, ch, c = st.get("i"), st.get("chunk"), st.get("c")
        i = (k - 1) * NCHUNKS + ch if isinstance(k, int) and isinstance(ch, int) else None
        if e.kind != "invariant" or not (isinstance(i, int) and isinstance(c, int) and 1 <= i <= len(recs)
                                         and 1 <= c <= len(recs[i - 1]["obs"])):
            raise tlcmod.MachineryError("TLC error without record index in Graphs2_Eval: %s\n%s" % (e, e.text[:2000]))
        if (i, c) in seen:
            continue
        seen.add((i, c))
        rec = recs[i - 1]
        o = rec["obs"][c - 1]
        key = o["key"]
        cls = CLAUSE_CLASS.get(e.name)
        if cls:   # X14:<clause>:<graph>  ->  X14:<clause>:<class decided by TLC>:<graph>
            key = "%s:%s:%s" % (P, cls, rec["name"])
        ctx.violation(key, "ppci's answer for clause '%s' on %s differs from the definition [clause %s]: %s" % (
            o["cl"], rec["name"], e.name, _show(o)),
            {"graph": {k: rec[k] for k in ("n", "edges", "entry", "name")}, "observation": o, "clause": e.name})
    return res


def _show(o):
    return ", ".join("%s=%s" % (k, v) for k, v in o.items() if k not in ("cl", "key"))[:400]


# ---------------------------------------------------------------------------
# G: TLC-generated mutation histories, replayed into the real objects
# ---------------------------------------------------------------------------
_STATE_SPLIT = re.compile(r"^(?:STATE_\d+ ==|State \d+:)\s*$", re.M)


def parse_states(text):
    out = []
    for p in _STATE_SPLIT.split(text)[1:]:
        p = p.split("\n=====")[0]
        blk = "\n".join(x for x in p.strip().splitlines() if not x.startswith("\\*")).strip()
        out.append(tlaval.parse_state(blk))
    return out


def simulate_histories(ctx, nn, num, depth, notriggers):
    """TLC generates behaviours of the state machine; returns [(kind, [act, ...])]."""
    base = os.path.join(ctx.workdir, "sim%d" % len(ctx.cov["tlc_runs"]))
    ctx.tlc("Graphs2_MC", mc_cfg(nn, ("sm",), notriggers=notriggers, invariants=False),
            label="G generator (NN=%d, depth %d%s)" % (nn, depth, ", in half of the histories the calls that trigger "
                                                          "listed defects are left out" if notriggers else ""),
            simulate="file=%s,num=%d" % (base, num), depth=depth, seed=ctx.seed, workers=4, coverage=False)
    d = os.path.dirname(base)
    hist = []
    for fn in sorted(f for f in os.listdir(d) if f.startswith(os.path.basename(base) + "_")):
        with open(os.path.join(d, fn)) as f:
            states = parse_states(f.read())
        os.unlink(os.path.join(d, fn))
        acts = [dict(s["act"]) for s in states if isinstance(s.get("act"), dict) and s["act"].get("op") != "none"]
        kinds = [s.get("kind") for s in states if s.get("pc") == "sm"]
        if acts and kinds:
            hist.append((kinds[-1], acts))
    return hist


def scripted_histories():
    """A few hand-written histories (inputs only) so that the interesting situations occur in every run."""
    A, E, D, X, M, U = "AddNode", "AddEdge", "DelEdge", "DelNode", "Mask", "Unmask"

    def h(kind, *steps):
        return (kind, [{"op": s[0], "a": s[1], "b": s[2] if len(s) > 2 else 0} for s in steps])

    return [
        h("di", (A, 1), (A, 2), (A, 3), (E, 1, 2), (E, 2, 3), (E, 1, 3), (D, 1, 3), (X, 3), (A, 3), (E, 3, 1), (X, 1)),
        h("di", (A, 1), (A, 2), (E, 1, 2), (E, 2, 1), (D, 1, 2), (E, 1, 2), (D, 2, 1), (D, 1, 2)),
        h("di", (A, 1), (A, 2), (E, 1, 1), (E, 1, 2), (X, 1)),
        h("di", (A, 1), (E, 1, 1), (D, 1, 1), (X, 1)),
        h("di", (A, 1), (A, 2), (E, 1, 2), (E, 1, 2), (D, 2, 1), (D, 1, 2), (D, 1, 2), (A, 1), (X, 2), (X, 1)),
        h("mask", (A, 1), (A, 2), (A, 3), (E, 1, 2), (E, 1, 3), (M, 2), (M, 3), (U, 2), (U, 3), (X, 1)),
        h("mask", (A, 1), (A, 2), (A, 3), (E, 1, 2), (E, 2, 3), (M, 2), (E, 1, 3), (D, 1, 3), (M, 1), (U, 2), (U, 1), (D, 1, 2)),
        h("mask", (A, 1), (A, 2), (E, 1, 2), (E, 2, 2), (M, 2), (X, 1), (U, 2), (A, 1), (E, 1, 2)),
    ]


class Replayer:
    def __init__(self, drv, nn):
        self.drv, self.nn = drv, nn

    def run(self, kind, acts):
        drv, nn = self.drv, self.nn
        g = drv.digraph.DiGraph() if kind == "di" else drv.maskable.MaskableGraph()
        objs = {}
        ev = []

        def node(k):
            return objs[k]

        def call(a):
            op, x, y = a["op"], a["a"], a["b"]
            if op == "AddNode":
                if x in objs:
                    g.add_node(objs[x])
                else:
                    objs[x] = (drv.HDiNode if kind == "di" else drv.HUNode)(g, x)   # the constructor adds it
            elif op == "AddEdge":
                g.add_edge(node(x), node(y))
            elif op == "DelEdge":
                g.del_edge(node(x), node(y))
            elif op == "DelNode":
                g.del_node(node(x))
            elif op == "Mask":
                g.mask_node(node(x))
            elif op == "Unmask":
                g.unmask_node(node(x))
            else:
                raise ValueError(op)

        def ids(coll):
            return sorted(getattr(o, "idx", 999) for o in coll)

        def per_node(get):
            return [ids(get(objs[k])) if k in objs else [] for k in range(1, nn + 1)]

        def project():
            return {
                "nodes": ids(g.nodes),
                "masked": ids(g._masked_nodes) if kind == "mask" else [],
                "suc": per_node(lambda o: o.successors) if kind == "di" else [[] for _ in range(nn)],
                "pre": per_node(lambda o: o.predecessors) if kind == "di" else [[] for _ in range(nn)],
                "adj": per_node(lambda o: o.adjecent),
                "madj": per_node(lambda o: g._masked_adj[o]) if kind == "mask" else [[] for _ in range(nn)],
            }

        for a in acts:
            e = {"op": a["op"], "a": a["a"], "b": a["b"], "ok": True, "exc": ""}
            try:
                watchdog.limited(lambda: call(a), CALL_LIMIT, "mutator")
            except Exception as ex:
                e["ok"], e["exc"] = False, type(ex).__name__
            try:
                e["post"] = project()
            except Exception as ex:     # the object cannot even be read any more
                e["ok"], e["exc"] = False, "Project" + type(ex).__name__
                e["post"] = {"nodes": [], "masked": [], "suc": [[]] * nn, "pre": [[]] * nn, "adj": [[]] * nn,
                             "madj": [[]] * nn}
            ev.append(e)
            if not e["ok"] and not (a["op"] == "DelEdge" and a["a"] == a["b"]):
                break   # the object raised in the middle of a mutation: nothing after it is judged
        return {"kind": kind, "ev": ev}


def validate_histories(ctx, drv, nn, hist, label):
    rp = Replayer(drv, nn)
    traces = [rp.run(k, acts) for k, acts in hist]
    path = ctx.trace_file(traces)
    res = ctx.tlc("Graphs2_SM_Trace", TRACE_CFG % nn, label=label, env={"TRACE_FILE": path}, continue_=True,
                  workers=4, coverage=False)
    os.unlink(path)
    ctx.cov["traces_validated_against_impl"] += len(traces)
    ctx.cov["history_steps_replayed"] = ctx.cov.get("history_steps_replayed", 0) + sum(len(t["ev"]) for t in traces)
    for t, (k, acts) in zip(traces, hist):
        ctx.count("%s:sm:%s:%s" % (P, k, core.case_hash(acts)))
    seen = set()
    for e in res.errors:
        st = e.last
        i, l = st.get("i"), st.get("l")
        if e.kind != "invariant" or not (isinstance(i, int) and 1 <= i <= len(traces) and isinstance(l, int)
                                         and 0 <= l < len(traces[i - 1]["ev"])):
            raise tlcmod.MachineryError("Graphs2_SM_Trace: %s\n%s" % (e, e.text[:3000]))
        if i in seen:
            continue
        seen.add(i)
        tr = traces[i - 1]
        ev = tr["ev"][l]
        cls = list(st.get("cls") or ["", ""])
        if cls[1] == "Raised":
            cls[1] += "-" + ev["exc"]
        prefix = [{k: x[k] for k in ("op", "a", "b")} for x in tr["ev"][:l + 1]]
        key = "%s:sm:%s:%s:%s:%s:%s" % (P, tr["kind"], ev["op"], cls[0], cls[1], core.case_hash(prefix)[:8])
        ctx.violation(key, "the real %s leaves the state machine at step %d `%s(%s)` [situation %s, clause %s]: "
                      "observed %s%s; model state before the call: nodes=%s masked=%s edges=%s; history %s" % (
                          "DiGraph" if tr["kind"] == "di" else "MaskableGraph", l + 1, ev["op"],
                          ",".join(str(ev[x]) for x in ("a", "b") if ev[x]), cls[0], cls[1],
                          "" if ev["ok"] else "exception %s, then " % ev["exc"], ev["post"],
                          st.get("nodes"), st.get("masked"), st.get("edges"),
                          " ".join("%s(%s)" % (x["op"], ",".join(str(x[y]) for y in ("a", "b") if x[y])) for x in prefix)),
                      {"kind": tr["kind"], "acts": prefix, "nn": nn, "clause": "NotRejected"})
    return res


# ---------------------------------------------------------------------------
class Engine:
    LEVEL = "model_checking"

    def run(self, ctx):
        thorough = ctx.tier == "thorough"
        drv = Driver()
        ctx.rule("M: Graphs2_MC -- every digraph on 3 nodes (thorough: laws also on all 65536 digraphs on 4 nodes), self "
                 "loops included: laws of the definitions; topological_sort machine in every visiting order; DiGraph and "
                 "MaskableGraph state machines explored exhaustively from the empty graph over 3 (thorough 4) node "
                 "identities with all bookkeeping invariants. G/T: TLC -simulate behaviours of the state machine over 4 "
                 "node identities (half of them with the calls that trigger listed defects left out) plus hand-written "
                 "histories, replayed call by call into the real DiGraph / MaskableGraph; the projected object state "
                 "after every call is validated by TLC against the machine. E: per clause (scc via can_reach, dfs, "
                 "topological_sort, calculate_loops + nesting, node/edge count, cyclomatic complexity, "
                 "successors/predecessors/adjecent, mod_to_call_graph) ppci's answers are recorded and judged by TLC "
                 "against the definitions, for every digraph on <=3 nodes with self loops, every loop-free-of-self-loops "
                 "digraph on 4 nodes for topological_sort + loops, one seeded self-loop variant each for loops and a seeded "
                 "eighth for the other clauses (thorough: every clause on all 4096 without and with all four self loops, "
                 "topological_sort + loops on a seeded quarter of the 57344 other self-loop variants), nested-loop CFGs, "
                 "seeded random graphs and DAGs of 5-9 (11) nodes and seeded IR modules. distinct = distinct "
                 "(clause, graph) / distinct history")
        ctx.assume("the harness' projection of ppci node objects to numbers and of answers to JSON is faithful; call-graph "
                   "nodes are matched to routines by creation order (functions, then external routines)")
        ctx.assume("calls outside a mutator's asserted domain (end points that are not nodes of the graph, masked nodes) "
                   "are not made; cyclomatic_complexity is judged on connected graphs only (it documents P = 1); loops "
                   "are judged on graphs whose nodes are all reachable from the entry")
        if ctx.only is not None:
            return self.replay(ctx, drv)
        # ---- M ----
        runs = [(3, ("laws", "topo", "sm"), False)]
        if thorough:
            runs += [(4, ("laws",), False), (4, ("sm",), False)]
        for nn, parts, asb in runs:
            res = ctx.tlc("Graphs2_MC", mc_cfg(nn, parts), label="M NN=%d parts=%s" % (nn, "+".join(parts)),
                          workers=WORKERS, heap="4g")
            for e in res.errors:
                raise tlcmod.MachineryError("Graphs2_MC: the specification violates its own law %s: %s" % (e.name, e.text[:1500]))
            acts = tlcmod.action_coverage(res)
            missing = [a for p in parts for a in MC_ACTIONS[p] if not acts.get("Graphs2_MC." + a)]
            if missing:
                raise tlcmod.MachineryError("Graphs2_MC actions never taken: %s" % missing)
        if thorough:
            # the loop formula of cfg.calculate_loops, stated as a law, is refuted by the model
            res = ctx.tlc("Graphs2_MC", mc_cfg(4, ("laws",), asbuilt=True), label="loop formula of calculate_loops as a law "
                          "(expected to fail)", workers=WORKERS, heap="4g", coverage=False)
            bad = [e for e in res.errors if e.name == "LawAsBuiltLoops"]
            if not bad:
                raise tlcmod.MachineryError("Graphs2_MC with AsBuiltLoops=TRUE was expected to violate LawAsBuiltLoops")
            ctx.cov["tlc_runs"][-1]["errors"] = 0
            ctx.cov["tlc_runs"][-1]["expected_counterexample"] = "LawAsBuiltLoops"
            ctx.note("model: 'nodes dominated by the header that lie on a cycle through it' is not the natural loop, "
                     "e.g. edges %s (root 1)" % (bad[0].last.get("g"),))
        # ---- G / T ----
        nn = 4
        hist = scripted_histories()
        hist += simulate_histories(ctx, nn, 250 if thorough else 60, 50 if thorough else 28, True)
        ctx.sample({"history": "%s: %s" % (hist[-1][0], " ".join("%s(%s,%s)" % (a["op"], a["a"], a["b"]) for a in hist[-1][1][:12]))})
        validate_histories(ctx, drv, nn, hist, "T replayed histories")
        # ---- E ----
        cg = [callgraph_record(drv, ctx.rng, F, X, calls, "F=%d:X=%d:calls=%s" % (F, X, "/".join(",".join(map(str, c)) for c in calls)))
              for F, X, calls in callgraph_specs(ctx.rng, 300 if thorough else 60)]
        first = True
        for label, specs in static_specs(ctx, thorough):
            if len(ctx.violations) >= STOP_AFTER:
                ctx.note("more than %d violations so far: the remaining stages (from '%s') were not run" % (STOP_AFTER, label))
                break
            recs = [record(drv, ctx.rng, *sp) for sp in specs]
            if first:
                recs += cg
                first = False
            r = recs[len(recs) // 2]
            if r["obs"]:
                ctx.sample({"graph": r["name"], "observation": {k: v for k, v in r["obs"][0].items() if k != "key"}})
            for k in range(0, len(recs), 40000):
                judge(ctx, recs[k:k + 40000], "E " + label + ("[%d]" % (k // 40000) if len(recs) > 40000 else ""))

    def replay(self, ctx, drv):
        case = ctx.only["case"]
        if "acts" in case:
            validate_histories(ctx, drv, case.get("nn", 4), [(case["kind"], case["acts"])], "replay")
            return
        g, o = case["graph"], case["observation"]
        if o["cl"] == "callgraph":
            recs = [callgraph_record(drv, ctx.rng, o["F"], o["X"], o["calls"], g["name"])]
        else:
            edges = [(e // PK, e % PK) for e in g["edges"]]
            recs = [record(drv, ctx.rng, g["n"], edges, g["entry"], (o["cl"],), g["name"])]
        judge(ctx, recs, "replay")
