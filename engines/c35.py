"""C35 — GDB remote serial protocol: framing, acknowledgement, retransmission.

Deciding method: TLA+ specification tla/Rsp.tla + TLC.
  M  Rsp_MC      exhaustive exploration of the protocol design (RspIdeal: flags = {}):
                 framing config, ack/nack configs, liveness config; and of RspAsBuilt
                 (one run per design defect present in the tree) to show which
                 clause of the property the design as built violates
  T  Rsp_Trace   traces recorded from the real RspHandler / decoder() / transport.TCP by
                 the deterministic driver harness/rsp_replay.py, validated by TLC against
                 RspIdeal (a rejected trace is a violation)
  G  Rsp_MC      TLC behaviours of RspAsBuilt (exhaustive dump of the framing generator,
                 -simulate for the ack/nack model) replayed step by step into the real
                 objects, projected state compared after every action
Which defects are "as built" is itself decided by TLC: one probe trace per flag is
validated with and without the flag.
"""
import logging
import os
import re
import shutil
import threading

from harness import core, rsp_replay as R, tlaval
from harness import tlc as tlcmod

P = "C35"
DEC_FLAGS = ("NoNack", "QuoteHash", "NoNotif")
HANDLER_FLAGS = ("NoUnescape", "FullKills", "LastAckIgnored")
ALL_FLAGS = DEC_FLAGS + HANDLER_FLAGS
SAFETY = ("ExactlyOnce", "BadChecksumNacked", "NoAckLost", "ReceiverStaysAlive", "PeerDelivered",
          "Retransmit", "MutualExclusion", "TypeOK")
SPECIALS = (36, 35, 125, 42)
ALPHA6 = (36, 35, 125, 42, 39, 97)  # $ # } * ' a
ALPHA_CTL = (37, 43, 45, 58, 3, 97)  # % + - : ^C a

FLAG_WHAT = {
    "NoNack": "decoder() has no branch for '-': a negative acknowledgement never reaches the ack queue, so the sender never retransmits",
    "QuoteHash": "decoder() does not end the packet body at '#' when the previous byte is a quote: a payload ending in ' is never recognised as a packet",
    "NoNotif": "decoder() does not frame '%...#cs' notifications: a '+' inside a notification is taken for an acknowledgement",
    "NoUnescape": "rsp_unpack() does not undo the '}' escaping: payloads containing # $ } * are delivered in escaped form",
    "FullKills": "_ack_queue.put() on the full single-slot queue raises queue.Full inside the receiver thread, which ends: later messages are lost",
    "LastAckIgnored": "sendpkt() raises after its last retransmission even if that one was acknowledged",
}


# ---------------------------------------------------------------------------
# cfg text
def tla_set(xs):
    return "{" + ", ".join(str(x) for x in xs) + "}"


def flagset(flags):
    return "{{" + ", ".join('"%s"' % f for f in sorted(flags)) + "}}"


def mc_cfg(flags=(), budget=2, cap=1, clients=1, alphabet=(97,), maxlen=1, notif=(97,), lim=None,
           invariants=SAFETY, init="Init", next_="Next", view=True, spec=None, props=(), extra=""):
    L = dict(calls=0, peer=0, notif=0, nack=0, lost=0, spur=0, corrupt=0)
    L.update(lim or {})
    out = ["CONSTANTS", " Budget = %d" % budget, " AckCap = %d" % cap,
           " Clients <- %s" % ("OneClient" if clients == 1 else "MCClients"),
           " Payloads <- MCPayloads", " NotifPayloads <- MCNotifPayloads",
           " FlagChoices = %s" % flagset(flags), " Lim <- MCLim",
           " LCalls = %d" % L["calls"], " LPeer = %d" % L["peer"], " LNotif = %d" % L["notif"],
           " LNack = %d" % L["nack"], " LLost = %d" % L["lost"], " LSpur = %d" % L["spur"],
           " LCorrupt = %d" % L["corrupt"],
           " Alphabet = %s" % tla_set(alphabet), " NotifAlphabet = %s" % tla_set(notif),
           " MaxLen = %d" % maxlen, " MaxDepth = 100"]
    if spec:
        out.append("SPECIFICATION %s" % spec)
    else:
        out += ["INIT %s" % init, "NEXT %s" % next_]
    if view:
        out.append("VIEW View")
    out.append("CHECK_DEADLOCK FALSE")
    out += ["INVARIANT %s" % i for i in invariants]
    out += ["PROPERTY %s" % p for p in props]
    return "\n".join(out) + "\n" + extra


def trace_cfg(budget, cap, invariants=("ExactlyOnce", "BadChecksumNacked", "NoAckLost", "ReceiverStaysAlive",
                                        "PeerDelivered", "Retransmit", "MutualExclusion", "TypeOK")):
    out = ["CONSTANTS", " Budget = %d" % budget, " AckCap = %d" % cap, " Clients <- TraceClients",
           " Payloads = {}", " NotifPayloads = {}", " FlagChoices = {{}}", " Lim <- TraceLim",
           "INIT TInit", "NEXT TNext", "CHECK_DEADLOCK TRUE", "INVARIANT NotRejected"]
    out += ["INVARIANT %s" % i for i in invariants]
    return "\n".join(out) + "\n"


_ACT_RE = re.compile(r"^<(\w+) line \d+, col \d+ to line \d+, col \d+ of module (\w+)(?: \([\d ]+\))?>: (\d+):(\d+)", re.M)


def action_counts(raw):
    """{Module.Action: states generated} from TLC's -coverage output (also for actions reached through a
    wrapper definition, which TLC prints with a location suffix)."""
    out = {}
    for m in _ACT_RE.finditer(raw or ""):
        k = "%s.%s" % (m.group(2), m.group(1))
        out[k] = max(out.get(k, 0), int(m.group(4)))
    return out


# ---------------------------------------------------------------------------
# TLC jobs, possibly several at a time (each in its own scratch directory)
class Jobs:
    def __init__(self, ctx):
        self.ctx = ctx
        self.n = 0
        self.par = 2  # JVMs at a time in run_many (shared machine)
        self.lock = threading.Lock()

    def _run(self, module, cfg, label, kw):
        with self.lock:
            self.n += 1
            wd = os.path.join(self.ctx.workdir, "job_%d" % self.n)
        os.makedirs(wd, exist_ok=True)
        kw.setdefault("coverage", True)
        kw.setdefault("workers", 8)
        try:
            res = tlcmod.run(module, cfg, wd, **kw)
        finally:
            shutil.rmtree(wd, ignore_errors=True)
        return res

    def account(self, module, label, res):
        cov = self.ctx.cov
        cov["states"] += res.distinct
        cov["transitions"] += res.generated
        for k, v in action_counts(res.raw).items():
            cov["actions"][k] = cov["actions"].get(k, 0) + v
        cov["tlc_runs"].append({"module": module, "label": label, "distinct_states": res.distinct,
                                "states_generated": res.generated, "depth": res.depth,
                                "wall_s": round(res.wall, 2), "errors": len(res.errors)})

    def run(self, module, cfg, label, **kw):
        res = self._run(module, cfg, label, kw)
        self.account(module, label, res)
        return res

    def run_many(self, jobs):
        """jobs: [(module, cfg, label, kw)] -> [TLCResult], run concurrently."""
        out = [None] * len(jobs)
        errs = []

        def work(k):
            m, c, lab, kw = jobs[k]
            try:
                out[k] = self._run(m, c, lab, dict(kw))
            except BaseException as e:  # re-raised in the caller's thread
                errs.append(e)

        gate = threading.Semaphore(self.par)
        inner = work

        def work(k):  # noqa: F811
            with gate:
                inner(k)

        ths = [threading.Thread(target=work, args=(k,)) for k in range(len(jobs))]
        for t in ths:
            t.start()
        for t in ths:
            t.join()
        if errs:
            raise errs[0]
        for (m, c, lab, kw), res in zip(jobs, out):
            self.account(m, lab, res)
        return out


# ---------------------------------------------------------------------------
# recording traces from the real code
def real_pack(payload):
    """bytes produced by the real sender for `payload` (or an observation of its failure)."""
    from ppci.binutils.dbg.gdb.rsp import RspHandler
    try:
        return list(RspHandler.rsp_pack(bytes(payload).decode("latin-1")).encode("latin-1"))
    except Exception as e:
        return [-1, len(type(e).__name__)]


def notif_frame(payload):
    """'%' frame for a notification payload without special characters (peer side, harness-made)."""
    assert not any(b in SPECIALS for b in payload)
    return [37] + list(payload) + [35] + [ord(c) for c in "%02X" % (sum(payload) % 256)]


def trace(tid, rig_or_events, flags=(), strict=False):
    ev = rig_or_events.events if hasattr(rig_or_events, "events") else rig_or_events
    return {"id": tid, "flags": list(flags), "strict": strict, "events": ev}


def peer_pack(rig, payload):
    """The peer sends what the real sender produces for payload; TLC checks bytes = Pack(payload)."""
    bs = real_pack(payload)
    rig.line.extend(b for b in bs if 0 <= b < 256)
    rig.events.append({"ev": "peer_pack", "payload": list(payload), "bytes": bs})
    return bs


def drain(rig, limit=200):
    n = 0
    while rig.line and rig.rx_alive and rig.rx_pend == "" and not rig.stuck and n < limit:
        rig.rx_byte()
        n += 1


def framing_trace(payload, budget):
    """Sender and receiver side for one payload: sendpkt(payload) acknowledged, then the packed
    payload (as the real rsp_pack makes it) received byte by byte, followed by an ack."""
    rig = R.Rig("real", budget)
    try:
        rig.call(1, payload)
        rig.acquire(1)
        rig.peer([43])
        drain(rig)
        rig.get(1)
        peer_pack(rig, payload)
        rig.peer([43])
        drain(rig)
        return trace("fr:" + bytes(payload).hex(), rig)
    finally:
        rig.close()


def client_trace(tid, command, response):
    """The same exchange through ppci.binutils.dbg.gdb.client.GdbDebugDriver: _send_command ->
    RspHandler.sendpkt, reply delivered through _handle_message to the waiting caller."""
    from ppci.api import get_arch
    from ppci.binutils.dbg.gdb.client import GdbDebugDriver

    box = {}

    def make(tr):
        box["drv"] = GdbDebugDriver(get_arch("example"), transport=tr)
        return box["drv"]._rsp

    rig = R.Rig("real", 2, handler=make)
    try:
        rig.send_fn = lambda data: box["drv"]._send_command(data)
        rig.call(1, command)
        rig.acquire(1)
        rig.peer([43])
        peer_pack(rig, response)
        drain(rig)
        rig.get(1)
        got = rig.senders[1].result
        # what the caller of _send_command received, as one more delivery-like observation
        rig.events.append({"ev": "client_result", "payload": [ord(c) for c in got[1]] if got and got[0] == "ret" and isinstance(got[1], str) else [-1]})
        return trace(tid, rig)
    finally:
        rig.close()


def directed_traces(budget):
    """Hand-written schedules for the corners of the retransmission loop and the lock
    (reference-decoder double, so that '-' reaches the ack queue)."""
    out = []

    def run(tid, fn):
        rig = R.Rig("ref", budget)
        try:
            fn(rig)
            out.append(trace(tid, rig))
        except Exception as e:
            out.append(trace(tid, rig.events + [{"ev": "harness_exc", "error": type(e).__name__}]))
        finally:
            rig.close()

    for k in range(0, budget + 3):
        def nacks(rig, k=k):
            rig.call(1, [97, 125])
            rig.acquire(1)
            for _ in range(k):
                if rig._sender_status(1) != "wait":
                    break
                rig.peer([45])
                rig.rx_byte()
                rig.get(1)
            if rig._sender_status(1) == "wait":
                rig.peer([43])
                rig.rx_byte()
                rig.get(1)
            # whatever happened, the next send must work (lock released)
            rig.call(1, [98])
            rig.acquire(1)
            rig.get(1, timeout=True)
        run("dir:nacks=%d:budget=%d" % (k, budget), nacks)

    def contention(rig):
        rig.call(1, [97])
        rig.call(2, [98])
        rig.acquire(2)
        rig.peer([45, 43])
        rig.rx_byte()
        rig.get(2)
        rig.rx_byte()
        rig.get(2)
        rig.acquire(1)
        rig.peer([43])
        rig.rx_byte()
        rig.get(1)
    run("dir:lock:budget=%d" % budget, contention)

    def late_ack(rig):
        # reply lost, sender times out, the late ack is taken by the next send
        rig.call(1, [97])
        rig.acquire(1)
        rig.get(1, timeout=True)
        rig.peer([43])
        rig.rx_byte()
        rig.call(1, [98])
        rig.acquire(1)
        rig.get(1)
    run("dir:late-ack:budget=%d" % budget, late_ack)
    return out


def all_payloads(alphabet, maxlen):
    out = [[]]
    frontier = [[]]
    for _ in range(maxlen):
        frontier = [p + [a] for p in frontier for a in alphabet]
        out += frontier
    return out


def tcp_traces(ctx, payloads, nsplit):
    """The same stream under several chunkings through the real transport.TCP.recv_thread."""
    out = []
    rng = ctx.rng
    for k, (p, q) in enumerate(payloads):
        stream = [122] + real_pack(p) + [43] + real_pack(q) + [122, 43]
        if any(b < 0 for b in stream):
            continue
        stream = bytes(stream)
        cuts_list = [[], list(range(1, len(stream)))]
        for _ in range(nsplit):
            cuts_list.append(sorted(rng.sample(range(1, len(stream)), rng.randrange(1, min(5, len(stream))))))
        for cuts in cuts_list:
            chunks = [stream[a:b] for a, b in zip([0] + cuts, cuts + [len(stream)])]
            try:
                ev = R.run_tcp_pipeline(chunks)
                # the line content, piecewise, so that TLC ties the packets to Pack(payload)
                ev[0:1] = [{"ev": "peer", "bytes": [122]}, {"ev": "peer_pack", "payload": list(p), "bytes": real_pack(p)},
                           {"ev": "peer", "bytes": [43]}, {"ev": "peer_pack", "payload": list(q), "bytes": real_pack(q)},
                           {"ev": "peer", "bytes": [122, 43]}]
            except Exception as e:
                ev = [{"ev": "harness_exc", "error": type(e).__name__}]
            out.append(trace("tcp:%s+%s:cuts=%s" % (bytes(p).hex(), bytes(q).hex(), "-".join(map(str, cuts)) or "none"), ev))
    return out


PROFILES = {
    # payload alphabet, peer may nack, notifications, notification alphabet, spurious bytes, corrupt
    "clean": dict(alpha=(97, 98, 43, 45), nack=False, notif=True, nalpha=(97, 58), spur=(122,), corrupt=True),
    "full": dict(alpha=(97, 39, 125, 35, 36, 42, 43), nack=True, notif=True, nalpha=(97, 43), spur=(43, 45, 122), corrupt=True),
    "ref": dict(alpha=(97, 98, 39, 43), nack=True, notif=True, nalpha=(97, 43, 45), spur=(122,), corrupt=True),
    "refspur": dict(alpha=(97, 125), nack=True, notif=False, nalpha=(97,), spur=(43, 45, 122), corrupt=False),
}


def random_trace(ctx, tid, decoder, profile, budget, steps):
    """Random walk over the commands the driver can issue in the current state of the real objects."""
    rng = ctx.rng
    pr = PROFILES[profile]
    rig = R.Rig(decoder, budget)
    answered = 0
    ncalls = 0
    npeer = 0
    try:
        for _ in range(steps):
            if rig.stuck:
                break
            opts = []
            for c in (1, 2):
                st = rig._sender_status(c)
                if st in ("out", "done", "failed", "timeout") and ncalls < 4:
                    opts += [("call", c)]
                elif st == "lockwait" and not rig.lock.held:
                    opts += [("acquire", c)] * 3
                elif st == "wait":
                    if rig.q.items:
                        opts += [("get", c)] * 4
                    elif not rig.line and answered >= _npkts(rig):
                        opts += [("timeout", c)]
            if rig.rx_alive and rig.rx_pend == "" and rig.line:
                opts += [("rx",)] * 6
            if rig.rx_pend != "":
                opts += [("put_done",)] * 3 if not rig.q._full() else [("put_timeout",)]
            if answered < _npkts(rig):
                opts += [("reply", 43)] * 3
                if pr["nack"]:
                    opts += [("reply", 45)] * 2
                opts += [("lose",)]
            if npeer < 4:
                opts += [("send",)]
                if pr["corrupt"]:
                    opts += [("sendbad",)]
                if pr["notif"]:
                    opts += [("notify",)]
                opts += [("spur", b) for b in pr["spur"]]
            if not opts:
                break
            o = rng.choice(opts)
            if o[0] == "call":
                ncalls += 1
                rig.call(o[1], [rng.choice(pr["alpha"]) for _ in range(rng.randrange(0, 4))])
            elif o[0] == "acquire":
                rig.acquire(o[1])
            elif o[0] == "get":
                rig.get(o[1])
            elif o[0] == "timeout":
                rig.get(o[1], timeout=True)
            elif o[0] == "rx":
                rig.rx_byte()
            elif o[0] == "put_done":
                rig.put_finish(False)
            elif o[0] == "put_timeout":
                rig.put_finish(True)
            elif o[0] == "reply":
                answered += 1
                rig.peer([o[1]])
            elif o[0] == "lose":
                answered += 1
            elif o[0] == "send":
                npeer += 1
                peer_pack(rig, [rng.choice(pr["alpha"]) for _ in range(rng.randrange(0, 4))])
            elif o[0] == "sendbad":
                npeer += 1
                bs = real_pack([rng.choice(pr["alpha"]) for _ in range(rng.randrange(1, 4))])
                pos = [k for k in range(1, len(bs)) if bs[k] not in (35, 122)]
                if pos and all(b >= 0 for b in bs):
                    bs[rng.choice(pos)] = 122
                    rig.peer(bs)
            elif o[0] == "notify":
                npeer += 1
                rig.peer(notif_frame([rng.choice(pr["nalpha"]) for _ in range(rng.randrange(1, 4))]))
            elif o[0] == "spur":
                npeer += 1
                rig.peer([o[1]])
        drain(rig)
        return trace(tid, rig)
    finally:
        rig.close()


def _npkts(rig):
    return sum(1 for u in rig.transport.sent if u[:1] == [36])


# ---------------------------------------------------------------------------
# T: validate recorded traces with TLC, map every rejection to a keyed violation
def _hex(bs):
    return "".join("%02x" % (b & 255) for b in bs)


def _units(tx):
    return "".join(chr(u[0]) if len(u) == 1 and u[0] in (43, 45) else "P" for u in tx)


def rejection_key(tr, err):
    """Stable key naming the input class at which the specification refused the trace
    (naming only; the verdict is TLC's)."""
    st = err.last
    l = st.get("l")
    evs = tr["events"]
    if err.name != "NotRejected":
        prev = evs[l - 2]["ev"] if isinstance(l, int) and 2 <= l <= len(evs) + 1 else "?"
        return "%s:inv:%s:after=%s" % (P, err.name, prev), l
    if not isinstance(l, int) or not (1 <= l <= len(evs)):
        return "%s:trace:%s:l=%s" % (P, tr["id"], l), l
    ev = evs[l - 1]
    kind = ev.get("ev")
    dec = st.get("dec") if isinstance(st.get("dec"), dict) else {}
    if kind == "rx":
        m = ev.get("msg", {})
        mk = m.get("v") if m.get("k") == "ack" else m.get("k")
        deliv = ev.get("deliver") or []
        dl = "" if not deliv else ("esc" if any(125 in p for p in deliv) else "plain")
        key = "%s:rx:st=%s:byte=%s:ctx=%s:msg=%s:tx=%s:del=%s" % (
            P, dec.get("st"), ev.get("byte"), _hex((dec.get("buf") or [])[-3:]), mk, _units(ev.get("tx") or []), dl)
        if ev.get("dead"):
            key += ":dead=%s" % ev.get("error")
        if ev.get("blocked"):
            key += ":blocked"
        return key, l
    if kind == "put_timeout":
        return "%s:put_timeout:dead=%s" % (P, ev.get("error") if ev.get("dead") else "no"), l
    if kind == "ack_get":
        return "%s:ack_get:v=%s:tries=%s:tx=%s:out=%s" % (
            P, ev.get("v"), _tries(st, ev.get("c")), _units(ev.get("tx") or []), ev.get("out")), l
    if kind == "acquire":
        return "%s:acquire:tx=%s" % (P, "wire" if ev.get("tx") else "none"), l
    if kind == "peer_pack":
        return "%s:rsp_pack:payload=%s" % (P, _hex(ev.get("payload") or [])), l
    if kind == "stuck":
        return "%s:stuck:%s" % (P, ev.get("why")), l
    return "%s:%s:%s" % (P, kind, ev.get("at") or ev.get("out") or ev.get("error") or ""), l


def _tries(st, c):
    cl = st.get("cl")
    try:
        r = cl[c - 1] if isinstance(cl, list) else cl[c]
        return r.get("tries")
    except Exception:
        return "?"


def validate(ctx, jobs, traces, budget, cap, label, invariants=None):
    """Run Rsp_Trace over traces; returns {trace index: (key, l, err)} of rejected traces."""
    if not traces:
        return {}
    path = ctx.trace_file(traces)
    try:
        cfg = trace_cfg(budget, cap) if invariants is None else trace_cfg(budget, cap, invariants)
        res = jobs.run("Rsp_Trace", cfg, label, env={"TRACE_FILE": path}, continue_=True)
    finally:
        os.unlink(path)
    rejected = {}
    for e in res.errors:
        idx = e.last.get("i")
        if not isinstance(idx, int) or idx < 1 or idx > len(traces):
            raise tlcmod.MachineryError("TLC error without trace index in Rsp_Trace: %s\n%s" % (e, e.text[:2000]))
        key, l = rejection_key(traces[idx - 1], e)
        old = rejected.get(idx - 1)
        # keep the earliest rejection of a trace (an invariant may fail before the dead-lock)
        if old is None or (isinstance(l, int) and isinstance(old[1], int) and l < old[1]):
            rejected[idx - 1] = (key, l, e)
    return rejected


def report_rejections(ctx, traces, rejected):
    for k in sorted(rejected):
        key, l, e = rejected[k]
        tr = traces[k]
        evs = tr["events"]
        at = evs[l - 1] if isinstance(l, int) and 1 <= l <= len(evs) else None
        what = "trace %s: specification (RspIdeal) %s at event %s %s" % (
            tr["id"], "refuses" if e.name == "NotRejected" else "invariant %s fails" % e.name, l,
            {k2: v for k2, v in (at or {}).items() if k2 != "raw"})
        ctx.violation(key, what[:600], {"trace": tr, "clause": e.name, "at": l,
                                        "model_state": {k2: v for k2, v in e.last.items() if len(str(v)) < 300}})


# ---------------------------------------------------------------------------
# which defects are as built: probe traces judged by TLC with and without the flag
def probes():
    out = {}

    def rx_probe(name, line, decoder="real", after=None):
        rig = R.Rig(decoder, 1)
        try:
            rig.peer(line)
            drain(rig)
            if after:
                after(rig)
            out[name] = rig.events
        finally:
            rig.close()

    rx_probe("NoNack", [45])
    rx_probe("QuoteHash", [ord(c) for c in "$'#27"])
    rx_probe("NoNotif", [ord(c) for c in "%+#2B"])
    rx_probe("NoUnescape", [ord(c) for c in "$}]#DA"])
    rx_probe("FullKills", [43, 43], after=lambda rig: rig.put_finish(True) if rig.rx_pend != "" else None)
    rig = R.Rig("ref", 1)
    try:
        rig.call(1, [97])
        rig.acquire(1)
        rig.peer([45, 43])
        rig.rx_byte()
        rig.get(1)
        rig.rx_byte()
        rig.get(1)
        out["LastAckIgnored"] = rig.events
    finally:
        rig.close()
    return out


def detect_flags(ctx, jobs, cap):
    """One probe trace per design defect, recorded from the real code and judged by TLC twice:
    against RspIdeal and against the variant with that one flag.  The flag is "as built" iff only
    the variant can follow the trace (invariant NotRejected); the other invariants that fail on
    the variant's run name the clauses of the property the design as built violates."""
    pr = probes()
    traces = []
    for f in ALL_FLAGS:
        traces.append(trace("probe:%s:off" % f, pr[f], (), True))
        traces.append(trace("probe:%s:on" % f, pr[f], (f,), True))
    path = ctx.trace_file(traces)
    try:
        res = jobs.run("Rsp_Trace", trace_cfg(1, cap), "T probes: as-built detection and clauses violated by the as-built variant",
                       env={"TRACE_FILE": path}, continue_=True)
    finally:
        os.unlink(path)
    ctx.cov["traces_validated_against_impl"] += len(traces)
    failed = {}
    for e in res.errors:
        idx = e.last.get("i")
        if not isinstance(idx, int) or not (1 <= idx <= len(traces)):
            raise tlcmod.MachineryError("TLC error without trace index in probe run: %s" % e)
        failed.setdefault(idx - 1, {}).setdefault(e.name, e)
    on = []
    for k, f in enumerate(ALL_FLAGS):
        off_ok = "NotRejected" not in failed.get(2 * k, {})
        on_ok = "NotRejected" not in failed.get(2 * k + 1, {})
        if on_ok and not off_ok:
            on.append(f)
            clauses = sorted(failed.get(2 * k + 1, {}))
            ctx.count("design:%s" % f)
            if not clauses:
                ctx.note("as-built feature %s (%s) violates no clause of the property" % (f, FLAG_WHAT[f]))
            for cl in clauses:
                ctx.violation("%s:design:%s:%s" % (P, f, cl),
                              "the code follows the as-built variant %s of Rsp.tla (%s), and that variant violates %s on the "
                              "recorded probe %s" % (f, FLAG_WHAT[f], cl, [_evs(e) for e in pr[f]][:8]),
                              {"kind": "design", "flag": f, "invariant": cl, "trace": traces[2 * k + 1]})
        elif not on_ok and not off_ok:
            ctx.note("probe %s matches neither variant of the specification" % f)
    return on


def _evs(e):
    if e.get("ev") == "rx":
        return "rx(%s)->%s" % (e.get("byte"), e.get("msg", {}).get("v") or e.get("msg", {}).get("k"))
    if e.get("ev") == "peer":
        return "peer(%s)" % bytes(b & 255 for b in e.get("bytes", [])).decode("latin-1")
    return e.get("ev")


# ---------------------------------------------------------------------------
# G: replay model behaviours into the real objects
def _model_cl(st, c):
    cl = st.get("cl")
    try:
        return cl[c - 1] if isinstance(cl, list) else cl[c]
    except Exception:
        return None


def _obs_msg(m):
    return {"k": "none"} if isinstance(m, dict) and m.get("k") == "notif" else m


def compare(st, rig, last_ev, act):
    """First field in which the projected state of the real objects differs from the model state."""
    pr = rig.project()
    for f in ("txlog", "ackq", "delivered", "toClient"):
        if list(st.get(f, [])) != pr[f]:
            return f, {"model": st.get(f), "real": pr[f]}
    if bool(st.get("rxAlive")) != pr["rxAlive"]:
        return "rxAlive", {"model": st.get("rxAlive"), "real": pr["rxAlive"]}
    if st.get("rxPend") != pr["rxPend"]:
        return "rxPend", {"model": st.get("rxPend"), "real": pr["rxPend"]}
    for c in (1, 2):
        m = _model_cl(st, c)
        if m is None:
            continue
        real = pr["cl"].get(c, {"st": "out", "tries": 0})
        if m["st"] != real["st"]:
            return "cl.st", {"c": c, "model": m["st"], "real": real["st"]}
        if m["st"] != "out" and m["st"] != "lockwait" and m["tries"] != real["tries"]:
            return "cl.tries", {"c": c, "model": m["tries"], "real": real["tries"]}
    if act.get("a") == "RxByte" and last_ev is not None:
        if last_ev.get("ev") != "rx" or _obs_msg(last_ev.get("msg")) != _obs_msg(act.get("msg")):
            return "msg", {"model": act.get("msg"), "real": last_ev}
    if last_ev is not None and last_ev.get("ev", "").endswith(("_odd", "_nolock", "stuck")):
        return "event", {"real": last_ev}
    return None


def replay(states, decoder, budget):
    """Step the real objects through one model behaviour.  Returns None or a mismatch record."""
    rig = R.Rig(decoder, budget)
    try:
        st0 = states[0]
        if st0.get("toClient"):
            rig.line.extend(st0["toClient"])
        prev = st0
        for k, st in enumerate(states[1:], 1):
            act = st.get("act") or {}
            a = act.get("a")
            n = len(rig.events)
            if a == "Call":
                rig.call(act["c"], act["p"])
            elif a == "Acquire":
                rig.acquire(act["c"])
            elif a == "SenderGet":
                rig.get(act["c"])
            elif a == "SenderTimeout":
                rig.get(act["c"], timeout=True)
            elif a == "RxByte":
                rig.rx_byte()
            elif a == "RxPutComplete":
                rig.put_finish(False)
            elif a == "RxPutTimeout":
                rig.put_finish(True)
            elif a == "PeerLose":
                pass
            elif a in ("PeerAck", "PeerNack", "PeerSend", "PeerSendBad", "PeerNotify", "PeerSpurious"):
                rig.peer(st["toClient"][len(prev["toClient"]):])
            else:
                raise tlcmod.MachineryError("behaviour with unknown action %r" % (a,))
            evs = rig.events[n:]
            last = evs[0] if evs else None
            if rig.stuck:
                return {"step": k, "action": a, "field": "event", "detail": {"real": rig.events[-1]}}
            d = compare(st, rig, last, act)
            if d:
                return {"step": k, "action": a, "field": d[0], "detail": d[1]}
            prev = st
        return None
    finally:
        rig.close()


_STATE_SPLIT = re.compile(r"^(?:STATE_\d+ ==|State \d+:)\s*$", re.M)


def parse_states(text):
    parts = _STATE_SPLIT.split(text)[1:]
    out = []
    for p in parts:
        p = p.split("\n=====")[0]
        blk = "\n".join(l for l in p.strip().splitlines() if not l.startswith("\\*")).strip()
        out.append(tlaval.parse_state(blk))
    return out


def acts_of(states):
    return [dict(s.get("act") or {}) for s in states[1:]]


def g_framing(ctx, jobs, flags, cap, maxlen):
    """Exhaustive: every line content of the framing generator, every byte step."""
    dump = os.path.join(ctx.workdir, "framing_dump")
    cfg = mc_cfg(flags, 2, cap, 1, ALPHA6, maxlen, (97,), {}, invariants=(), init="FrInit", next_="FrNext", view=False)
    jobs.run("Rsp_MC", cfg, "G framing generator (as built %s)" % ",".join(flags), extra=["-dump", dump], coverage=False)
    with open(dump + ".dump") as f:
        states = parse_states(f.read())
    os.unlink(dump + ".dump")
    chains = {}
    for s in states:
        chains.setdefault(tuple(s["rxStream"]) + tuple(s["toClient"]), []).append(s)
    n = 0
    for line, chain in sorted(chains.items()):
        chain.sort(key=lambda s: len(s["rxStream"]))
        if [len(s["rxStream"]) for s in chain] != list(range(len(line) + 1)):
            raise tlcmod.MachineryError("framing dump: incomplete chain for %r" % (line,))
        n += 1
        ctx.count("G:fr:" + _hex(line))
        try:
            bad = replay(chain, "real", 2)
        except tlcmod.MachineryError:
            raise
        except Exception as e:
            bad = {"step": 0, "action": "harness", "field": type(e).__name__, "detail": {}}
        if bad:
            ctx.violation("%s:replay:framing:%s:%s:line=%s" % (P, bad["action"], bad["field"], _hex(line)),
                          "real decoder/handler leaves the as-built model %s at byte %d of line %s: %s" % (
                              list(flags), bad["step"], bytes(line), str(bad["detail"])[:300]),
                          {"kind": "replay", "line": list(line), "mismatch": bad})
    ctx.cov["behaviours_replayed"] = ctx.cov.get("behaviours_replayed", 0) + n
    return n


def g_simulate(ctx, jobs, flags, cap, decoder, num, depth, label, lim, alphabet, notif):
    base = os.path.join(ctx.workdir, "sim_" + decoder)
    cfg = mc_cfg(flags, 2, cap, 2, alphabet, 1, notif, lim, invariants=(), view=False)
    workers = 4
    jobs.run("Rsp_MC", cfg, label, simulate="file=%s,num=%d" % (base, num), depth=depth, seed=ctx.seed,
             workers=workers, coverage=False)
    d = os.path.dirname(base)
    files = sorted(f for f in os.listdir(d) if f.startswith(os.path.basename(base) + "_"))
    n = 0
    for fn in files:
        with open(os.path.join(d, fn)) as f:
            states = parse_states(f.read())
        os.unlink(os.path.join(d, fn))
        if len(states) < 2:
            continue
        n += 1
        acts = acts_of(states)
        ctx.count("G:%s:%s" % (decoder, core.case_hash(acts)))
        try:
            bad = replay(states, decoder, 2)
        except tlcmod.MachineryError:
            raise
        except Exception as e:
            bad = {"step": 0, "action": "harness", "field": type(e).__name__, "detail": {}}
        if bad:
            pre = acts[:bad["step"]]
            ctx.violation("%s:replay:%s:%s:%s:%s" % (P, decoder, bad["action"], bad["field"],
                                                     core.case_hash(pre)),
                          "real RspHandler (%s decoder) leaves the as-built model %s at step %d (%s): %s" % (
                              decoder, list(flags), bad["step"], bad["action"], str(bad["detail"])[:300]),
                          {"kind": "replay", "decoder": decoder, "actions": pre, "mismatch": bad})
    ctx.cov["behaviours_replayed"] = ctx.cov.get("behaviours_replayed", 0) + n
    return n


# ---------------------------------------------------------------------------
# M: the design itself
def m_ideal_jobs(tier):
    th = tier == "thorough"
    w = {"workers": 8 if th else 4}
    jobs = [
        ("Rsp_MC", mc_cfg((), 2, 1, 1, ALPHA6, 3, (97,), dict(peer=1, spur=1 if th else 0),
                          invariants=("Framing", "RefIsParse") + SAFETY),
         "M framing: every payload <=3 over {$ # } * ' a}, byte-wise, ideal", w),
        ("Rsp_MC", mc_cfg((), 2, 1, 1, (97,), 1 if th else 0, (97,), dict(calls=2, nack=3, lost=1, spur=2 if th else 1)),
         "M ack/nack: retransmission, budget 2, <=3 nacks, lost reply, spurious ack, ideal", w),
        ("Rsp_MC", mc_cfg((), 2, 1, 1, (125,), 1, (43,), dict(calls=1 if th else 0, peer=2, corrupt=1, notif=1, nack=1 if th else 0,
                                                               spur=1)),
         "M receive: <=2 peer packets, one corrupted, notification containing '+', ideal", w),
        ("Rsp_MC", mc_cfg((), 1, 1, 2, (97,), 1 if th else 0, (97,), dict(calls=3 if th else 2, nack=2, lost=1)),
         "M lock: two sender threads, budget 1, ideal", w),
        ("Rsp_MC", mc_cfg((), 2, 1, 2 if th else 1, (97,), 0, (97,), dict(calls=2, nack=2, lost=1, spur=1), invariants=(),
                          spec="Spec", props=("SendTerminates",), view=False),
         "M liveness: every send returns or raises (weak fairness), ideal", w),
    ]
    return jobs


# RspAsBuilt, one defect at a time, in the smallest configuration that exercises it
DESIGN_CFG = {
    "NoNack": dict(budget=1, alphabet=(97,), maxlen=0, notif=(97,), lim=dict(calls=1, nack=1)),
    "QuoteHash": dict(budget=1, alphabet=(39,), maxlen=1, notif=(97,), lim=dict(peer=1)),
    "NoNotif": dict(budget=1, alphabet=(97,), maxlen=0, notif=(43,), lim=dict(notif=1)),
    "NoUnescape": dict(budget=1, alphabet=(125,), maxlen=1, notif=(97,), lim=dict(peer=1)),
    "FullKills": dict(budget=1, alphabet=(97,), maxlen=0, notif=(97,), lim=dict(spur=2, peer=1)),
    "LastAckIgnored": dict(budget=1, alphabet=(97,), maxlen=0, notif=(97,), lim=dict(calls=1, nack=1, spur=1)),
}


def design_jobs(flags):
    """Which clause of the property does the design as built violate?"""
    out = []
    for f in flags:
        d = DESIGN_CFG[f]
        out.append(("Rsp_MC", mc_cfg((f,), d["budget"], 1, 1, d["alphabet"], d["maxlen"], d["notif"], d["lim"], view=False),
                    "M as built: %s alone" % f, {"workers": 2}))
    return out


def report_design(ctx, flags, results, cap):
    for f, res in zip(flags, results):
        if not res.errors:
            ctx.note("as-built feature %s violates no clause of the property in the bounded model (%s)" % (f, FLAG_WHAT[f]))
            continue
        e = res.errors[0]
        states = [s for _, s in e.states]
        acts = acts_of(states)
        ctx.count("design:%s" % f)
        # the counterexample is a behaviour of the as-built model: replay it into the real code
        confirmed = "not replayed"
        try:
            dec = "real" if f in DEC_FLAGS or f in ("NoUnescape", "FullKills") else "ref"
            bad = replay(states, dec, 1)
            confirmed = "reproduced step by step on the real code" if bad is None else "NOT reproduced on the real code: %s" % (bad,)
        except Exception as ex:
            confirmed = "replay failed: %s" % type(ex).__name__
        ctx.violation("%s:design:%s:%s" % (P, f, e.name),
                      "as-built design (%s) violates %s in the exhaustive model; shortest counterexample %s; %s" % (
                          FLAG_WHAT[f], e.name, [_short(a) for a in acts], confirmed),
                      {"kind": "design", "flag": f, "invariant": e.name, "actions": acts, "confirmed": confirmed})


def _short(a):
    a = dict(a)
    n = a.pop("a", "?")
    return n + ("(%s)" % ",".join("%s=%s" % kv for kv in sorted(a.items())) if a else "")


# ---------------------------------------------------------------------------
class Engine:
    LEVEL = "model_checking"

    def run(self, ctx):
        logging.disable(logging.CRITICAL)  # rsp.py logs every discarded byte
        try:
            self._run(ctx)
        finally:
            logging.disable(logging.NOTSET)

    def _run(self, ctx):
        th = ctx.tier == "thorough"
        jobs = Jobs(ctx)
        ctx.rule("M: Rsp.tla explored exhaustively (ideal: framing / ack-nack / receive / lock / liveness configs; as built: "
                 "one run per defect present). T: one trace per payload of length <=3 (4 thorough) over {$ # } * ' a} through the "
                 "real rsp_pack, sendpkt, decoder and decodepkt byte by byte, the same streams under several chunkings through "
                 "the real transport.TCP.recv_thread, and seeded random interleavings of calls, acks, nacks, notifications, "
                 "corrupted packets, time-outs (real decoder and reference-decoder double), all validated by TLC against RspIdeal. "
                 "G: every line of the framing generator (exhaustive dump) and simulated behaviours of the as-built model replayed "
                 "into the real objects with state comparison after each action. distinct = distinct trace id / behaviour hash")
        ctx.assume("harness/rsp_replay.py: virtual queue/lock/transport faithfully stand in for queue.Queue, threading.Lock "
                   "and a socket (time-outs fire only when the driver says so); events are recorded without interpretation")
        ctx.assume("line noise is limited to one damaged body byte or checksum digit per packet and bytes < 0x80; "
                   "run-length encoding ('*' in replies) is outside the property")
        from ppci.binutils.dbg.gdb import rsp as _rsp  # noqa: F401  (import errors are machinery failures)

        cap = R.Rig("real", 1)
        # Queue(maxsize=0) is unbounded
        capv = 1
        if isinstance(cap.cap, int) and not isinstance(cap.cap, bool):
            capv = cap.cap if 1 <= cap.cap < 1000 else (999 if cap.cap <= 0 else 1)
        cap.close()

        if ctx.only is not None:
            case = ctx.only.get("case") or {}
            if "trace" in case:
                ctx.note("replaying the recorded events of %s against the specification (re-record by running the tier)" % case["trace"]["id"])
                rej = validate(ctx, jobs, [case["trace"]], 2 if not case["trace"]["id"].startswith("probe") else 1, capv, "T replay")
                report_rejections(ctx, [case["trace"]], rej)
                return

        flags = detect_flags(ctx, jobs, capv)
        ctx.cov["as_built_flags"] = list(flags)
        # M (ideal design, and the as-built design one defect at a time) runs in the background
        # while traces are recorded, validated (T) and behaviours replayed (G)
        mjobs = m_ideal_jobs(ctx.tier)
        djobs = design_jobs(flags) if th else []
        mres = {}
        mthread = threading.Thread(target=lambda: mres.setdefault("r", _safe(lambda: jobs.run_many(mjobs + djobs))))
        mthread.start()
        try:
            traces = self.record(ctx, th)
            for t in traces:
                ctx.count("T:" + t["id"])
            for t in traces[:: max(1, len(traces) // 3)][:3]:
                ctx.sample({"id": t["id"], "events": t["events"][:6]})
            rej = validate(ctx, jobs, traces, 2, capv, "T %d recorded traces vs RspIdeal" % len(traces))
            ctx.cov["traces_validated_against_impl"] += len(traces)
            ctx.cov["traces_rejected"] = len(rej)
            report_rejections(ctx, traces, rej)
            if th:
                # other retry budgets for the retransmission loop (reference-decoder double)
                for budget in (1, 3):
                    extra = directed_traces(budget)
                    for k in range(300):
                        tid = "rand:ref:budget%d:%d" % (budget, k)
                        extra.append(_rec(lambda: random_trace(ctx, tid, "ref", "ref", budget, 40), tid))
                    for t in extra:
                        ctx.count("T:" + t["id"])
                    rej2 = validate(ctx, jobs, extra, budget, capv, "T %d random traces, budget %d" % (len(extra), budget))
                    ctx.cov["traces_validated_against_impl"] += len(extra)
                    ctx.cov["traces_rejected"] += len(rej2)
                    report_rejections(ctx, extra, rej2)
            self.generate(ctx, jobs, flags, capv, th)
        finally:
            mthread.join()
        r = mres.get("r")
        if isinstance(r, BaseException):
            raise r
        for (m, c, lab, kw), res in zip(mjobs, r):
            for e in res.errors:
                raise tlcmod.MachineryError("the ideal specification violates %s in config '%s':\n%s" % (
                    e.name, lab, [a for a, _ in e.states][-12:]))
        self.check_coverage(ctx)
        if djobs:
            report_design(ctx, flags, r[len(mjobs):], capv)

    def generate(self, ctx, jobs, flags, capv, th):
        g_framing(ctx, jobs, flags, capv, 3 if th else 2)
        lim = dict(calls=3, peer=2, notif=1, nack=3, lost=1, spur=2, corrupt=1)
        n = 700 if th else 60
        g_simulate(ctx, jobs, flags, capv, "real", n, 45, "G simulate as-built model, real decoder", lim, (97, 125), (43,))
        g_simulate(ctx, jobs, [f for f in flags if f in HANDLER_FLAGS], capv, "ref", n, 45,
                   "G simulate as-built handler, reference-decoder double", lim, (97, 125), (43,))

    def record(self, ctx, th):
        traces = []
        pls = all_payloads(ALPHA6, 3)
        if th:
            pls += [p for p in all_payloads(ALPHA6 + (43,), 4) if len(p) == 4][:: 3]
        else:
            # quick: every payload <=2 and every fourth of length 3 (all of them in the thorough tier; the model
            # run "M framing" and the generator "G framing" cover the whole set in both tiers)
            pls = [p for p in pls if len(p) <= 2] + [p for p in pls if len(p) == 3][:: 4]
        # bytes that mean something *outside* a frame (% notification start, + / - acknowledgements, : , 0x03 interrupt)
        # are ordinary payload inside one: rsp_pack does not escape them
        ctl = all_payloads(ALPHA_CTL, 3)
        pls_ctl = [p for p in ctl if 0 < len(p) <= 2] + [p for p in ctl if len(p) == 3][:: (1 if th else 5)]
        for p in pls + pls_ctl:
            traces.append(_rec(lambda p=p: framing_trace(p, 2), "fr:" + bytes(p).hex()))
        for k, (cmd, rsp) in enumerate((("m 65,4", "01027309"), ("g", "0000"), ("Z0,62,4", "OK"), ("c", "S05"))):
            if rsp == "S05":
                continue  # stop replies go to another queue: _send_command would wait for wall-clock time
            traces.append(_rec(lambda: client_trace("client:%d" % k, [ord(c) for c in cmd], [ord(c) for c in rsp]), "client:%d" % k))
        traces += directed_traces(2)
        rng = ctx.rng
        pairs = [(p, rng.choice(pls[:43])) for p in pls[: 15 if not th else 100]]
        traces += tcp_traces(ctx, pairs, 2 if not th else 4)
        nrand = 700 if th else 40
        for k in range(nrand):
            for dec, prof in (("real", "clean"), ("real", "full"), ("ref", "ref"), ("ref", "refspur")):
                tid = "rand:%s:%s:%d" % (dec, prof, k)
                traces.append(_rec(lambda: random_trace(ctx, tid, dec, prof, 2, 40), tid))
        return traces

    def check_coverage(self, ctx):
        need = ("CallAny", "Acquire", "SenderGetF", "SenderTimeout", "RxByte", "RxPutComplete", "RxPutTimeout",
                "PeerAck", "PeerNack", "PeerLose", "PeerSendAny", "PeerSendBadAny", "PeerNotifyAny", "PeerSpuriousAny")
        acts = ctx.cov["actions"]
        missing = [a for a in need if not acts.get("Rsp." + a)]
        if missing:
            raise tlcmod.MachineryError("M configs do not take the actions %s" % missing)


def _safe(fn):
    try:
        return fn()
    except BaseException as e:
        return e


def _rec(fn, tid):
    try:
        return fn()
    except Exception as e:  # a harness-level failure on a changed tree is an observation, not a crash
        return trace(tid, [{"ev": "harness_exc", "error": type(e).__name__}])
