"""X18 -- disassembly inverts encoding (tla/Dis.tla; idioms M + E).

Python only projects the pattern tables of ppci's instruction classes, builds instruction instances, calls
str() / encode() / Instruction.decode() / Disassembler.disasm on the real code and writes down what came
back (harness/disgen.py).  Whether a decode is right is decided by TLC: Dis_Eval.tla states every clause
with the table operators of Dis.tla (the decoder derived from the encoder's pattern table); Dis_Ref.tla
adds the clause that needs an architecture reference (the decoded text means the bytes: Mips.tla, Or1k.tla,
MicroBlaze.tla); Dis_MC.tla model-checks the table machinery itself on small tables."""
import os

from harness import asmgen2, core, disgen
from harness import tlcclean

tlcmod = core.tlcmod

ISAS = [("x86_64", "x86_64"), ("arm", "arm"), ("arm:thumb", "thumb"), ("riscv", "riscv"), ("riscv:rvc", "rvc"),
        ("msp430", "msp430"), ("avr", "avr"), ("m68k", "m68k"), ("mips", "mips"), ("or1k", "or1k"),
        ("xtensa", "xtensa"), ("microblaze", "microblaze"), ("stm8", "stm8"), ("mcs6500", "mcs6500")]
REF_ISAS = ("mips", "or1k", "microblaze")

MC_INV = ["TypeOK", "DecEnc", "MatchReencodes", "Resync", "SplitsRight", "NeverData", "JunkIsData", "PrefixFreeAsExpected"]
MC_ACTIONS = ["Emit", "EmitJunk", "Seal", "DecodeOne", "EmitData", "Finish"]
EVAL_INV = ["EncodesTable", "Decodes", "Usable", "RoundTripBytes", "FieldsInvert", "SameOperands", "TextEqual",
            "MatchSound", "MatchExact", "RefusesCleanly", "AliasReencodes", "SplitUnambiguous", "SplitFinds", "DisassemblerSplits"]
BASE_CFG = "INIT Init\nNEXT Next\nCHECK_DEADLOCK FALSE\n"

WHAT = {
    "EncodesTable": "encode() does not produce the bytes the class's own pattern table gives",
    "Decodes": "the class's pattern table covers every operand, yet decode() of one of its own encodings fails",
    "Usable": "the decoded instruction cannot be printed or encoded",
    "RoundTripBytes": "the decoded instruction does not re-encode to the bytes it was decoded from",
    "FieldsInvert": "a field of the decoded instruction is not the field of the decoded bytes",
    "SameOperands": "an operand of the decoded instruction is not the operand that was encoded",
    "TextEqual": "the decoded instruction has the same operands but prints another text",
    "MatchSound": "a class decodes bytes its fixed bit patterns do not match",
    "MatchExact": "a class with a complete pattern table does not decode exactly the words its fixed bits match",
    "RefusesCleanly": "a class reports bytes that are none of its encodings by another exception than the documented "
                      "ValueError (a register field that names no register of the operand's class)",
    "AliasReencodes": "another class decodes the bytes to an instruction that re-encodes to other bytes",
    "SplitUnambiguous": "at an instruction boundary a class decodes a prefix of another length (the stream "
                        "cannot be split by the table)",
    "SplitFinds": "at an instruction boundary the instruction's own class does not decode the right prefix",
    "DisassemblerSplits": "Disassembler.disasm does not cut the stream at the instruction boundaries / does not "
                          "show the instructions",
    "DecodedMeansBytes": "the text of the decoded instruction is not an in-range assembly statement for the "
                         "decoded bytes according to the architecture reference (the encoded instruction's text is)",
}


def _bits(data):
    return disgen.bytes_bits(data)


def _feature(text):
    """input feature that goes into the key: neg = the printed instance has a negative number"""
    import re
    return "neg" if re.search(r"-\d", text) else "-"


def collect_isa(ctx, rng, march, short, isa_idx, thorough, want=None):
    """table + records of one instruction set"""
    from ppci.api import get_arch

    arch = get_arch(march)
    classes = disgen.class_table(arch)
    rows = [row for _c, row in classes]
    pools = asmgen2.Pools(rng)
    per_class = 14 if thorough else 5
    with_cands = 4 if thorough else 1
    recs = []
    pool = []  # (class index, ins, text, data, decoded text) for the streams
    if want is not None:
        per_class, with_cands = 14, 4
    for k, (cls, row) in enumerate(classes, 1):
        if len(row["pats"]) > 12 or row["len"] > 12 or row["len"] == 0:
            continue
        n = 0
        for ins, text, data in disgen.instances(cls, pools, rng, per_class):
            n += 1
            try:
                fv = disgen.field_values(ins)
                ops = disgen.operand_values(ins)
            except Exception:
                continue
            dec = disgen.observe_decode(cls, data)
            rec = {"t": "ins", "isa": isa_idx, "cls": k, "text": text, "bits": _bits(data), "fv": fv, "ops": ops,
                   "dec": {"out": dec["out"], "exc": dec["exc"], "text": dec["text"], "bits": _bits(dec["bytes"]),
                           "ops": dec["ops"], "fv": dec["fv"]},
                   "cands": [], "key": "%s:%s:f=%s:%s" % (short, row["name"], _feature(text), text),
                   "hex": data.hex(), "march": march}
            if n <= with_cands:
                rec["cands"] = [{"c": c["c"], "out": c["out"], "bits": _bits(c["bytes"])}
                                for c in disgen.candidate_outcomes(classes, data, k)]
            recs.append(rec)
            pool.append((k, ins, text, data, dec["text"] if dec["out"] == "decoded" else ""))
    # streams of 2..4 instructions (no data directives: those match everything)
    sizes = sorted({row["len"] for row in rows if row["len"] > 0})
    cand = [p for p in pool if any(pt["fix"] for pt in rows[p[0] - 1]["pats"])
            and type(p[1]).__module__ != "ppci.arch.data_instructions"]
    nstreams = (60 if thorough else 12) if cand else 0
    for s in range(nstreams):
        parts = [rng.choice(cand) for _ in range(rng.randrange(2, 5))]
        data = b"".join(p[3] for p in parts)
        at = []
        off = 0
        for p in parts:
            at.append([{"n": o["n"], "c": o["c"], "out": o["out"]} for o in
                       disgen.prefix_outcomes(classes, data[off:], sizes)])
            off += len(p[3])
        d = disgen.observe_disassembler(arch, data)
        recs.append({"t": "stream", "isa": isa_idx,
                     "parts": [{"cls": p[0], "bits": _bits(p[3]), "text": p[2], "dtext": p[4]} for p in parts],
                     "at": at,
                     "dis": {"ok": d["ok"], "items": [{"text": it["text"], "bits": _bits(it["bytes"])} for it in d["items"][:40]]},
                     "key": "%s:stream:%s" % (short, "; ".join(p[2] for p in parts)), "hex": data.hex(), "march": march})
    return rows, recs


class Engine:
    LEVEL = "model_checking"

    def run(self, ctx):
        thorough = (ctx.only.get("tier", ctx.tier) if ctx.only else ctx.tier) == "thorough"
        ctx.rule("M: Dis.tla's table machinery model-checked on small tables (every instance of every row, every "
                 "stream of <= MaxIns instructions + one junk byte, every choice among overlapping rows; a table that "
                 "is not prefix-free must fail the splitting law).  E: for each of the 14 instruction sets: the pattern "
                 "table of every instruction class with a syntax and tokens, projected by probing the token fields bit "
                 "by bit; per class up to 5 (thorough 14) distinct instances built by reflection (base tuple, each "
                 "operand varied alone over its registers / boundary integers, random tuples): text, bytes, field values, "
                 "decode of the own class (outcome, text, re-encoding, operands, fields), for the first 1 (4) of them the "
                 "decode of every other class of the set on the same bytes; 12 (60) streams of 2..4 instances per set "
                 "with the trial decode of every class at every boundary and Disassembler.disasm on the stream; "
                 "mips / or1k / microblaze: decoded text vs. architecture reference.  distinct = distinct (set, class, "
                 "printed text) / (set, stream text)")
        ctx.assume("the projection of a class to a table row (harness/disgen.project_class: bit positions found by "
                   "setting one field bit at a time on the real token and reading Token.encode(); fixed values, operand "
                   "bindings and transforms read off cls.patterns) is faithful -- TLC re-derives every recorded encoding "
                   "from the projected row (clause EncodesTable), so a wrong projection shows")
        ctx.assume("decodability is judged per class: a class is in the decoder's domain when its table is complete "
                   "(Dis.Complete: register / integer operands only, each bound by a variable pattern, no transform "
                   "without inverse, no encoder of its own); outside it any outcome but a wrong instruction is accepted")
        if ctx.only is None:
            self.model_check(ctx, thorough)
        want = None
        if ctx.only is not None:
            want = str(ctx.only.get("key", ""))
        tables = []
        recs = []
        for idx, (march, short) in enumerate(ISAS, 1):
            if want is not None and not want.startswith("X18:%s:" % short):
                tables.append([])
                continue
            rng = __import__("random").Random("%s/%s" % (ctx.seed, short))
            try:
                rows, rs = collect_isa(ctx, rng, march, short, idx, thorough, want)
            except Exception as e:  # ppci itself broken for this set: judged as a violation below
                ctx.violation("X18:%s:harness" % short, "instruction set cannot be loaded / projected: %s: %s" % (
                    type(e).__name__, str(e)[:200]))
                tables.append([])
                continue
            tables.append(rows)
            recs += rs
        stats = {}
        for idx, (march, short) in enumerate(ISAS, 1):
            mine = [r for r in recs if r["isa"] == idx and r["t"] == "ins"]
            stats[short] = {"classes": len(tables[idx - 1]), "instances": len(mine),
                            "decoded": sum(1 for r in mine if r["dec"]["out"] == "decoded"),
                            "refused": sum(1 for r in mine if r["dec"]["out"] == "refused"),
                            "crashed": sum(1 for r in mine if r["dec"]["out"] == "crashed")}
        ctx.cov["per_isa"] = stats
        if want is not None:
            base = want.split("::")[0]
            sel = [r for r in recs if base.endswith(r["key"]) or _strip_clause(base) == "X18:" + r["key"]]
            if not sel:
                ctx.note("replay: the case %s was not regenerated (different tier / seed / tree?)" % want)
            recs = sel
        for r in recs:
            ctx.count("X18:" + r["key"], nontrivial=(r["t"] == "stream" or r["dec"]["out"] == "decoded"))
        for r in [r for r in recs if r["t"] == "ins" and r["dec"]["out"] == "decoded"][:: max(1, len(recs) // 5)][:4]:
            ctx.sample({"key": r["key"], "bytes": r["hex"], "decoded_text": r["dec"]["text"]})
        self.judge(ctx, tables, recs)
        self.judge_ref(ctx, recs)

    # ---------------------------------------------------------------- M
    def model_check(self, ctx, thorough):
        consts = "CONSTANT BB = 2\nCONSTANT MaxIns = %d\n" % (3 if thorough else 2)
        cfg = consts + 'CONSTANT Tabs = {"good", "nodata"}\n' + BASE_CFG + "".join("INVARIANT %s\n" % x for x in MC_INV)
        res = ctx.tlc("Dis_MC", cfg, label="M: table machinery on small tables", workers=4)
        for e in res.errors:
            raise tlcmod.MachineryError("a law of Dis.tla fails in the specification itself: %s\n%s" % (e, e.text[:1500]))
        tlcclean.clean(res, "Dis_MC")
        acts = tlcmod.action_coverage(res)
        missing = [a for a in MC_ACTIONS if not acts.get("Dis_MC." + a)]
        if missing:
            raise tlcmod.MachineryError("Dis_MC does not take the actions %s (%s)" % (missing, acts))
        cfg = consts + 'CONSTANT Tabs = {"bad"}\n' + BASE_CFG + "INVARIANT PrefixFreeAsExpected\nINVARIANT SplitsRightOnAnyTable\n"
        res = ctx.tlc("Dis_MC", cfg, label="M: a table that is not prefix-free fails the splitting law", workers=2,
                      coverage=False)
        names = {e.name for e in res.errors}
        if names != {"SplitsRightOnAnyTable"}:
            raise tlcmod.MachineryError("Dis_MC on the table 'bad': expected exactly SplitsRightOnAnyTable to fail, got %s" % names)
        ctx.cov["mc_bad_table_rejected"] = 1

    # ---------------------------------------------------------------- E (table clauses)
    def judge(self, ctx, tables, recs):
        if not recs:
            return
        drop = ("key", "hex", "march")
        slim = [{k: v for k, v in r.items() if k not in drop} for r in recs]
        path = ctx.trace_file({"isas": tables, "recs": slim})
        cfg = "CONSTANT BB = 8\n" + BASE_CFG + "".join("INVARIANT %s\n" % x for x in EVAL_INV)
        res = ctx.tlc("Dis_Eval", cfg, label="E: decode outcomes against the projected pattern tables",
                      env={"TRACE_FILE": path}, continue_=True, workers=8, coverage=False)
        os.unlink(path)
        tlcclean.clean(res, "Dis_Eval", expect_states=len(recs) + 1 + (len(recs) + 15) // 16)
        ctx.cov["traces_validated_against_impl"] += len(recs)
        self.report(ctx, res, recs, "i")

    def report(self, ctx, res, recs, var):
        seen = set()
        for e in res.errors:
            idx = e.last.get(var)
            if e.kind != "invariant" or not isinstance(idx, int) or not 1 <= idx <= len(recs):
                raise tlcmod.MachineryError("TLC error without record index: %s\n%s" % (e, e.text[:2000]))
            if (idx, e.name) in seen:
                continue
            seen.add((idx, e.name))
            r = recs[idx - 1]
            head, rest = r["key"].split(":", 1)
            if r["t"] == "stream":
                key = "X18:%s:stream:%s:%s" % (head, e.name, rest.split(":", 1)[1])
                what = "%s (stream %s)" % (WHAT[e.name], r["hex"])
            else:
                cname, rest2 = rest.split(":", 1)
                key = "X18:%s:%s:%s:%s" % (head, cname, e.name, rest2)
                what = "%s ('%s' = %s; decode: %s %s '%s')" % (WHAT[e.name], r["text"], r["hex"], r["dec"]["out"],
                                                              r["dec"]["exc"], r["dec"]["text"])
            ctx.violation(key, what + " [clause %s]" % e.name,
                          {"record": {k: v for k, v in r.items() if k in ("key", "hex", "text", "march", "dec", "t")},
                           "clause": e.name})

    # ---------------------------------------------------------------- E (architecture reference)
    def judge_ref(self, ctx, recs):
        from harness import riscgen

        out = []
        for r in recs:
            if r["t"] != "ins" or r["dec"]["out"] != "decoded":
                continue
            short = r["key"].split(":", 1)[0]
            if short not in REF_ISAS:
                continue
            data = list(bytes.fromhex(r["hex"]))
            o = riscgen.record("X18", short, "", "enc", r["text"], {"ok": True, "exc": "", "bytes": data}, 0, 0, "")
            d = riscgen.record("X18", short, "", "enc", r["dec"]["text"], {"ok": True, "exc": "", "bytes": data}, 0, 0, "")
            if o is None:
                continue
            if d is None:   # the decoded text is not even lexically a statement: an unknown mnemonic for TLC
                d = dict(o, mn="?", ops=[])
            keep = ("isa", "mn", "ops", "sym", "pc", "out")
            out.append({"t": "ins", "isa": short, "orig": {k: o[k] for k in keep}, "dec": {k: d[k] for k in keep},
                        "key": r["key"], "hex": r["hex"], "text": r["text"], "march": r["march"],
                        "dec_full": r["dec"]})
        if not out:
            return
        slim = [{k: v for k, v in r.items() if k in ("t", "isa", "orig", "dec")} for r in out]
        path = ctx.trace_file(slim)
        cfg = BASE_CFG + "INVARIANT DecodedMeansBytes\n"
        res = ctx.tlc("Dis_Ref", cfg, label="E: decoded text against the architecture reference (mips, or1k, microblaze)",
                      env={"TRACE_FILE": path}, continue_=True, workers=6, coverage=False)
        os.unlink(path)
        tlcclean.clean(res, "Dis_Ref", expect_states=len(out) + 1 + (len(out) + 15) // 16)
        ctx.cov["traces_validated_against_impl"] += len(out)
        ctx.cov["reference_judged"] = len(out)
        for r in out:
            r["dec"] = r["dec_full"]
        self.report(ctx, res, out, "i")


def _strip_clause(key):
    """X18:isa:Class:Clause:f=..:text -> X18:isa:Class:f=..:text (and the same for stream keys)"""
    p = key.split(":")
    if len(p) >= 5:
        return ":".join(p[:3] + p[4:])
    return key
