"""C22 — WebAssembly execution follows the specification (Wasm.tla, idioms M + T).

M: Wasm_MC.tla — the semantics itself model-checked on small embedded modules (every instruction action
   taken; determinism; results against integer arithmetic; stack discipline).
T: harness/wasmgen.py builds abstract modules (directed: every integer instruction on boundary operands,
   memory accesses at the edges, control nesting, br_table, call_indirect, traps; and random ones);
   ppci instantiates each (text or independently encoded binary) with target 'python' and 'native' in
   subprocesses (harness/wasm_runner.py) and the recorded observations — result | trap, exported globals,
   memory contents and size, calls of imported functions, after instantiation and after every call — are
   validated against Wasm.tla by TLC (invariants ImplOutcome / ImplResult / ImplGlobals / ImplMemory /
   ImplCalls).  Thorough tier: node executes the same modules and Wasm.tla is validated against node; a
   disagreement of the specification with ppci where node sides with ppci is SPEC-SUSPECT, not a violation.
"""
import os
import random

from harness import core, wasm_runner, wasmenc, wasmgen
from harness.project_wasm import limbs
from harness.tlc import MachineryError

RUN_CFG = """INIT Init
NEXT Next
CHECK_DEADLOCK FALSE
INVARIANT ImplOutcome
INVARIANT ImplResult
INVARIANT ImplGlobals
INVARIANT ImplMemory
INVARIANT ImplCalls
INVARIANT NeverStuck
INVARIANT TypeOK
"""
MCGEN_CFG = """CONSTANT Wide = %s
INIT Init
NEXT Next
CHECK_DEADLOCK FALSE
"""
MC_CFG = """INIT Init
NEXT Next
CHECK_DEADLOCK FALSE
INVARIANT TypeOK
INVARIANT NeverStuck
INVARIANT Deterministic
INVARIANT StackDiscipline
INVARIANT LawResults
INVARIANT LawStatus
INVARIANT LawInit
INVARIANT ObsPreserved
"""
BITS = {"i32": 32, "i64": 64}
FUEL = 4000


# ---------------------------------------------------------------------------------------------------
# shared with C21 / C23
# ---------------------------------------------------------------------------------------------------
def func_type(mod, name):
    """(params, results) of the exported function `name` of an abstract / projected module."""
    nfi = sum(1 for i in mod["imports"] if i["kind"] == "func")
    for e in mod["exports"]:
        if e["kind"] == "func" and e["name"] == name:
            x = e["idx"]
            ti = mod["imports"][x]["type"] if x < nfi else mod["funcs"][x - nfi]["type"]
            t = mod["types"][ti]
            return t["params"], t["results"]
    return None


def make_job(it, form="wat"):
    """Runner job of a work item (see harness/wasm_runner.py)."""
    mod = it["mod"]
    exports = []
    for e in mod["exports"]:
        if e["kind"] == "global":
            exports.append({"name": e["name"], "kind": "global", "ty": mod["globals"][e["idx"]]["ty"]})
        elif e["kind"] == "memory":
            exports.append({"name": e["name"], "kind": "memory", "ty": ""})
    traces = []
    for tr in it["traces"]:
        calls = []
        for c in tr:
            ft = func_type(mod, c["fn"])
            calls.append({"fn": c["fn"], "args": [str(a) for a in c["args"]], "tys": c["tys"], "rtys": ft[1] if ft else []})
        traces.append(calls)
    ext = []
    for x in it.get("ext") or []:
        im = [i for i in mod["imports"] if i["name"] == x["name"]][0]
        ext.append({"mod": im["mod"], "name": x["name"], "params": mod["types"][im["type"]]["params"], "ty": x["ty"],
                    "rets": [str(v) for v in x["rets"]]})
    job = {"id": it["key"], "traces": traces, "exports": exports, "ext": ext}
    if form == "wat":
        job["wat"] = it.get("wat") or wasmgen.render_wat(mod)
    else:
        job["hex"] = (it.get("bytes") or wasmenc.encode(mod)).hex()
    return job


def ext_table(it):
    return [{"name": x["name"], "rets": [limbs(v, BITS[x["ty"]] // 8) for v in x["rets"]] if x["ty"] else []}
            for x in it.get("ext") or []]


def tlc_cases(items, obs=None, mods_of=None, fuel=FUEL):
    """One Wasm.tla case per (item, trace).  obs: {item key: [[obs...] per trace]}."""
    cases = []
    for it in items:
        mods = mods_of(it) if mods_of else [it["mod"]]
        for t, tr in enumerate(it["traces"]):
            c = {"id": "%s#%d" % (it["key"], t), "mods": mods, "ext": ext_table(it), "fuel": fuel,
                 "calls": [{"fn": x["fn"], "args": [limbs(a, BITS[ty] // 8) for a, ty in zip(x["args"], x["tys"])]}
                           for x in tr]}
            if obs is not None:
                c["obs"] = [slim_obs(o) for o in obs[it["key"]][t]]
            c["_item"] = it
            c["_trace"] = t
            cases.append(c)
    return cases


def slim_obs(o):
    return {k: o[k] for k in ("outcome", "ret", "state", "glob", "mem", "pages", "hascalls", "calls")}


def call_text(case, ci):
    if not isinstance(ci, int) or ci <= 0:
        return "<instantiate>"
    c = case["_item"]["traces"][case["_trace"]][ci - 1]
    return "%s(%s)" % (c["fn"], ",".join(str(a) for a in c["args"]))


def pack(cases):
    """TRACE_FILE content: the distinct modules once, the cases naming them by (1-based) index."""
    table, index, slim = [], {}, []
    for c in cases:
        refs = []
        for m in c["mods"]:
            if id(m) not in index:
                table.append(m)
                index[id(m)] = len(table)
            refs.append(index[id(m)])
        d = {k: v for k, v in c.items() if not k.startswith("_")}
        d["mods"] = refs
        slim.append(d)
    return {"mods": table, "cases": slim}


def run_wasm(ctx, cases, cfg=RUN_CFG, label="wasm traces", workers=8, nxt=None):
    path = ctx.trace_file(pack(cases))
    res = ctx.tlc("Wasm_Run", cfg if nxt is None else cfg.replace("NEXT Next", "NEXT " + nxt), label=label,
                  env={"TRACE_FILE": path}, continue_=True, workers=workers, heap="8g")
    os.unlink(path)
    for e in res.errors:
        if e.kind != "invariant" or not isinstance(e.last.get("i"), int) or e.last.get("i") < 1:
            raise MachineryError("unexpected TLC error in Wasm run: %s\n%s" % (e, e.text[:1500]))
    return res


def describe_obs(o):
    if o is None:
        return "-"
    s = o["outcome"]
    if o["outcome"] == "value":
        s += " " + ",".join(str(unlimbs(r)) for r in o["ret"])
    elif o.get("msg"):
        s += " (%s)" % o["msg"][:80]
    return s


def unlimbs(lb):
    v = sum(b << (8 * k) for k, b in enumerate(lb))
    return v - (1 << (8 * len(lb))) if lb and lb[-1] >= 128 else v


def impl_errors(cases, res):
    """-> {(case index, call index): (clause, spec status, why, ret)} first failing clause per call."""
    order = ["ImplOutcome", "ImplResult", "ImplGlobals", "ImplMemory", "ImplCalls", "NeverStuck", "TypeOK"]
    out = {}
    for e in res.errors:
        st = e.last
        k = (st["i"], st.get("ci"))
        cur = out.get(k)
        if cur is None or order.index(e.name) < order.index(cur[0]):
            out[k] = (e.name, st.get("status"), st.get("why"), st.get("ret"))
    return out


# ---------------------------------------------------------------------------------------------------
def corpus(ctx):
    rng = ctx.rng
    thorough = ctx.tier == "thorough"
    items = wasmgen.directed(random.Random(rng.randrange(1 << 30)), thorough)
    nrand = 120 if thorough else 6
    for k in range(nrand):
        seed = rng.randrange(1 << 30)
        items.append(wasmgen.random_item(random.Random(seed), "rand%d" % seed, size=(1.0 + (k % 3) * 0.5) if thorough else 1.0,
                                         imports=(k % 4 == 3), ncalls=3 if thorough else 2, one_trace=True))
    for k, it in enumerate(items):
        it["form"] = "wat" if (not it["key"].startswith("rand") or k % 2 == 0) else "bin"
        it["wat"] = wasmgen.render_wat(it["mod"])
    return items


def judge_target(ctx, items, target, obs, suspects):
    cases = tlc_cases(items, obs)
    res = run_wasm(ctx, cases, label="ppci %s target vs Wasm.tla" % target)
    errs = impl_errors(cases, res)
    ncalls = 0
    for ix, c in enumerate(cases, start=1):
        for ci, o in enumerate(c["obs"]):
            ncalls += 1
            ctx.count("%s:%s:%d" % (target, c["id"], ci))
    ctx.cov["traces_validated_against_impl"] += len(cases)
    for (ix, ci), (clause, status, why, ret) in sorted(errs.items(), key=lambda kv: (kv[0][0], kv[0][1] or 0)):
        c = cases[ix - 1]
        it = c["_item"]
        o = obs[it["key"]][c["_trace"]][ci] if isinstance(ci, int) and ci < len(obs[it["key"]][c["_trace"]]) else None
        if clause in ("NeverStuck", "TypeOK"):
            raise MachineryError("generated module %s is not executable by the model (%s: %s)" % (c["id"], clause, why))
        what = call_text(c, ci)
        exp = "trap(%s)" % why if status == "trap" else "ok"
        outc = (o or {}).get("outcome", "?")
        key = "C22:%s:%s/%s:expected=%s:observed=%s" % (target, it["key"], what, exp, outc.split(" ")[0])
        if clause != "ImplOutcome":
            key += ":" + clause
        if (it["key"], c["_trace"], ci) in suspects:
            print("SPEC-SUSPECT property=C22 case=%s (node disagrees with Wasm.tla here as well)" % key)
            ctx.cov["spec_suspect"] = ctx.cov.get("spec_suspect", 0) + 1
            continue
        ctx.violation(key, "ppci %s target: %s of module '%s': specification says %s%s, ppci observed %s [%s]" % (
            target, what, it["key"], exp, (" -> " + str(ret)) if status == "ok" else "", describe_obs(o), clause),
            {"module_wat": it["wat"], "trace": it["traces"][c["_trace"]][:ci if isinstance(ci, int) else None],
             "call": what, "input_form": it["form"], "clause": clause, "spec": {"status": status, "why": why, "ret": ret},
             "observed": {k: v for k, v in (o or {}).items() if k != "mem"}})
    return res


def node_suspects(ctx, items):
    """Validate Wasm.tla against node on the same modules: -> set of (item, trace, call) where they differ."""
    jobs = [make_job(it, "bin") for it in items]
    out = wasm_runner.run_node(jobs)
    bad_valid = [j["id"] for j in jobs if not out.get(j["id"], {}).get("valid")]
    if bad_valid:
        raise MachineryError("generated modules rejected by the reference engine: %s %s" % (
            bad_valid[:5], out.get(bad_valid[0], {}).get("error")))
    obs = {j["id"]: out[j["id"]]["traces"] for j in jobs}
    cases = tlc_cases(items, obs)
    res = run_wasm(ctx, cases, label="Wasm.tla vs node (reference guard)")
    errs = impl_errors(cases, res)
    sus = set()
    for (ix, ci), (clause, status, why, ret) in errs.items():
        c = cases[ix - 1]
        sus.add((c["_item"]["key"], c["_trace"], ci))
        o = obs[c["_item"]["key"]][c["_trace"]][ci]
        print("SPEC-SUSPECT property=C22 Wasm.tla vs node: %s %s: spec %s %s %s, node %s [%s]" % (
            c["id"], call_text(c, ci), status, why, ret, describe_obs(o), clause))
    ctx.cov["node_cross_validated_calls"] = sum(len(c["obs"]) for c in cases)
    ctx.cov["node_disagreements"] = len(sus)
    return sus


def sanity_model(ctx, wide=None):
    """Idiom M: TLC evaluates the TLA+-written cases of Wasm_MCGen once, then model-checks Wasm.tla over them."""
    out = os.path.join(ctx.workdir, "wasm_mc_cases.json")
    wide = (ctx.tier == "thorough") if wide is None else wide
    gen = ctx.tlc("Wasm_MCGen", MCGEN_CFG % ("TRUE" if wide else "FALSE"), label="Wasm_MC cases (TLA+)",
                  env={"MC_OUT": out, "EQ_OUT": "-"}, workers=1, coverage=False)
    if gen.errors or not os.path.exists(out):
        raise MachineryError("Wasm_MCGen failed: %s" % (gen.errors or gen.raw[-800:]))
    res = ctx.tlc("Wasm_MC", MC_CFG, label="Wasm semantics sanity", env={"TRACE_FILE": out}, workers=8, continue_=True)
    os.unlink(out)
    for e in res.errors:
        raise MachineryError("Wasm.tla sanity model fails: %s\n%s\n%s" % (e, e.text[:600], str(e.last)[:1500]))
    need = {"Init", "Const", "Binary", "Compare", "Unary", "Convert", "Drop", "Select", "LocalGet", "LocalSet", "GlobalGet",
            "GlobalSet", "Load", "Store", "MemorySize", "MemoryGrow", "Nop", "Unreachable", "Block", "Loop", "If", "Else",
            "End", "FuncEnd", "Br", "BrIf", "BrTable", "Return", "Call", "CallIndirect", "NotModelled", "Exhaust",
            "NextCall", "NextModule", "PickCase"}
    cov = core.tlcmod.action_coverage(res)
    missing = sorted(a for a in need if not cov.get("Wasm." + a))
    ctx.cov["mc_action_coverage"] = {k: v for k, v in sorted(cov.items())}
    if cov and missing:
        raise MachineryError("Wasm_MC does not take the actions %s" % missing)
    return res


class Engine:
    LEVEL = "model_checking"

    def run(self, ctx):
        ctx.rule("M: Wasm_MC (embedded modules, all argument tuples over a small domain). T: directed modules (every "
                 "i32/i64 instruction on boundary x boundary operand samples, all load/store widths at the memory "
                 "edges, control nesting / br_table / call_indirect / start / data / traps) and seeded random valid "
                 "modules; each trace = fresh instance + sequence of export calls; judged per call by TLC against "
                 "Wasm.tla for target python and target native; distinct = distinct (target, module, trace, call)")
        ctx.assume("harness/wasmgen.py renders the abstract module faithfully as WAT / harness/wasmenc.py as binary "
                   "(validated against node in the thorough tier)")
        ctx.assume("ppci's documented trap exceptions are WasmTrapException and runtime.Unreachable; any other "
                   "exception, a crash of the process or a silent result is not a trap")
        ctx.assume("memory.grow inside the declared maximum succeeds (the specification allows it to fail)")
        items = corpus(ctx)
        if ctx.only is not None:
            want = ctx.only["key"].split(":")[2].split("/")[0]
            items = [it for it in items if it["key"] == want]
        for it in items[:3]:
            ctx.sample({"module": it["key"], "traces": len(it["traces"]), "first_calls": it["traces"][0][:3]})
        ctx.cov["modules"] = len(items)
        targets = [t for t in ("python", "native") if ctx.only is None or ctx.only["key"].split(":")[1] == t]
        # ppci runs in subprocesses; they are collected in the background while TLC checks the semantics itself
        import threading

        obs, failure = {}, []

        def collect():
            try:
                for target in targets:
                    o = {}
                    for form in ("wat", "bin"):
                        sub = [it for it in items if it["form"] == form]
                        if sub:
                            o.update(wasm_runner.run_ppci([make_job(it, form) for it in sub], target,
                                                          nproc=6 if target == "native" else 4))
                    obs[target] = o
            except BaseException as e:   # reported in the main thread
                failure.append(e)

        th = threading.Thread(target=collect, daemon=True)
        th.start()
        if ctx.only is None:
            sanity_model(ctx)
        suspects = node_suspects(ctx, items) if ctx.tier == "thorough" else set()
        th.join()
        if failure:
            raise MachineryError("running ppci failed: %r" % failure[0])
        for target in targets:
            judge_target(ctx, items, target, obs[target], suspects)
