"""X05 -- relooper output is a structured program with the control-flow behaviour of the CFG
(Reloop.tla; idioms M + T).

Python only makes control-flow graphs, calls ppci's structure detection on them and writes down
what came back (the shape tree, or the class of the exception).  Whether a tree is right is
decided by TLC: Reloop.tla runs the CFG walk and a small-step interpreter of the tree in lock
step and explores every product state, i.e. every sequence of branch decisions.
"""
import io

from harness import core
from harness import reloopgen as rg

tlcmod = core.tlcmod

INVARIANTS = ["TypeOK", "StaticImpliesRunnable", "TraceAgree", "EndsAgree", "Structured", "Progress", "WellFormed", "Targets",
              "Covers", "NoForeignBlock", "Outcome"]
CFG = "INIT Init\nNEXT Next\nCHECK_DEADLOCK FALSE\n" + "".join(
    "INVARIANT %s\n" % x for x in INVARIANTS)

# every action of Reloop.tla must be taken by the hand-written cases of Reloop_MC
MC_ACTIONS = ["PickChunk", "PickCase", "Check", "Begin", "ExecBasic", "ExecIf", "ExecMulti", "SeqEnter", "SeqSkipAbsent",
              "SeqLeave", "LoopEnter", "LoopFallOut", "DoBreak", "DoContinue", "FallOffEnd"]

WHAT = {
    "TraceAgree": "the structured program runs a block the CFG walk is not standing at",
    "EndsAgree": "the structured program runs off its end while the CFG walk has not reached the exit",
    "Structured": "the structured program cannot be run (break/continue without its loop, or no arm for a decision)",
    "Progress": "the structured program spins without running a block",
    "WellFormed": "the shape tree is not a tree of known shapes",
    "Targets": "a break/continue names a loop that does not enclose it",
    "Covers": "a block of the CFG does not occur in the shape tree",
    "NoForeignBlock": "the shape tree holds a block that is not in the CFG",
    "Outcome": "structure detection neither returned a shape tree nor refused with ValueError/NotImplementedError "
               "(or refused one of the plain documented classes)",
}

C_SOURCES = {
    "for-sum": "int f(int n){int s=0;int i;for(i=0;i<n;i++){s+=i;}return s;}",
    "while-break-continue": "int f(int n){int s=0;while(n>0){n--;if(n==3)continue;if(n==7)break;s+=n;}return s;}",
    "do-while": "int f(int n){int s=0;do{s+=n;n--;}while(n>0);return s;}",
    "nested-for": "int f(int n){int s=0;int i;int j;for(i=0;i<n;i++){for(j=0;j<i;j++){s+=j;}}return s;}",
    "switch": "int f(int n){int s=0;switch(n){case 1:s=10;break;case 2:s=20;case 3:s+=3;break;default:s=9;}return s;}",
    "switch-in-loop": "int f(int n){int s=0;while(n>0){switch(n&3){case 0:s++;break;case 1:s+=2;continue;default:break;}n--;}return s;}",
    "goto-fwd": "int f(int n){int s=0;if(n>2)goto out;s=5;out:return s+n;}",
    "goto-back": "int f(int n){int s=0;again:s+=n;n--;if(n>0)goto again;return s;}",
    "logic": "int f(int a,int b){if(a>1&&b>2||a==b)return 1;return 0;}",
    "ternary": "int f(int a,int b){return a>b?a:(b>3?b:3);}",
    "early-return": "int f(int a){if(a<0)return -1;while(a>10){a-=10;if(a==13)return 13;}return a;}",
    "forever": "void g(int);void f(int a){for(;;){if(a)g(a);a++;}}",
    "forever-plain": "void g(int);void f(int a){for(;;){g(a);}}",
    "void-fn": "void g(int);void f(int a){if(a)g(a);else g(1);}",
}


def features(succ):
    """Input features that go into the key (so that a known finding can name its class):
    E = the entry block has a predecessor, N = a block from which no return block can be
    reached, I = irreducible (a cycle that is entered at more than one of its blocks), M = a block
    with more than two successors."""
    n = len(succ)
    f = ""
    if any(1 in s for s in succ):
        f += "E"
    ok = {b + 1 for b, s in enumerate(succ) if not s}
    changed = True
    while changed:
        changed = False
        for b, s in enumerate(succ):
            if b + 1 not in ok and any(t in ok for t in s):
                ok.add(b + 1)
                changed = True
    if len(ok) != n:
        f += "N"
    if _irreducible(succ):
        f += "I"
    if any(len(s) > 2 for s in succ):
        f += "M"
    return f or "-"


def _irreducible(succ):
    """T1/T2 reduction (remove self loops, merge a block with a single predecessor into it):
    the graph is reducible iff this ends with one block."""
    edges = {(a + 1, t) for a, s in enumerate(succ) for t in s}
    nodes = set(range(1, len(succ) + 1))
    while True:
        edges = {(a, b) for a, b in edges if a != b}
        merged = False
        for b in sorted(nodes - {1}):
            preds = {a for a, t in edges if t == b}
            if len(preds) == 1:
                (p,) = preds
                edges = {(p if a == b else a, p if t == b else t) for a, t in edges}
                nodes.discard(b)
                merged = True
                break
        if not merged:
            return len(nodes) > 1


def make_case(family, via, g, out, tree):
    return {"key": "X05:%s:%s:%s:f=%s:%s" % (family, via, out["exc"] or "tree", features(g["succ"]), rg.gkey(g["succ"])),
            "g": g, "out": out, "t": tree}


def collect(ctx):
    rng = ctx.rng
    thorough = ctx.tier == "thorough"
    cases = []
    seen = set()

    def add_graph(family, succ, via="ir"):
        k = (via, rg.gkey(succ))
        if k in seen:
            return
        seen.add(k)
        if via == "ir":
            try:
                _m, f = rg.build_ir(succ)
            except Exception as e:  # ppci.ir itself broken: recorded, judged by TLC (Outcome)
                cases.append(make_case(family, via, {"n": len(succ), "entry": 1, "succ": succ},
                                       {"ok": False, "exc": "Build" + type(e).__name__}, rg.EMPTY_TREE))
                return
            g, out, tree = rg.run_on_function(f)
        else:
            g, out, tree = rg.run_on_cfg(succ)
        cases.append(make_case(family, via, g, out, tree))

    for name, succ in rg.NAMED.items():
        add_graph("named", succ)
        add_graph("named", succ, via="cfg")
    for name, succ in rg.NAMED_CFG.items():
        add_graph("named", succ, via="cfg")
    # every graph on <= 3 (thorough: 4) blocks, one per renumbering.  Quick tier: of the graphs
    # with a block that cannot reach a return (on which the unrepaired detection crashes at its
    # first conditional block, a listed finding) every fifth only, and a sample of the 4-block ones.
    for n in range(1, 5 if thorough else 4):
        for j, succ in enumerate(rg.all_graphs(n)):
            if thorough or rg.can_all_return(succ) or j % 5 == 0:
                add_graph("all%d" % n, succ)
    if not thorough:
        g4 = list(rg.all_graphs(4))
        g4ret = [g for g in g4 if rg.can_all_return(g)]
        for succ in rng.sample(g4ret, 220) + rng.sample(g4, 30):
            add_graph("all4", succ)
    for k in range(2000 if thorough else 260):
        add_graph("prog", rg.structured_graph(rng, budget=rng.randrange(3, 10), merge=(k % 2 == 0)))
    for k in range(2000 if thorough else 200):
        # few conditional blocks without a way out: the detection crashes on those (known finding)
        add_graph("rand", rg.random_graph(rng, rng.randrange(4, 9), all_return=(k % 8 != 0)))
    # real ir functions: the random IR generator of the harness and C sources through the front-end
    from harness import irgen

    for k in range(60 if thorough else 12):
        try:
            m, _info = irgen.gen_module(rng, budget=rng.randrange(8, 20), name="x05_%d" % k)
            fns = list(m.functions)
        except Exception as e:
            ctx.note("irgen failed: %s" % type(e).__name__)
            continue
        for f in fns:
            g, out, tree = rg.run_on_function(f)
            k2 = ("ir", rg.gkey(g["succ"]))
            if k2 not in seen:
                seen.add(k2)
                cases.append(make_case("irgen", "ir", g, out, tree))
    import logging

    from ppci import api

    for name, src in C_SOURCES.items():
        logging.disable(logging.WARNING)  # the front-end's warnings are not ours to print
        try:
            m = api.c_to_ir(io.StringIO(src), "x86_64")
            fns = [f for f in m.functions if f.name == "f"]
        except Exception as e:
            ctx.note("c_to_ir failed on %s: %s" % (name, type(e).__name__))
            continue
        finally:
            logging.disable(logging.NOTSET)
        for f in fns:
            g, out, tree = rg.run_on_function(f)
            c = make_case("c", "ir", g, out, tree)
            c["key"] = c["key"].replace("X05:c:", "X05:c-%s:" % name, 1)
            cases.append(c)
    return cases


def replay_case(key):
    """The case of a replay file: the graph is spelled out in the key (its last field), the path
    into ppci is the third field; the detection is run again on that graph."""
    parts = key.split(":")
    family, via, gk = parts[1], parts[2], parts[-1]
    succ = [[] if b == "r" else [int(x) for x in b.split(",")] for b in gk.split(";")]
    if via == "cfg" or any(len(s0) > 2 for s0 in succ):
        g, out, tree = rg.run_on_cfg(succ)
        via = "cfg"
    else:
        _m, f = rg.build_ir(succ)
        g, out, tree = rg.run_on_function(f)
    return make_case(family, via, g, out, tree)


class Engine:
    LEVEL = "model_checking"

    def run(self, ctx):
        ctx.rule("M: Reloop.tla model-checked on the hand-written (CFG, shape tree) pairs of Reloop_MC (every CFG "
                 "class, every action taken, every clause holds on the right trees and exactly the expected clauses "
                 "fail on the wrong ones).  T: graphs = named classes (through find_structure on an ir function and "
                 "through StructureDetector.detect on a hand-built ControlFlowGraph), every graph on <= 3 blocks "
                 "(thorough: <= 4) with <= 2 successors per block up to renumbering (quick: of those with a block "
                 "that cannot reach a return every fifth, and a sample of 250 4-block graphs), random structured programs "
                 "lowered to graphs, random graphs of 4..8 blocks, functions of the harness IR generator and of C "
                 "sources; for each, TLC explores every product state of CFG walk x shape interpreter (= every "
                 "sequence of branch decisions).  distinct = distinct (path into ppci, graph)")
        ctx.assume("the projection of an ir function to its successor lists (harness/reloopgen.project_function, read "
                   "off the terminators) and of a shape tree to a node table (project_shape) is faithful")
        ctx.assume("a LoopShape is interpreted as ppci2wasm.do_shape emits it (block{loop{body}}: a body that runs "
                   "off its end leaves the loop); a block ending in return/exit ends the program")
        if ctx.only is None:
            self.model_check(ctx)
        if ctx.only is not None:
            cases = [replay_case(ctx.only["key"])]
        else:
            cases = collect(ctx)
        refused = 0
        for c in cases:
            ctx.count(c["key"], nontrivial=c["out"]["ok"])
            if not c["out"]["ok"] and c["out"]["exc"] in ("ValueError", "NotImplementedError"):
                refused += 1
        ctx.cov["refused_not_judged"] = refused
        ctx.cov["trees_judged"] = sum(1 for c in cases if c["out"]["ok"])
        for c in [c for c in cases if c["out"]["ok"] and len(c["t"]["nodes"]) > 8][:: max(1, len(cases) // 8)][:4]:
            ctx.sample({"key": c["key"], "succ": c["g"]["succ"],
                        "tree": [[n["k"], n["b"], n["kids"]] for n in c["t"]["nodes"]]})
        core.eval_records(ctx, "Reloop_Trace", CFG + "ALIAS ShownT\n", cases, keyfn=lambda c: c["key"],
                          whatfn=lambda c, e: "%s (graph %s, outcome %s)" % (
                              WHAT.get(e.name, e.name), c["g"]["succ"], c["out"]["exc"] or "shape tree"),
                          label="cases", workers=8, coverage=False)

    def model_check(self, ctx):
        res = ctx.tlc("Reloop_MC", CFG + "ALIAS Shown\n", label="hand-written cases", continue_=True, workers=4)
        # expectations are part of the specification module: read them back from it
        expect = _expectations()
        got = {}
        for e in res.errors:
            if e.kind != "invariant" or not isinstance(e.last.get("i"), int):
                raise tlcmod.MachineryError("Reloop_MC: %s\n%s" % (e, e.text[:2000]))
            got.setdefault(e.last["i"], set()).add(e.name)
            name, exp = expect[e.last["i"] - 1]
            if e.last.get("key") != name or _strset(e.last.get("expect")) != exp:
                raise tlcmod.MachineryError("Reloop_MC: case table read from the module text disagrees with TLC: "
                                            "%r vs %r" % ((name, exp), (e.last.get("key"), e.last.get("expect"))))
        for idx, (name, exp) in enumerate(expect, 1):
            if got.get(idx, set()) != exp:
                raise tlcmod.MachineryError("Reloop_MC case %d (%s): clauses failing %s, expected %s" % (
                    idx, name, sorted(got.get(idx, set())), sorted(exp)))
        acts = tlcmod.action_coverage(res)
        missing = [a for a in MC_ACTIONS if not (acts.get("Reloop." + a) or acts.get("Reloop_MC." + a))]
        if missing:
            raise tlcmod.MachineryError("Reloop_MC does not take the actions %s" % missing)
        ctx.cov["mc_cases"] = len(expect)
        ctx.cov["mc_bad_cases_rejected"] = sum(1 for _n, e in expect if e)


def _strset(v):
    """A TLA+ set of strings as parsed by harness/tlaval (list / set / frozenset)."""
    if isinstance(v, tuple) and len(v) == 2 and v[0] == "set":
        v = v[1]
    return {str(x) for x in (v or ())}


def _expectations():
    """(name, set of clause names) per case of Reloop_MC.AllCases, parsed from the module text."""
    import os
    import re

    text = open(os.path.join(tlcmod.TLA_DIR, "Reloop_MC.tla")).read()
    out = []
    for m in re.finditer(r'Case\("([^"]+)",.*?\{([^{}]*)\}\)\s*(?:,|>>)', text, re.S):
        names = set(re.findall(r'"(\w+)"', m.group(2)))
        out.append((m.group(1), names))
    return out
