"""C02 — optimiser preserves IR behaviour (IR.tla, idiom T/B);  shared corpus for C03."""
import importlib

from harness import absprog, core, optcorpus, project_ir
from harness.tlc import MachineryError

IR_CFG = """INIT Init
NEXT Next
CHECK_DEADLOCK FALSE
INVARIANT ObsPreserved
INVARIANT TypeOK
"""
TY_BYTES = {"i8": 1, "u8": 1, "i16": 2, "u16": 2, "i32": 4, "u32": 4, "i64": 8, "u64": 8, "ptr": 8}


def pass_classes():
    out = []
    for name, mod in optcorpus.SINGLE_PASSES:
        try:
            out.append((name, getattr(importlib.import_module(mod), name)))
        except (ImportError, AttributeError):
            pass
    return out


def int_vectors(ptys, rng, n):
    """Argument vectors (Python ints) for IR parameter types: boundaries + seeded random."""
    bits = {"i8": 8, "u8": 8, "i16": 16, "u16": 16, "i32": 32, "u32": 32, "i64": 64, "u64": 64, "ptr": 64}
    vecs = []
    for k in range(n):
        v = []
        for t in ptys:
            b = bits[t]
            lo, hi = (-(1 << (b - 1)), (1 << (b - 1)) - 1) if t[0] == "i" else (0, (1 << b) - 1)
            c = rng.random()
            if k < 2:
                x = k
            elif c < 0.3:
                x = rng.choice([lo, hi, -1 if lo < 0 else hi, hi // 2, 2, 3, 5, 7])
            elif c < 0.7:
                x = rng.randrange(max(lo, -16), min(hi, 17))
            else:
                x = rng.randrange(lo, hi + 1)
            v.append(x)
        vecs.append(v)
    return vecs


def traces_for(key, make, classes, levels, seqs, prng):
    traces = []
    for name, cls in classes:
        traces.append(optcorpus.run_trace("%s:%s" % (key, name), make, "single", pass_cls=cls))
    for lv in levels:
        traces.append(optcorpus.run_trace("%s:O%s" % (key, lv), make, "pipeline", level=lv))
    for k in range(seqs):
        seq = [prng.choice(classes) for _ in range(prng.randrange(2, 7))]
        traces.append(optcorpus.run_trace("%s:seq:%s" % (key, "+".join(n[:4] for n, _ in seq)), make, "seq",
                                          pass_seq=[c for _, c in seq]))
    return traces


def build_traces(ctx, nprog, levels=("2",), seqs=0, nir=None, npat=0, pat_slice=None):
    """Generate programs (C through c_to_ir, and IR built directly by harness/irgen.py), run single passes /
    pipelines / random pass sequences on fresh copies, return the corpus with all traces."""
    import random

    from harness import irgen

    rng = ctx.rng
    classes = pass_classes()
    out = []
    nvec = 6 if ctx.tier == "quick" else 10
    for pi in range(nprog):
        seed = rng.randrange(1 << 30)
        prng = random.Random(seed)
        gen = absprog.Gen(prng, max_funcs=3, max_stmts=6, max_depth=3)
        prog = gen.program()
        src = absprog.render_c(prog)
        key = "c%d" % seed

        def make(src=src):
            return optcorpus.compile_c(src, "x86_64")

        try:
            make()
        except Exception:  # front-end problem: C28's business, not C02's
            ctx.cov["frontend_rejected"] = ctx.cov.get("frontend_rejected", 0) + 1
            continue
        traces = traces_for(key, make, classes, levels, seqs, prng)
        f, vecs = absprog.arg_vectors(prog, prng, nvec)
        out.append({"key": key, "seed": seed, "src": src, "traces": traces, "fn": f["n"], "vecs": vecs,
                    "ext": optcorpus.ext_stubs(prog, prng)})
    if npat:
        from harness import irpatterns

        pats = irpatterns.patterns(random.Random(rng.randrange(1 << 30)), thorough=ctx.tier == "thorough")
        if npat < len(pats):
            # control-flow, memory and tail-call shapes always; the algebraic families are sampled
            keep = [x for x in pats if x[0].split(":")[1] in ("cf", "mem", "tail")]
            rest = [x for x in pats if x[0].split(":")[1] not in ("cf", "mem", "tail")]
            pats = keep + random.Random(rng.randrange(1 << 30)).sample(rest, max(0, min(len(rest), npat - len(keep))))
        if pat_slice:  # thorough tier: the patterns are spread over several rounds (memory)
            pats = pats[pat_slice[0]::pat_slice[1]]
        for key, make, fn, ptys in pats:
            prng = random.Random(sum(ord(ch) * (k + 1) for k, ch in enumerate(key)))
            try:
                make()
            except Exception:
                ctx.cov["pattern_build_failed"] = ctx.cov.get("pattern_build_failed", 0) + 1
                continue
            traces = traces_for(key, make, classes, levels[:1], 0, prng)
            vecs = int_vectors(ptys, prng, 3 if ctx.tier == "quick" else 8)
            if len(ptys) == 2:
                # cover every ordering of the two operands (branches on y < z, y > z, y == z) and both signs
                for pair in ((0, 1), (1, 0), (2, 2), (-1, 1), (3, -2), (7, 0)):
                    v = [x if (t_[0] == "i" or x >= 0) else (1 << 8) - 1 + x + 1 if t_ == "u8" else 5 for x, t_ in zip(pair, ptys)]
                    if v not in vecs:
                        vecs.append(v)
            out.append({"key": key, "seed": 0, "src": "harness/irpatterns.py pattern " + key, "traces": traces, "fn": fn,
                        "vecs": vecs, "ext": [{"name": "ext_f", "rets": [project_ir.limbs(9, 4)]}]})
    for pi in range(nprog if nir is None else nir):
        seed = rng.randrange(1 << 30)
        prng = random.Random(seed)
        key = "ir%d" % seed

        def make(seed=seed):
            return irgen.gen_module(random.Random(seed))[0]

        try:
            _, info = irgen.gen_module(random.Random(seed))
        except Exception as e:
            ctx.cov["irgen_failed"] = ctx.cov.get("irgen_failed", 0) + 1
            continue
        prng.random()
        traces = traces_for(key, make, classes, levels, seqs, prng)
        vecs = int_vectors(info["params"], prng, nvec)
        ext = [{"name": n, "rets": [project_ir.limbs(prng.randrange(-5, 40), 4) for _ in range(6)]} for n in info["externs"]]
        out.append({"key": key, "seed": seed, "src": "harness/irgen.py gen_module(random.Random(%d))" % seed,
                    "traces": traces, "fn": info["main"], "vecs": vecs, "ext": ext})
    return out


def ir_cases(ctx, corpus):
    """One IR.tla case per program: mods = [input] + every distinct snapshot reached by any trace."""
    cases = []
    for p in corpus:
        first = optcorpus.strip_wf(p["traces"][0].snaps[0])
        h0 = optcorpus.mod_hash(first)
        mods, labels, seen = [first], ["input"], {h0}
        for t in p["traces"]:
            ctx.count(None, n=1)
            changed = False
            prev = h0
            for k, s in enumerate(t.snaps[1:]):
                sm = optcorpus.strip_wf(s)
                h = optcorpus.mod_hash(sm)
                if h != prev:
                    changed = True
                prev = h
                if h in seen:
                    continue
                seen.add(h)
                mods.append(sm)
                labels.append("%s@%d:%s" % (t.id, k + 1, t.passes[k]))
            if changed:
                ctx.count(t.id, n=0)
            else:
                ctx.cov["unchanged_traces"] = ctx.cov.get("unchanged_traces", 0) + 1
        if len(mods) == 1:
            continue
        fn = p["fn"]
        fi = [f for f in mods[0]["funcs"] if f["name"] == fn]
        if not fi:
            continue
        ptys = [q["ty"] for q in fi[0]["params"]]
        if any(t_ not in TY_BYTES for t_ in ptys):
            continue
        vecs = [v for v in p["vecs"] if len(v) == len(ptys)]
        argv = [[project_ir.limbs(v, TY_BYTES[t_]) for v, t_ in zip(vec, ptys)] for vec in vecs]
        if not argv:
            continue
        cases.append({"id": p["key"], "mods": mods, "labels": labels, "fn": fn, "argv": argv, "vecs": vecs,
                      "ext": p["ext"], "fuel": 4000, "src": p["src"]})
    return cases


def judge_ir(ctx, cases, prop):
    """Run IR.tla over the cases; every ObsPreserved error is a violation of `prop`."""
    if not cases:
        return None
    import os

    class _Res:
        errors = []

    res = _Res()
    res.errors = []
    batch = 250
    for b0 in range(0, len(cases), batch):
        part = cases[b0:b0 + batch]
        slim = [{k: c[k] for k in ("id", "mods", "fn", "argv", "ext", "fuel")} for c in part]
        path = ctx.trace_file(slim)
        r = ctx.tlc("IR", IR_CFG, label="IR behaviours %d-%d" % (b0, b0 + len(part)), env={"TRACE_FILE": path},
                    continue_=True, heap="12g", timeout=3600)
        os.unlink(path)
        for e in r.errors:
            i_ = e.last.get("i")
            if isinstance(i_, int) and i_ >= 1:
                e.states[-1][1]["i"] = i_ + b0
            res.errors.append(e)
    seen = set()
    for e in res.errors:
        st = e.last
        i, ph, av = st.get("i"), st.get("ph"), st.get("av")
        if e.kind != "invariant" or not isinstance(i, int) or i < 1:
            raise MachineryError("unexpected TLC error in IR run: %s\n%s" % (e, e.text[:1500]))
        c = cases[i - 1]
        label = c["labels"][ph - 1] if isinstance(ph, int) and ph - 1 < len(c["labels"]) else "?"
        key = "%s:%s" % (prop, label)
        if key in seen:
            continue
        seen.add(key)
        ctx.violation(key, "behaviour of %s(%s) differs after %s: status=%s (%s) ret=%s, original ret=%s calls=%s" % (
            c["fn"], c["vecs"][av - 1] if isinstance(av, int) else "?", label, st.get("status"), st.get("why"),
            st.get("ret"), (st.get("obs0") or {}).get("o", {}).get("ret") if isinstance(st.get("obs0"), dict) else "?",
            str(st.get("calls"))[:200]),
            {"id": c["id"], "source": c["src"], "args": c["vecs"][av - 1] if isinstance(av, int) else None,
             "after": label, "clause": e.name})
    return res


class Engine:
    LEVEL = "model_checking"

    def run(self, ctx):
        nprog = 12 if ctx.tier == "quick" else 80
        ctx.rule("generated C programs (harness/absprog.py) compiled by c_to_ir; every single pass on a fresh module, "
                 "optimize() at levels 1,2,s,3 with a snapshot after every pass, random pass sequences; IR.tla executes "
                 "the input module and every distinct later snapshot on 6-10 argument vectors and TLC checks "
                 "ObsPreserved (status, return value, final bytes of every global, external-call sequence); "
                 "distinct = distinct (program, pass/pipeline) traces that changed the module")
        ctx.assume("the IR projection (harness/project_ir.py) reports the module faithfully")
        ctx.assume("IR.tla is the semantics of ppci IR: wrap-around integers, truncating / and %, arithmetic >> on signed types")
        levels = ("2",) if ctx.tier == "quick" else ("1", "2", "s")
        if ctx.tier == "quick":
            rounds = [dict(nprog=nprog, seqs=1, npat=400)]
        else:
            # the thorough corpus is built and judged in rounds: all snapshots of all traces at once need tens of GB
            nr = 8
            rounds = [dict(nprog=nprog // nr, seqs=3, npat=100000, pat_slice=(k, nr)) for k in range(nr)]
        ctx.cov["programs"] = 0
        for k, kw in enumerate(rounds):
            corpus = build_traces(ctx, levels=levels, **kw)
            cases = ir_cases(ctx, corpus)
            if k == 0:
                for c in cases[:3]:
                    ctx.sample({"id": c["id"], "snapshots": c["labels"][:6], "args": c["vecs"][:2]})
            ctx.cov["programs"] += len(corpus)
            ctx.cov["traces_validated_against_impl"] += sum(len(c["argv"]) for c in cases)
            del corpus
            judge_ir(ctx, cases, "C02")
            del cases
