"""C21 — WebAssembly modules round-trip through binary and text forms (Wasm_Eq.tla + Wasm.tla).

There is no TLA+ model of the binary or text grammar (DESIGN section 6).  The TLA+ content is
  * Wasm_Eq.tla: the round-trip laws over the abstract module state (component-wise equivalence modulo the
    numbering of the type section; byte-sequence equality), calibrated by TLC on mutated modules written in TLA+
    (Wasm_MCGen.tla) and evaluated by TLC on every recorded round trip (idiom E);
  * Wasm.tla: behavioural equality of a module and its print/parse image (ObsPreserved), and validation of what the
    reference engine (node) observes when it executes the binary ppci wrote (Impl* invariants).
Recorded round trips, per generated module (abstract module A of harness/wasmgen.py, rendered to text W by the
independent renderer and to bytes E by the independent encoder harness/wasmenc.py):
   parse      project(Module(W))                      ~ A
   read       project(Module(E))                      ~ A
   assemble   Module(W).to_bytes()                    = E          (ppci's binary = the reference assembler's)
   rewrite    Module(b).to_bytes() for b = ppci's own bytes and for b = E   = b
   reprint    project(Module(Module(W).to_string()))  ~ project(Module(W)), and same behaviour under Wasm.tla
and for modules produced by ir_to_wasm from generated IR: rewrite and reprint.
Auxiliary observation: node's WebAssembly.validate on every binary ppci wrote.
"""
import contextlib
import io
import os
import random

from engines import c22
from harness import core, project_wasm, wasm_runner, wasmenc, wasmgen
from harness.tlc import MachineryError
from harness.watchdog import CallTimeout, limited

EQ_CFG = """INIT Init
NEXT Next
CHECK_DEADLOCK FALSE
INVARIANT Completes
INVARIANT SameTypes
INVARIANT SameImports
INVARIANT SameFuncs
INVARIANT SameTablesMems
INVARIANT SameGlobals
INVARIANT SameExportsStart
INVARIANT SameElems
INVARIANT SameDatas
INVARIANT SameBytes
"""
CAL_CFG = """INIT Init
NEXT Next
CHECK_DEADLOCK FALSE
INVARIANT Calibrated
"""
BEH_CFG = c22.RUN_CFG.replace("INVARIANT NeverStuck\n", "INVARIANT ObsPreserved\n")
EMPTY = {"types": [], "imports": [], "funcs": [], "tables": [], "mems": [], "globals": [], "exports": [], "start": -1,
         "elems": [], "datas": []}


def attempt(fn):
    """-> (ok, value | exception class name)"""
    try:
        return True, limited(fn, 30, "wasm round trip")
    except CallTimeout:
        return False, "timeout"
    except Exception as e:
        return False, type(e).__name__


def structure_items():
    """Modules exercising the module-level components rather than instructions."""
    M, I32, I64 = wasmgen.Mod, wasmgen.I32, wasmgen.I64
    out = []
    m = M()
    m.imp_func("env", "a", [I32], [I32])
    m.imp_func("other mod", "b.c", [], [])
    m.memory(2, 300, export="memory")
    m.table(3, 70000)
    g0 = m.glob(I32, False, -1, export="const")
    g1 = m.glob(I64, True, 0x0123456789ABCDEF, export="var")
    g2 = m.glob(I64, False, -(1 << 63))
    f0 = m.func([I32], [I32], [I64, I64, I32], [wasmgen.lget(0), wasmgen.call(0)], export="f")
    f1 = m.func([], [], [], [wasmgen.simple("nop")], export="")
    m.m["exports"].append({"name": "f again", "kind": "func", "idx": f0})
    m.m["exports"].append({"name": "t", "kind": "table", "idx": 0})
    m.elem(0, [f0, f1, 0])
    m.elem(2, [])
    m.data(0, [])
    m.data(70000, list(range(256)))
    m.data(1, [0x22, 0x5C, 0x0A, 0x00, 0x7F, 0x80, 0xFF])
    m.start(f1)
    out.append(wasmgen.item("structure", m, []))
    m = M()   # 128 locals, 200 types' worth of LEB sizes, large constants
    body = []
    for k in range(130):
        m.type([I32] * (k % 5), [I64] if k % 2 else [])
    for v in (0, 63, 64, -64, -65, 127, 128, 8191, 8192, -8193, (1 << 31) - 1, -(1 << 31)):
        body += [wasmgen.const(I32, v), wasmgen.simple("drop")]
    for v in (0, (1 << 62), -(1 << 62) - 1, (1 << 63) - 1, -(1 << 63), 1 << 35):
        body += [wasmgen.const(I64, v), wasmgen.simple("drop")]
    m.memory(1)
    body += [wasmgen.const(I32, 0), wasmgen.mem("i64.load", 200000, align=0), wasmgen.simple("drop")]
    m.func([], [], [I32] * 100 + [I64] * 40 + [I32], body + [wasmgen.lget(140), wasmgen.simple("drop")], export="leb")
    out.append(wasmgen.item("leb_sizes", m, [[wasmgen.C("leb", [], [])]]))
    m = M()
    m.m["tables"].append({"kind": "externref", "min": 1, "max": -1})
    m.func([], [I32], [], [wasmgen.const(I32, 1)], export="one")
    out.append(wasmgen.item("externref_table", m, []))
    out += limit_items() + [blocktype_high_item(), shadowed_label_item()]
    return out


def limit_items():
    """Limits at their edges: maximum 0, minimum = maximum, maximum 65536, minimum 0 without maximum."""
    M, I32 = wasmgen.Mod, wasmgen.I32
    out = []
    for mn, mx in ((0, 0), (1, 1), (0, -1), (2, 65536), (0, 1)):
        m = M()
        m.memory(mn, mx, export="memory")
        m.func([], [I32], [], [wasmgen.ins("memory.size", m=0)], export="size")
        out.append(wasmgen.item("limits_mem_%d_%s" % (mn, "none" if mx < 0 else mx), m, [[wasmgen.C("size", [], [])]]))
    for mn, mx in ((0, 0), (3, 3), (0, -1), (0, 5), (2, 65536)):
        m = M()
        m.table(mn, mx)
        m.m["exports"].append({"name": "table", "kind": "table", "idx": 0})
        m.func([], [I32], [], [wasmgen.const(I32, 1)], export="one")
        out.append(wasmgen.item("limits_tab_%d_%s" % (mn, "none" if mx < 0 else mx), m, [[wasmgen.C("one", [], [])]]))
    return out


def blocktype_high_item():
    """Block types given by type indices whose LEB128 form differs between the signed and the unsigned encoding
    (64..127), and by a two-byte index."""
    M, I32, I64 = wasmgen.Mod, wasmgen.I32, wasmgen.I64
    m = M()
    for k in range(64):
        m.type([I64] * (k % 4) + [I32] * (k // 4), [])
    t64 = m.type([I32], [I32])
    for k in range(62):
        m.type([I64] * (k % 4) + [I32] * (k // 4), [I64, I64])
    t127 = m.type([I64], [I64])
    m.type([I32, I32], [I32, I32])
    m.type([I64, I32], [I32, I32])
    t130 = m.type([], [I32])
    assert (t64, t127, t130) == (64, 127, 130)
    m.func([I32], [I32], [], [wasmgen.lget(0), wasmgen.block(wasmgen.bt_idx(t64)), wasmgen.const(I32, 5), wasmgen.simple("i32.mul"),
                              wasmgen.END], export="b64")
    m.func([I64], [I64], [I64], [wasmgen.lget(0), wasmgen.loop(wasmgen.bt_idx(t127)), wasmgen.const(I64, 1), wasmgen.simple("i64.add"),
                                 wasmgen.ltee(1), wasmgen.lget(1), wasmgen.const(I64, 3), wasmgen.simple("i64.lt_s"),
                                 wasmgen.br_if(0), wasmgen.END], export="l127")
    m.func([I32], [I32], [], [wasmgen.lget(0), wasmgen.if_(wasmgen.bt_idx(t130)), wasmgen.const(I32, 1), wasmgen.ELSE,
                              wasmgen.const(I32, 2), wasmgen.END], export="i130")
    C = wasmgen.C
    return wasmgen.item("blocktype_high", m, [[C("b64", [7], [I32]), C("l127", [0], [I64]), C("l127", [9], [I64]),
                                               C("i130", [0], [I32]), C("i130", [5], [I32])]])


def shadowed_label_item():
    """Text with symbolic labels where an inner block re-uses the name of an enclosing one: a branch binds to the
    innermost block of that name.  (The abstract module is written with depths; the text by hand.)"""
    M, I32 = wasmgen.Mod, wasmgen.I32
    w = wasmgen
    m = M()
    m.func([I32], [I32], [], [w.block(w.bt_val(I32)), w.block(w.bt_val(I32)), w.const(I32, 10), w.lget(0), w.br_if(0),
                              w.simple("drop"), w.const(I32, 20), w.END, w.const(I32, 1), w.simple("i32.add"), w.END], export="f")
    m.func([I32], [I32], [I32], [w.block(), w.loop(), w.lget(1), w.const(I32, 1), w.simple("i32.add"), w.lset(1),
                                 w.block(), w.lget(1), w.lget(0), w.simple("i32.lt_u"), w.br_if(1), w.br(2), w.END,
                                 w.END, w.END, w.lget(1)], export="g")
    m.func([I32], [I32], [], [w.block(w.bt_val(I32)), w.const(I32, 100), w.lget(0), w.if_(w.bt_val(I32)), w.const(I32, 7),
                              w.lget(0), w.br_table([0, 1], 0), w.ELSE, w.const(I32, 8), w.END, w.simple("i32.add"), w.END],
           export="h")
    wat = """(module
  (type (func (param i32) (result i32)))
  (func (type 0)
    block $l (result i32)
      block $l (result i32)
        i32.const 10
        local.get 0
        br_if $l
        drop
        i32.const 20
      end
      i32.const 1
      i32.add
    end
  )
  (func (type 0)
    (local i32)
    block $x
      loop $x
        local.get 1
        i32.const 1
        i32.add
        local.set 1
        block $x
          local.get 1
          local.get 0
          i32.lt_u
          br_if 1
          br 2
        end
      end
    end
    local.get 1
  )
  (func (type 0)
    block $l (result i32)
      i32.const 100
      local.get 0
      if $l (result i32)
        i32.const 7
        local.get 0
        br_table $l 1 $l
      else
        i32.const 8
      end
      i32.add
    end
  )
  (export "f" (func 0))
  (export "g" (func 1))
  (export "h" (func 2))
)
"""
    C = wasmgen.C
    it = wasmgen.item("shadowed_labels", m, [[C("f", [1], [I32]), C("f", [0], [I32]), C("g", [0], [I32]), C("g", [3], [I32]),
                                                C("h", [0], [I32]), C("h", [1], [I32]), C("h", [2], [I32])]])
    it["wat"] = wat
    return it


def ir_items(ctx, n):
    """Modules produced by ir_to_wasm from generated IR (no abstract module: rewrite / reprint only)."""
    from engines import c23
    from harness import irgen_wasm

    out = []
    r = random.Random(ctx.rng.randrange(1 << 30))
    makers = [p for p in irgen_wasm.cast_patterns()[::7]]
    for k in range(n):
        seed = r.randrange(1 << 30)
        makers.append(("cfg%d" % seed, (lambda seed=seed: irgen_wasm.gen_cfg(random.Random(seed))), "f", ["i32", "i32"], []))
        makers.append(("arith%d" % seed, (lambda seed=seed: irgen_wasm.gen_arith(random.Random(seed))[0]), None, None, []))
    for key, make, fn, ptys, _ in makers:
        wm, _, outcome = c23.translate(make)
        if wm is not None:
            calls = [[wasmgen.C(fn, [a, b], ["i32", "i32"]) for a, b in ((0, 0), (5, 7), (10, 1))]] if fn == "f" and ptys == ["i32", "i32"] else []
            out.append({"key": "ir:" + key, "module": wm, "traces": calls})
    return out


class Engine:
    LEVEL = "other"

    def run(self, ctx):
        ctx.rule("generated modules (the C22 corpus: every integer instruction, nested control, br_table, globals, "
                 "memories, data, tables, elems, exports, start, imports; plus module-structure and LEB-size modules) and "
                 "modules produced by ir_to_wasm from generated IR; per module the round trips parse / read / assemble / "
                 "rewrite / reprint are recorded and judged by TLC (Wasm_Eq.tla laws, Wasm.tla behaviour); distinct = "
                 "distinct (module, round trip)")
        ctx.assume("no TLA+ model of the binary or text grammar: the laws are equalities over the abstract module state "
                   "(harness/project_wasm.py projection) and over byte sequences, and behavioural equality under Wasm.tla")
        ctx.assume("harness/wasmenc.py is the reference assembler (written from the binary-format chapter, canonical LEB128; "
                   "every module it encodes is accepted by node)")
        ctx.cov["explanation"] = ("round-trip laws judged by TLC over projected module state; behaviour of print/parse images "
                                  "and of ppci's binaries (executed by node) validated against Wasm.tla")
        from ppci.wasm import Module

        thorough = ctx.tier == "thorough"
        # ---- calibration of the equivalence (M) ------------------------------------------------------
        if ctx.only is None:
            eq_out = os.path.join(ctx.workdir, "eq.json")
            gen = ctx.tlc("Wasm_MCGen", c22.MCGEN_CFG % "FALSE", label="calibration records (TLA+)",
                          env={"MC_OUT": "-", "EQ_OUT": eq_out}, workers=1, coverage=False)
            if gen.errors or not os.path.exists(eq_out):
                raise MachineryError("Wasm_MCGen failed: %s" % (gen.errors or gen.raw[-800:]))
            cal = ctx.tlc("Wasm_Eq", CAL_CFG, label="Equivalent calibrated on mutated modules", env={"TRACE_FILE": eq_out},
                          workers=2, continue_=True)
            for e in cal.errors:
                raise MachineryError("Wasm_Eq.Equivalent is miscalibrated: %s %s" % (e, str(e.last)[:300]))
            os.unlink(eq_out)
        # ---- corpus --------------------------------------------------------------------------------------
        items = c22.corpus(ctx) + structure_items()
        for it in items:
            it.setdefault("wat", wasmgen.render_wat(it["mod"]))
        extra = ir_items(ctx, 40 if thorough else 6)
        if ctx.only is not None:
            want = ctx.only["key"].split(":", 2)[2] if ctx.only["key"].count(":") >= 2 else ""
            items = [it for it in items if it["key"] == want]
            extra = [x for x in extra if x["key"] == want]
        recs = []
        beh_items = []
        binaries = []

        def rec(key, law, ok, a, b, note=""):
            recs.append({"key": "C21:%s" % key, "law": law, "ok": bool(ok), "a": a, "b": b if ok else (EMPTY if law == "module" else []),
                         "note": note if ok else str(b)})
            ctx.count(key)

        for it in items:
            k = it["key"]
            A = it["mod"]
            enc = wasmenc.encode(A)
            ok, m = attempt(lambda: Module(it["wat"]))
            pm = None
            if ok:
                ok2, pm = attempt(lambda: project_wasm.strip(project_wasm.project_module(m)))
                rec("parse:" + k, "module", ok2, A, pm)
                if not ok2:
                    pm = None
            else:
                rec("parse:" + k, "module", False, A, m)
                m = None
            ok, m2 = attempt(lambda: project_wasm.strip(project_wasm.project_module(Module(enc))))
            rec("read:" + k, "module", ok, A, m2)
            b1 = None
            if m is not None:
                ok, b1 = attempt(lambda: m.to_bytes())
                rec("assemble:" + k, "bytes", ok, list(enc), list(b1) if ok else b1)
                if ok:
                    binaries.append((k, b1, it))
                    ok, b2 = attempt(lambda: Module(b1).to_bytes())
                    rec("rewrite:" + k, "bytes", ok, list(b1), list(b2) if ok else b2)
                else:
                    b1 = None
            ok, b3 = attempt(lambda: Module(enc).to_bytes())
            rec("rewrite-ref:" + k, "bytes", ok, list(enc), list(b3) if ok else b3)
            if m is not None and pm is not None:
                ok, p4 = attempt(lambda: project_wasm.strip(project_wasm.project_module(Module(m.to_string()))))
                rec("reprint:" + k, "module", ok, pm, p4)
                if ok and it["traces"]:
                    beh_items.append({"key": k, "mod": A, "mods": [A, p4], "traces": [it["traces"][0][:25 if not thorough else 80]],
                                      "ext": it.get("ext"), "bytes": b1})
        for x in extra:
            k = x["key"]
            wm = x["module"]
            ok, pm = attempt(lambda: project_wasm.strip(project_wasm.project_module(wm)))
            if not ok:
                rec("project:" + k, "module", False, EMPTY, pm)
                continue
            ok, b1 = attempt(lambda: wm.to_bytes())
            rec("write:" + k, "bytes", ok, [], [] if ok else b1)
            if ok:
                binaries.append((k, b1, None))
                ok, b2 = attempt(lambda: Module(b1).to_bytes())
                rec("rewrite:" + k, "bytes", ok, list(b1), list(b2) if ok else b2)
                ok, p2 = attempt(lambda: project_wasm.strip(project_wasm.project_module(Module(b1))))
                rec("reread:" + k, "module", ok, pm, p2)
            ok, p4 = attempt(lambda: project_wasm.strip(project_wasm.project_module(Module(wm.to_string()))))
            rec("reprint:" + k, "module", ok, pm, p4)
            if ok and x["traces"]:
                beh_items.append({"key": k, "mod": pm, "mods": [pm, p4], "traces": x["traces"], "ext": None, "bytes": None})
        for r in recs[:: max(1, len(recs) // 4)]:
            ctx.sample({"key": r["key"], "law": r["law"], "ok": r["ok"]})
        # ---- E: the laws --------------------------------------------------------------------------------------
        core.eval_records(ctx, "Wasm_Eq", EQ_CFG, recs, keyfn=lambda r: r["key"], workers=4,
                          whatfn=lambda r, e: ("round trip failed with %s" % r["note"]) if not r["ok"] else
                          "round trip does not preserve the module (%s)" % r["law"])
        # ---- node on ppci's binaries (auxiliary: validation; judged: behaviour) ----------------------------------
        jobs = []
        for k, b, it in binaries:
            j = {"id": k, "hex": b.hex(), "traces": [], "exports": [], "ext": []}
            if it is not None and it["traces"]:
                j = c22.make_job(dict(it, traces=[it["traces"][0][:25 if not thorough else 80]]), "bin")
                j["hex"] = b.hex()
            jobs.append(j)
        node = wasm_runner.run_node(jobs) if jobs else {}
        rejected = [k for k, _, _ in binaries if not node.get(k, {}).get("valid")]
        ctx.cov["binaries_validated_by_node"] = len(binaries)
        ctx.cov["binaries_rejected_by_node"] = len(rejected)
        for k in rejected:
            # a binary the reference engine rejects although the module is valid (the reference assembler's binary of
            # the same abstract module is accepted): malformed output
            ref_ok = True
            it = [i for i in items if i["key"] == k]
            if it:
                ref = wasm_runner.run_node([{"id": "ref", "hex": wasmenc.encode(it[0]["mod"]).hex(), "traces": [], "exports": [], "ext": []}])
                ref_ok = ref.get("ref", {}).get("valid", False)
            if it and ref_ok:
                ctx.violation("C21:accepted:%s" % k, "node rejects the binary ppci wrote for module '%s' (%s) but accepts the "
                              "reference assembler's binary of the same module" % (k, node.get(k, {}).get("error")),
                              {"wat": it[0]["wat"], "ppci_hex": [b.hex() for kk, b, _ in binaries if kk == k][0]})
            else:
                ctx.note("node rejects ppci's binary of %s: %s" % (k, node.get(k, {}).get("error")))
        # ---- behaviour: print/parse image, and node's run of ppci's binary, against Wasm.tla --------------------------------
        if beh_items:
            obs = {}
            for b in beh_items:
                n = node.get(b["key"])
                if b["bytes"] is not None and n and n.get("valid") and n.get("traces"):
                    obs[b["key"]] = n["traces"]
            cases = []
            for b in beh_items:
                cs = c22.tlc_cases([b], obs if b["key"] in obs else None, mods_of=lambda it: it["mods"])
                cases += cs
            res = c22.run_wasm(ctx, cases, cfg=BEH_CFG, label="behaviour of print/parse images and of ppci's binaries in node")
            ctx.cov["traces_validated_against_impl"] += len(cases)
            seen = set()
            for e in res.errors:
                st = e.last
                c = cases[st["i"] - 1]
                what = c22.call_text(c, st.get("ci")) if c["_item"]["traces"] else "?"
                if e.name == "ObsPreserved":
                    key = "C21:reprint-behaviour:%s" % c["_item"]["key"]
                    msg = "the module re-parsed from ppci's text output behaves differently at %s" % what
                elif e.name.startswith("Impl"):
                    key = "C21:binary-behaviour:%s" % c["_item"]["key"]
                    msg = "node executing the binary ppci wrote disagrees with the module's semantics at %s [%s]" % (what, e.name)
                elif e.name == "TypeOK":
                    raise MachineryError("TypeOK fails in the behaviour run: %s" % str(st)[:500])
                else:
                    continue
                if key in seen:
                    continue
                seen.add(key)
                ctx.violation(key, msg, {"clause": e.name, "status": st.get("status"), "why": st.get("why"), "ret": st.get("ret"),
                                         "wat": c["_item"].get("wat", "")[:4000] if isinstance(c["_item"], dict) else ""})
