"""C17 -- ELF files written by ppci vs. the ELF reader of tla/Elf.tla (idioms M + E).

M  Elf_MC: the reader's own laws on small synthetic files built by a reference encoder in the spec.
E  Elf_Eval: every file written by ppci.format.elf.write_elf for the corpus below is read by
   Elf!Read inside TLC; TLC decides well-formedness and whether the view shows the live ObjectFile
   (projected by data attributes, harness/project_obj.py).
Spec validation (never changes the exit status): llvm-readobj's print-out of the same file is
compared with Elf.tla's view by TLC (SPEC-SUSPECT on disagreement); GNU readelf's diagnostics are
recorded as the auxiliary observation "accepted by independent ELF readers"."""
import io
import logging
import os
import re
import subprocess

from harness import core, objgen, watchdog
from harness import project_obj as P

ARCHES = ["x86_64", "arm", "riscv", "xtensa", "microblaze"]
BITS = {"x86_64": 64}
PAGE = 0x1000
MAX_FILE = 24000          # bytes; larger files are skipped and counted
CAP = 1 << 24

MC_CFG = """CONSTANTS MaxSecs = %d MaxSyms = %d MaxRels = %d MaxSegs = %d Sample = %d PosMod = %d Lite = %s
INIT Init
NEXT Next
CHECK_DEADLOCK FALSE
INVARIANT RoundTrip
INVARIANT WellFormed
INVARIANT Seen
INVARIANT Damage
INVARIANT Tamper
"""
EVAL_CFG = """INIT Init
NEXT Next
CHECK_DEADLOCK FALSE
INVARIANT Written
INVARIANT WellFormedELF
INVARIANT KindOk
INVARIANT SectionsOk
INVARIANT SymbolsOk
INVARIANT RelocationsOk
INVARIANT EntryOk
INVARIANT SegmentsOk
INVARIANT RefAgrees
"""
GROUPS = {"Written": ["Outcome"], "KindOk": ["Kind"], "SectionsOk": ["Sections"], "SymbolsOk": ["Symbols"],
          "RelocationsOk": ["Relocations"], "EntryOk": ["Entry"], "SegmentsOk": ["Segments"]}
WHAT = {
    "Outcome": "write_elf raised instead of writing a file",
    "Kind": "class / data encoding / machine / file type of the header are not those of the object",
    "Sections": "an ELF reader does not see the object's sections (name, address, size, bytes)",
    "Symbols": "an ELF reader does not see the object's symbols (name, value, size, binding, type, section)",
    "Relocations": "an ELF reader does not see the object's relocation entries",
    "Entry": "e_entry is not the address of the entry symbol",
    "Segments": "PT_LOAD segments do not hold the images' bytes at the images' addresses",
}

C_SOURCES = [
    ("two_funcs", """
int g = 5;
int arr[4];
static int loc(int x) { return x + g; }
int main_(int a) { g = loc(a); return loc(a) + g; }
"""),
    ("loop", """
char buf[7] = {1, 2, 3, 4, 5, 6, 7};
static int k;
int sum(int n) { int s = 0; for (k = 0; k < n; k = k + 1) { s = s + buf[k]; } return s; }
int main_(void) { return sum(7); }
"""),
    ("calls_extern", """
int ext(int);
int h;
int main_(int a) { h = ext(a) + ext(a + 1); return h; }
"""),
]
# translation units with relocations in data (pointer initialisers) and in code (calls, globals):
# a partial link of several of them yields a relocation list that revisits sections
UNITS = [
    ("u1", "int x1; int *p1 = &x1; int f2(int); int f1(int a) { return f2(a) + *p1; }"),
    ("u2", "int x2 = 3; int *p2 = &x2; int f1(int); int f2(int a) { if (a) { return f1(a - 1); } return *p2; }"),
    ("u3", "extern int x1; int *p3 = &x1; int *q3 = &x1; int f1(int); int f3(int a) { return f1(a) + *p3 + *q3; }"),
]
# orders in which a hand-built object's relocation list visits its sections (c = code, d = data,
# r = rodata): every way to interleave, a section visited three times, three sections
REL_ORDERS_QUICK = ["cdcd", "dcdc", "cddc", "dccd", "ccdc", "dcdd", "cdcdc", "cdrcdr", "rdcrdc", "crcdcrc"]
REL_ORDERS_MORE = ["cdcc", "cddd", "ccdd", "ddcc", "cdc", "dcd", "dcdcd", "ddcdd", "rcdcr", "crdcrdcrd", "cdrrdc",
                   "ccddccdd", "dcrdcr"]
LAYOUTS = [
    ("pg", "ENTRY(main_)\nMEMORY code LOCATION=0x10000 SIZE=0x10000 { SECTION(code) }\n"
           "MEMORY ram LOCATION=0x20000 SIZE=0x10000 { SECTION(data) }\n"),
    ("one", "ENTRY(main_)\nMEMORY flash LOCATION=0x8000 SIZE=0x10000 { SECTION(code) ALIGN(8) SECTION(data) }\n"),
    ("odd", "ENTRY(main_)\nMEMORY code LOCATION=0x10100 SIZE=0x10000 { DEFINESYMBOL(_start_code) SECTION(code) }\n"
            "MEMORY ram LOCATION=0x20004 SIZE=0x10000 { SECTION(data) DEFINESYMBOL(_end) }\n"),
]
ASM_X86 = [
    ("jumps", """
section code
global start
global far_away
start:
  mov rax, 1
  call helper
  jmp start
helper:
  mov rbx, far_away
  ret
section data
tab:
  dq =start
  dq =tab
  dd 7
"""),
]


def codes(s):
    return [ord(c) for c in s]


def to_spec(proj):
    """harness.project_obj projection -> the shape Elf.tla reads (names as character codes; a pure
    change of representation)."""
    return {
        "sections": [{"name": codes(s["name"]), "address": s["address"], "data": s["data"]} for s in proj["sections"]],
        "symbols": [{"id": y["id"], "name": codes(y["name"]), "binding": y["binding"], "def": y["def"],
                     "hassec": y["hassec"], "sec": codes(y["sec"]), "value": y["value"], "typ": y["typ"],
                     "size": y["size"]} for y in proj["symbols"]],
        "relocations": [{"type": r["type"], "sym": r["sym"], "sec": codes(r["sec"]), "off": r["off"], "add": r["add"]}
                        for r in proj["relocations"]],
        "images": [{"address": im["address"], "secs": [codes(n) for n in im["secs"]]} for im in proj["images"]],
        "entry": proj["entry"],
    }


def ascii_only(proj):
    names = [s["name"] for s in proj["sections"]] + [y["name"] for y in proj["symbols"]]
    return all(all(0 < ord(c) < 128 for c in n) for n in names)


def tags_of(obj, kind):
    """features of the *input* that name the class a finding belongs to (not a verdict)"""
    t = []
    try:
        if kind == "exe" and any(im.address % PAGE for im in obj.images):
            t.append("img-unaligned")
        if any(y.value is not None and y.section is None for y in obj.symbols):
            t.append("abs-sym")
    except Exception:
        t.append("odd-object")
    return t


def write_out(obj, kind):
    from ppci.format.elf import write_elf

    f = io.BytesIO()
    try:
        watchdog.limited(lambda: write_elf(obj, f, type="relocatable" if kind == "rel" else "executable"),
                         5.0, "write_elf")
    except BaseException as e:  # noqa: the outcome class is the observation
        if isinstance(e, (KeyboardInterrupt, SystemExit)):
            raise
        return {"ok": False, "exc": type(e).__name__, "msg": str(e)[:120]}
    return {"ok": True, "file": list(f.getvalue())}


# ---------------------------------------------------------------------------
# corpus
def corpus(ctx):
    """(key stem, arch, kind, ObjectFile) for every file to be written"""
    from ppci import api
    from ppci.binutils import linker as L

    logging.disable(logging.CRITICAL)
    rng = ctx.rng
    thorough = ctx.tier == "thorough"
    out = []
    skipped = {"link-failed": 0, "compile-failed": 0}
    secpool = objgen.SEC_NAMES + [".text", "$9", "a b"]

    # (a) generated objects, unlinked -> relocatable files
    for arch_name in ARCHES:
        arch = api.get_arch(arch_name)
        for n in range(24 if thorough else 7):
            d = objgen.gen_object(rng, arch_name, n, secpool, max_size=rng.choice([24, 40]),
                                  defs=rng.sample(objgen.GLOBALS, rng.choice([0, 1, 2])),
                                  refs=rng.sample(["ext0", "ext1", "g3"], rng.choice([0, 1, 2])))
            if rng.random() < 0.3:
                for y in d["syms"]:
                    y["typ"] = rng.choice(["func", "object", "", "unknown"])
            try:
                out.append(("gen%d" % n, arch_name, "rel", objgen.mk_object(arch, d)))
            except Exception:
                skipped["compile-failed"] += 1
    # (b) generated link jobs -> executables (and partial links -> relocatable)
    for arch_name in ARCHES:
        arch = api.get_arch(arch_name)
        n = 0
        tries = 0
        want = 30 if thorough else 8
        while n < want and tries < 10 * want:
            tries += 1
            job = objgen.gen_job(rng, arch_name, max_size=rng.choice([24, 40]))
            if not (job["lay"]["on"] or job["opt"]["partial"]):
                continue
            if rng.random() < 0.5:          # page-aligned placement as well as arbitrary addresses
                for k, m in enumerate(job["lay"]["mems"]):
                    m["loc"] = (k + 1) * 0x4000 + (0 if rng.random() < 0.8 else 0x1000)
            try:
                objs = [objgen.mk_object(arch, d) for d in job["objs"]]
                layout = objgen.mk_layout(job["lay"]) if job["lay"]["on"] else None
                linked = L.link(objs, layout=layout, partial_link=job["opt"]["partial"],
                                extra_symbols={e["name"]: e["value"] for e in job["opt"]["extra"]} or None,
                                entry=job["opt"]["entry"] or None)
            except Exception:
                skipped["link-failed"] += 1
                continue
            kind = "rel" if job["opt"]["partial"] else "exe"
            out.append(("job%d" % n, arch_name, kind, linked))
            n += 1
    # (c) compiled C and assembly
    for arch_name in ARCHES:
        for sname, src in C_SOURCES:
            try:
                obj = api.cc(io.StringIO(src), arch_name)
            except Exception:
                skipped["compile-failed"] += 1
                continue
            out.append(("c-" + sname, arch_name, "rel", obj))
            if "ext(" in src:
                continue
            for lname, lay in (LAYOUTS if thorough else LAYOUTS[:1] + LAYOUTS[2:]):
                try:
                    linked = api.link([obj], layout=io.StringIO(lay))
                except Exception:
                    skipped["link-failed"] += 1
                    continue
                out.append(("c-%s-%s" % (sname, lname), arch_name, "exe", linked))
    for sname, src in ASM_X86:
        try:
            obj = api.asm(io.StringIO(src), "x86_64")
            out.append(("asm-" + sname, "x86_64", "rel", obj))
        except Exception:
            skipped["compile-failed"] += 1
    # (d) relocation lists that are not contiguous per section (x86_64: the machine with ELF relocation
    #     numbers): partial links of 2-3 units, hand-built objects visiting their sections in every
    #     order, shuffled relocation lists
    x86 = api.get_arch("x86_64")
    units = {}
    for uname, src in UNITS:
        try:
            units[uname] = lambda src=src: api.cc(io.StringIO(src), "x86_64")
            units[uname]()
        except Exception:
            skipped["compile-failed"] += 1
            units.pop(uname, None)
    combos = [("u1", "u2"), ("u2", "u1"), ("u1", "u2", "u3"), ("u3", "u1", "u2")] + ([("u1", "u3"), ("u3", "u2", "u1")] if thorough else [])
    for combo in combos:
        if not all(u in units for u in combo):
            continue
        try:
            linked = L.link([units[u]() for u in combo], partial_link=True)
        except Exception:
            skipped["link-failed"] += 1
            continue
        out.append(("partial-" + "-".join(combo), "x86_64", "rel", linked))
    for order in REL_ORDERS_QUICK + (REL_ORDERS_MORE if thorough else []):
        secs = [{"name": n, "align": 4, "data": [rng.randrange(256) for _ in range(48)]}
                for n in ("code", "data", "rodata")]
        syms = [{"id": 1, "name": "g0", "binding": "global", "def": True, "sec": "code", "value": 4, "typ": "func", "size": 8},
                {"id": 2, "name": "l0", "binding": "local", "def": True, "sec": "data", "value": 8, "typ": "object", "size": 4},
                {"id": 3, "name": "ext0", "binding": "global", "def": False, "sec": "", "value": 0, "typ": "func", "size": 0},
                {"id": 4, "name": "l1", "binding": "local", "def": True, "sec": "rodata", "value": 0, "typ": "object", "size": 0}]
        rels = []
        for k, ch in enumerate(order):
            t, add = [("abs64", 0), ("rel32", -4), ("abs32", 0)][k % 3]
            # the same symbol is referenced from several sections
            rels.append({"type": t, "sym": [1, 3, 2, 1, 4][k % 5], "sec": {"c": "code", "d": "data", "r": "rodata"}[ch],
                         "off": 4 * k, "add": add})
        try:
            out.append(("order-" + order, "x86_64", "rel",
                        objgen.mk_object(x86, {"secs": secs, "syms": syms, "rels": rels, "entry": -1})))
        except Exception:
            skipped["compile-failed"] += 1
    for n in range(6 if thorough else 3):
        cands = [u for u in units]
        try:
            if n % 2 == 0:
                obj = L.link([units[u]() for u in rng.sample(cands, min(len(cands), 2 + n % 3))], partial_link=True)
            else:
                obj = units[rng.choice(cands)]()
            rng.shuffle(obj.relocations)
            out.append(("shuffled%d" % n, "x86_64", "rel", obj))
        except Exception:
            skipped["link-failed"] += 1
    return out, skipped


# ---------------------------------------------------------------------------
# reference tools (spec validation, auxiliary)
def _num(txt):
    """'PT_LOAD (0x1)' -> 1, '0x1000' -> 4096, '156' -> 156"""
    m = re.search(r"\((0x[0-9A-Fa-f]+|\d+)\)\s*$", txt)
    t = m.group(1) if m else txt.strip()
    return int(t, 16) if t.lower().startswith("0x") else int(t)


def _w8(v):
    return [(v >> (8 * k)) & 255 for k in range(8)]


def _cap(v):
    return v if v < CAP else CAP


def _blocks(text, head):
    """the 'Key: value' lines of every '<head> {' block of llvm-readobj's LLVM style"""
    res = []
    cur = None
    depth = 0
    for ln in text.splitlines():
        s = ln.strip()
        if cur is None:
            if s.startswith(head + " {"):
                cur = {}
                depth = 1
            continue
        m = re.match(r"([\w/]+) \[(?: \((0x[0-9A-Fa-f]+)\))?$", s)
        if m or s.endswith("{"):
            if m and m.group(2) and depth == 1:
                cur[m.group(1)] = m.group(2)
            depth += 1
            continue
        if s in ("}", "]"):
            depth -= 1
            if depth == 0:
                res.append(cur)
                cur = None
            continue
        if depth == 1 and ":" in s:
            k, v = s.split(":", 1)
            cur[k.strip()] = v.strip()
    return res


def reference_all(paths):
    """one llvm-readobj run over all files -> {path: text of its print-out}"""
    if not paths:
        return {}
    script = ('for f in "$@"; do llvm-readobj-14 --file-headers --sections --symbols --relocations --expand-relocs '
              '--program-headers "$f" 2>/dev/null; done')
    try:
        p = subprocess.run(["sh", "-c", script, "sh"] + paths, capture_output=True, text=True, timeout=300)
    except Exception:
        return {}
    res = {}
    for part in re.split(r"(?m)^(?=File: )", p.stdout):
        m = re.match(r"File: (.*)\n", part)
        if m and "ElfHeader {" in part:
            res[m.group(1).strip()] = part
    return res


def reference(t, bits):
    """llvm-readobj's view of a file in the shape of Elf_Eval!RefOf, or None when the tool gave none"""
    if not t:
        return None
    try:
        h = _blocks(t, "ElfHeader")[0]
        hdr = {"type": _num(h["Type"]), "machine": _num(h["Machine"]), "entry": _w8(_num(h["Entry"])),
               "phoff": _cap(_num(h["ProgramHeaderOffset"])), "shoff": _cap(_num(h["SectionHeaderOffset"])),
               "ehsize": _num(h["HeaderSize"]), "phentsize": _num(h["ProgramHeaderEntrySize"]),
               "phnum": _num(h["ProgramHeaderCount"]), "shentsize": _num(h["SectionHeaderEntrySize"]),
               "shnum": _num(h["SectionHeaderCount"]), "shstrndx": _num(h["StringTableSectionIndex"])}

        def name_of(v):
            return codes(re.sub(r"\s*\((0x[0-9A-Fa-f]+|\d+)\)\s*$", "", v))

        secs = [[name_of(s["Name"]), _cap(_num(s["Type"])), _w8(_num(s["Flags"])), _w8(_num(s["Address"])),
                 _cap(_num(s["Offset"])), _cap(_num(s["Size"])), _cap(_num(s["Link"])), _cap(_num(s["Info"])),
                 _cap(_num(s["AddressAlignment"])), _cap(_num(s["EntrySize"]))] for s in _blocks(t, "Section")]
        syms = []
        for y in _blocks(t, "Symbol"):
            syms.append([name_of(y["Name"]), _w8(_num(y["Value"])), _w8(_num(y["Size"])), _num(y["Binding"]),
                         _num(y["Type"]), _num(y["Other"]),
                         _num(y["Section"])])
        relas = []
        for m in re.finditer(r"Section \((\d+)\) [^\n]*\{\n((?:.*\n)*?)  \}\n", t[t.find("Relocations ["):]):
            tab = int(m.group(1))
            for r in _blocks(m.group(2), "Relocation"):
                add = _num(r["Addend"])
                if bits == 32 and add >= 1 << 31:
                    add -= 1 << 32
                relas.append([tab, _w8(_num(r["Offset"])), _num(r["Type"]), _num(r["Symbol"]),
                              _w8(add & ((1 << 64) - 1))])
        segs = [[_cap(_num(g["Type"])), _cap(_num(g["Offset"])), _w8(_num(g["VirtualAddress"])),
                 _w8(_num(g["PhysicalAddress"])), _cap(_num(g["FileSize"])), _w8(_num(g["MemSize"])),
                 _cap(_num(g["Flags"])), _cap(_num(g["Alignment"]))] for g in _blocks(t, "ProgramHeader")]
    except Exception:
        return None
    return {"present": True, "hdr": hdr, "secs": secs, "syms": syms, "relas": relas, "segs": segs}


def readelf_diag_all(paths, both=True):
    """diagnostics of GNU readelf and llvm-readelf per file (one shell loop): {path: [short strings]},
    an empty list = accepted silently"""
    res = {p: [] for p in paths}
    if not paths:
        return res
    script = ('for f in "$@"; do echo "##FILE $f" >&2; readelf -a -W "$f" >/dev/null || echo "readelf: exit status $?" >&2; '
              + ('llvm-readelf-14 -a "$f" >/dev/null || echo "llvm-readelf: exit status $?" >&2; ' if both else '') + 'done')
    try:
        p = subprocess.run(["sh", "-c", script, "sh"] + paths, capture_output=True, text=True, timeout=300)
    except Exception:
        return res
    cur = None
    for ln in p.stderr.splitlines():
        ln = ln.strip()
        if ln.startswith("##FILE "):
            cur = ln[7:]
        elif ln and cur in res:
            res[cur].append(ln[:120])
    return res


def _setof(v):
    """a TLA+ set of strings as parsed by harness.tlaval"""
    if isinstance(v, tuple) and len(v) == 2 and v[0] == "set":
        return set(v[1])
    if isinstance(v, (list, set, frozenset)):
        return set(v)
    return set()


# ---------------------------------------------------------------------------
class Engine:
    LEVEL = "model_checking"

    def run(self, ctx):
        thorough = ctx.tier == "thorough"
        ctx.rule("M: Elf_MC builds every small abstract ELF object (both classes, both data encodings, ET_REL / "
                 "ET_EXEC, sections, symbols, RELA entries, PT_LOAD segments), encodes it with a reference encoder "
                 "written in the spec and checks Read(Encode(o)) = o, well-formedness, the 'seen' predicates, "
                 "detection of named damages and that no interpreted byte is ignored.  E: every file written by "
                 "write_elf for generated objects (objgen), generated link jobs with generated layouts, compiled C "
                 "and assembly, partial links of 2-3 units, hand-built objects whose relocation list visits the sections in every order, shuffled relocation lists, for x86_64 / arm / riscv / xtensa / microblaze, relocatable and executable; one file "
                 "per TLC state; distinct = distinct (arch, kind, object)")
        ctx.assume("harness/project_obj.py copies the ObjectFile's data attributes faithfully; the JSON byte list is "
                   "the file write_elf produced")
        ctx.assume("relocatable files of machines other than x86_64 with relocation entries are refused by ppci "
                   "(NotImplementedError 'ELF format relocations'): outside the property, skipped and counted")
        if ctx.only is None:
            cfg = MC_CFG % ((2, 2, 1, 1, 97, 4, "FALSE") if thorough else (1, 1, 1, 1, 11, 8, "TRUE"))
            res = ctx.tlc("Elf_MC", cfg, label="reader laws", workers=8, coverage=False)
            acts = {}
            for m in re.finditer(r'<<"ACT", "(\w+)">>', res.raw):
                acts[m.group(1)] = acts.get(m.group(1), 0) + 1
            for a in ("AddSection", "AddSymbol", "AddRela", "AddSegment", "SetEntry"):
                if not acts.get(a):
                    raise core.tlcmod.MachineryError("Elf_MC: action %s never taken" % a)
                ctx.cov["actions"]["Elf_MC." + a] = acts[a]
            for e in res.errors:
                raise core.tlcmod.MachineryError("Elf.tla law fails in the specification itself: %s\n%s" % (e, e.text[:1500]))
        items, skipped = corpus(ctx)
        recs = []
        aux = {"files": 0, "accepted_silently": 0, "diagnosed": 0, "examples": []}
        unsupported = 0
        toolarge = 0
        nonascii = 0
        nref = 0
        tooled = []
        refdir = os.path.join(ctx.workdir, "files")
        os.makedirs(refdir, exist_ok=True)
        for stem, arch, kind, obj in items:
            try:
                proj = P.project(obj, wide=True, debug=False)
            except Exception as e:  # a changed tree may break attribute access
                ctx.violation("C17:%s:%s:%s:Projection" % (arch, kind, stem),
                              "the ObjectFile could not be projected: %s" % type(e).__name__)
                continue
            if not ascii_only(proj):
                nonascii += 1
                continue
            out = write_out(obj, kind)
            if out["ok"] and len(out["file"]) > MAX_FILE:
                toolarge += 1
                continue
            tags = tags_of(obj, kind)
            key = "C17:%s:%s:%s%s" % (arch, kind, stem, "".join(":" + t for t in tags))
            rec = {"key": key, "arch": arch, "kind": kind, "out": out, "obj": to_spec(proj),
                   "ref": {"present": False}}
            if (not out["ok"] and out["exc"] == "NotImplementedError" and kind == "rel" and arch != "x86_64"
                    and proj["relocations"]):
                unsupported += 1          # still judged by TLC (Unsupported(r)), counted here for the evidence
            if out["ok"] and (thorough or len(recs) % 6 == 0):
                path = os.path.join(refdir, "f%d.elf" % len(recs))
                with open(path, "wb") as f:
                    f.write(bytes(out["file"]))
                tooled.append((path, rec))
            recs.append(rec)
        texts = reference_all([p for p, _ in tooled])
        diags = readelf_diag_all([p for p, _ in (tooled[::3] if thorough else tooled)], both=thorough)
        for path, rec in tooled:
            ref = reference(texts.get(path), BITS.get(rec["arch"], 32))
            if ref is not None:
                rec["ref"] = ref
                nref += 1
            if path not in diags:
                os.unlink(path)
                continue
            diag = diags[path]
            aux["files"] += 1
            if diag:
                aux["diagnosed"] += 1
                if len(aux["examples"]) < 6:
                    aux["examples"].append({"key": rec["key"], "diag": diag[:3]})
            else:
                aux["accepted_silently"] += 1
            os.unlink(path)
        if ctx.only is not None:
            recs = [r for r in recs if ctx.only["key"].startswith(r["key"] + ":") or r["key"] == ctx.only["key"]]
        for r in recs:
            ctx.count(r["key"])
        for r in recs[:: max(1, len(recs) // 4)]:
            ctx.sample({"key": r["key"], "bytes": len(r["out"].get("file", [])), "sections": len(r["obj"]["sections"]),
                        "symbols": len(r["obj"]["symbols"]), "relocations": len(r["obj"]["relocations"]),
                        "images": len(r["obj"]["images"])})
        ctx.cov["skipped"] = dict(skipped, unsupported_relocatable=unsupported, file_too_large=toolarge,
                                  non_ascii_names=nonascii)
        ctx.cov["independent_readers"] = aux
        ctx.cov["reference_views_compared"] = nref
        self.judge(ctx, recs)

    def judge(self, ctx, recs):
        if not recs:
            return
        path = ctx.trace_file(recs)
        res = ctx.tlc("Elf_Eval", EVAL_CFG, label="files", env={"TRACE_FILE": path}, continue_=True, workers=8,
                      coverage=False)
        os.unlink(path)
        ctx.cov["traces_validated_against_impl"] += len(recs)
        if res.distinct != len(recs) + 17:
            raise core.tlcmod.MachineryError("Elf_Eval visited %d states for %d records" % (res.distinct, len(recs)))
        seen = set()
        for e in res.errors:
            st = e.last
            idx = st.get("i")
            if not isinstance(idx, int) or not 1 <= idx <= len(recs):
                raise core.tlcmod.MachineryError("TLC error without record index: %s\n%s" % (e, e.text[:2000]))
            r = recs[idx - 1]
            for c in sorted(_setof(st.get("sus"))):
                if (idx, c) not in seen:
                    seen.add((idx, c))
                    ctx.note("SPEC-SUSPECT C17 %s: Elf.tla and llvm-readobj disagree on %s" % (r["key"], c))
            # TLC reports one violated invariant per state; `bad` names every failing clause of the record
            bad = _setof(st.get("bad"))
            names = sorted(bad)
            for c in names:
                if c not in bad or (idx, c) in seen:
                    continue
                seen.add((idx, c))
                what = WHAT.get(c, "the file violates the ELF specification's requirement '%s' (tla/Elf.tla WFClauses)" % c)
                if c == "Outcome":
                    what += " (%s: %s)" % (r["out"].get("exc"), r["out"].get("msg"))
                ctx.violation(r["key"] + ":" + c, what,
                              {"key": r["key"], "clause": c, "failing": sorted(bad), "arch": r["arch"], "kind": r["kind"],
                               "out": r["out"] if not r["out"]["ok"] else {"ok": True, "bytes": len(r["out"]["file"])}})
