"""C26 -- the C pre-processor agrees with a conforming pre-processor (Cpp.tla; idioms M + E/T).

M: Cpp_MC -- laws of Prosser's expand on every macro set with <= 2 definitions over 3 identifiers,
   invariants of the conditional-inclusion machine, every rule (action) taken.
E: Cpp_Eval -- every translation unit (the standard's own examples with the results the standard
   states, directed units, generated units) is run through the machine of Cpp.tla by TLC, one step
   per source line; ppci's token stream (and its printed text, lexed again) must be the machine's.
Reference guard (thorough): gcc -E -P; a disagreement in which gcc sides with ppci is reported as
SPEC-SUSPECT and is not a violation.
"""
import hashlib
import os
import re

from harness import core, cppgen

MC_CFG = """CONSTANTS MaxBody = %d
MaxIn = %d
MaxLines = %d
WithOps = %s
INIT Init
NEXT Next
CHECK_DEADLOCK FALSE
INVARIANT LawTerminates
INVARIANT LawIdempotent
INVARIANT LawNoRedex
INVARIANT LawHideSets
INVARIANT LawUntouched
INVARIANT LawSpellings
INVARIANT LawNoMacros
INVARIANT LawObjectOnly
INVARIANT LawNestedHidesMore
INVARIANT TypeOK
INVARIANT StackShape
INVARIANT OneGroup
INVARIANT NoTextWhileSkipping
INVARIANT Balanced
PROPERTY OutputOnlyWhenLive
PROPERTY MacrosOnlyWhenLive
"""
EVAL_CFG = """INIT Init
NEXT Next
CHECK_DEADLOCK FALSE
INVARIANT Conforms
INVARIANT TextConforms
INVARIANT Reference
INVARIANT NoFuel
INVARIANT SkippingHoldsNoText
"""
ACTIONS = ["Text", "Skip", "Null", "Define", "Undef", "Other", "If", "Ifdef", "Ifndef", "Elif", "Else", "Endif"]
# tags of Cpp.tla that only say which ordinary rule was used; the others name a special rule and go into the key
PLAIN_TAGS = {"object-like", "function-like", "if", "ifdef", "ifndef", "elif", "else", "undef", "stringize", "paste",
              "arg-paste-operand", "hidden-text", "hidden-if", "if-defined", "fn-name-without-paren", "arg-empty",
              "empty-expansion", "arg-protected-comma", "paren-from-other-context", "benign-redefinition",
              "stringize-escape", "stringize-empty", "elif-after-taken-group", "if-literal-unsigned-by-value",
              "fn-name-ends-text", "fn-name-ends-arg"}
STATUSES = ["ok", "invalid", "undef", "impldef", "unspec", "outofmodel"]


def uid(text):
    return hashlib.sha1(text.encode()).hexdigest()[:10]


def decode(toks):
    """TLC token records -> readable text."""
    return " ".join("".join(chr(c) for c in t["t"]) for t in toks)


def tags_of(state):
    t = state.get("tags")
    if isinstance(t, tuple) and t and t[0] == "set":
        return sorted(t[1])
    return []


def first_difference(a, b):
    """Label of where two encoded token lists part (kinds of the two tokens of `a` around it)."""
    n = 0
    while n < len(a) and n < len(b) and a[n] == b[n]:
        n += 1
    k = lambda t: cppgen.KIND_NAMES.get(t[0], "?")
    if n < len(a):
        nxt = k(a[n + 1]) if n + 1 < len(a) else "end"
        return "%s+%s" % (k(a[n]), nxt)
    return "extra"


class Engine:
    LEVEL = "model_checking"

    # ---- M ---------------------------------------------------------------
    def model_check(self, ctx, thorough):
        dot = os.path.join(ctx.workdir, "cpp_mc.dot")
        # a small configuration whose state graph is dumped: per-action transition counts
        # (-coverage is unusable with the mutually recursive Exp / Sub1)
        runs = [((0, 1, 3, "FALSE"), True)]
        runs += [((2, 2, 5, "FALSE"), False), ((2, 1, 4, "TRUE"), False)] if thorough else [((2, 0, 4, "FALSE"), False)]
        for consts, dump in runs:
            res = ctx.tlc("Cpp_MC", MC_CFG % consts, label="laws+machine body<=%d in<=%d lines<=%d ops=%s" % consts,
                          coverage=False, workers=8, extra=["-dump", "dot,actionlabels", dot] if dump else None)
            for e in res.errors:
                raise core.tlcmod.MachineryError("Cpp_MC: the specification violates its own law %s: %s" % (e.name, e.text[:1500]))
            if dump:
                self.count_actions(ctx, dot, "Cpp_MC")
        missing = [a for a in ACTIONS + ["ExpandInput"] if not ctx.cov["actions"].get("Cpp_MC." + a)]
        if missing:
            raise core.tlcmod.MachineryError("Cpp_MC: actions never taken: %s" % missing)

    @staticmethod
    def count_actions(ctx, dot, module):
        """Transitions per action from the edge labels of a dot dump.  The rule actions are instances
        Mach("text") / Line("text") of one parametrised definition: they are counted under the name of
        the instance (Text, ...)."""
        with open(dot) as f:
            for line in f:
                m = re.match(r'^-?\d+ -> -?\d+ \[label="((?:[^"\\]|\\.)*)"', line)
                if not m:
                    continue
                lab = m.group(1).replace('\\"', '"')
                inst = re.match(r'^\w+\("(\w+)"\)$', lab)
                k = module + "." + (inst.group(1).capitalize() if inst else lab)
                ctx.cov["actions"][k] = ctx.cov["actions"].get(k, 0) + 1
        os.unlink(dot)

    # ---- units -------------------------------------------------------------
    def units(self, ctx):
        """[(name, text, want, expected_obs)]"""
        thorough = ctx.tier == "thorough"
        out = []
        for name, text, want, exp in cppgen.REFERENCE_UNITS:
            out.append({"name": name, "text": text, "want": want,
                        "ref": cppgen.encode_obs([(k, s) for k, s, _ in cppgen.lex_text(exp)])})
        for name, text in cppgen.DIRECTED_UNITS:
            out.append({"name": "directed-" + name, "text": text, "want": "", "ref": None})
        n = 3500 if thorough else 230
        seen = set()
        while len(seen) < n:
            text = cppgen.gen_unit(ctx.rng)
            if text in seen:
                continue
            seen.add(text)
            out.append({"name": uid(text), "text": text, "want": "", "ref": None})
        return out

    def record(self, u):
        if u["ref"] is not None:
            obs = tobs = u["ref"]
        else:
            obs = cppgen.ppci_observe(u["text"])
            tobs = cppgen.ppci_text_observe(u["text"])
        return {"lines": cppgen.encode_unit(u["text"]), "obs": obs, "tobs": tobs, "want": u["want"]}

    # ---- E -----------------------------------------------------------------
    def judge(self, ctx, units, label, dump=False, guard=False):
        recs = [self.record(u) for u in units]
        path = ctx.trace_file(recs)
        dot = os.path.join(ctx.workdir, "cpp_eval.dot")
        # few workers: every worker parses the JSON file again, and the units are cheap
        res = ctx.tlc("Cpp_Eval", EVAL_CFG, label=label, env={"TRACE_FILE": path}, continue_=True, coverage=False,
                      workers=4, extra=["-dump", "dot,actionlabels", dot] if dump else None)
        os.unlink(path)
        if dump:
            self.count_actions(ctx, dot, "Cpp_Eval")
        status = {}
        for m in re.finditer(r'<<"C26ST", (\d+), "(\w+)">>', res.raw):
            status[int(m.group(1))] = m.group(2)
        if sorted(status) != list(range(1, len(units) + 1)):
            raise core.tlcmod.MachineryError("Cpp_Eval: %d of %d units reached their end state\n%s" % (
                len(status), len(units), res.raw[-2500:]))
        ctx.cov["traces_validated_against_impl"] += sum(1 for u in units if u["ref"] is None)
        skipped = ctx.cov.setdefault("units_by_specification_status", {})
        for k, u in enumerate(units, 1):
            st = status[k]
            skipped[st] = skipped.get(st, 0) + 1
            if u["ref"] is None:
                ctx.count("C26:" + u["name"], nontrivial=(st == "ok"))
        seen = set()
        for e in res.errors:
            st = e.last
            idx = st.get("i")
            if e.kind != "invariant" or not isinstance(idx, int) or not 1 <= idx <= len(units):
                raise core.tlcmod.MachineryError("Cpp_Eval: unexpected TLC error %s: %s" % (e, e.text[:2000]))
            if (idx, e.name) in seen:
                continue
            seen.add((idx, e.name))
            u, rec = units[idx - 1], recs[idx - 1]
            spec = st.get("st", {})
            expected = decode(spec.get("out", []))
            if e.name in ("NoFuel", "SkippingHoldsNoText", "Reference") or u["ref"] is not None:
                raise core.tlcmod.MachineryError("Cpp_Eval: the specification fails %s on unit %s (status %s, result %r)" % (
                    e.name, u["name"], spec.get("status"), expected))
            tags = [t for t in tags_of(spec) if t not in PLAIN_TAGS]
            obs = rec["obs"] if e.name == "Conforms" else rec["tobs"]
            outcome = "tokens" if obs["ok"] else "exc=" + obs["exc"]
            if e.name == "Conforms":
                key = "C26:tokens:%s:%s:%s" % ("+".join(tags) or "plain", outcome, u["name"])
                what = "ppci's token sequence is not the conforming one: expected `%s`, ppci %s" % (
                    expected, ("`%s`" % cppgen.show_toks(obs["toks"])) if obs["ok"] else "raised " + obs["exc"])
            else:
                where = first_difference(rec["obs"]["toks"], obs["toks"]) if obs["ok"] else "none"
                key = "C26:printed-text:%s:%s:%s" % (where, outcome, u["name"])
                what = "the text printed by ppci.api.preprocess does not lex back to the token sequence: expected `%s`, printed text lexes to %s" % (
                    expected, ("`%s`" % cppgen.show_toks(obs["toks"])) if obs["ok"] else "nothing: " + obs["exc"])
            if guard:
                g = cppgen.gcc_observe(u["text"])
                if g["ok"] and obs["ok"] and g["toks"] == obs["toks"]:
                    print("SPEC-SUSPECT property=C26 case=%s (gcc -E agrees with ppci, not with Cpp.tla)" % key)
                    ctx.cov["spec_suspect"] = ctx.cov.get("spec_suspect", 0) + 1
                    continue
            ctx.violation(key, what, {"text": u["text"], "clause": e.name, "expected": expected,
                                      "observed": cppgen.show_toks(obs["toks"]) if obs["ok"] else obs["exc"],
                                      "tags": tags_of(spec)})
        return status

    def cross_validate(self, ctx, units):
        """Thorough tier: the specification against gcc -E on a sample of the generated units
        (never changes the exit status; disagreements are printed and counted)."""
        sample = [dict(u) for u in units if u["ref"] is None][:400]
        recs = []
        for u in sample:
            g = cppgen.gcc_observe(u["text"])
            recs.append({"lines": cppgen.encode_unit(u["text"]), "obs": g, "tobs": g, "want": ""})
        path = ctx.trace_file(recs)
        res = ctx.tlc("Cpp_Eval", EVAL_CFG, label="reference cross-validation (gcc -E)", env={"TRACE_FILE": path},
                      continue_=True, coverage=False, workers=4)
        os.unlink(path)
        bad = sorted({e.last.get("i") for e in res.errors if e.name == "Conforms" and isinstance(e.last.get("i"), int)})
        ctx.cov["gcc_cross_validation"] = {"units": len(sample), "disagreements": len(bad)}
        for i in bad[:20]:
            print("SPEC-SUSPECT property=C26 case=gcc-vs-spec:%s (gcc -E and Cpp.tla differ on a unit the specification calls defined)" % sample[i - 1]["name"])

    def run(self, ctx):
        thorough = ctx.tier == "thorough"
        ctx.rule("M: Cpp_MC exhaustively (laws of expand on all macro sets with <= 2 definitions over {a, b, c, (, )}, "
                 "conditional-stack invariants over all line sequences from an 18-line alphabet). "
                 "E: every unit = %d examples of ISO C 6.10.3 with the results the standard states (judged against the "
                 "standard's text), %d directed units (one construct each), and seeded random units of <= 60 tokens "
                 "(<= 6 macros, nested / recursive uses, # and ##, #undef, nested conditional groups with expression trees "
                 "of depth <= 3 over boundary literals); TLC runs each through Cpp.tla line by line and compares ppci's "
                 "token stream and re-lexed printed text with the machine's output.  distinct_nontrivial = distinct unit "
                 "texts whose result the standard defines (status ok); the others are counted by status and not judged"
                 % (len(cppgen.REFERENCE_UNITS), len(cppgen.DIRECTED_UNITS)))
        ctx.assume("the tokenizer harness/cppgen.py: lex_line (ISO C 6.4 pre-processing tokens by longest match) and the "
                   "integer encoding of tokens are correct; it lexes the source for Cpp.tla and ppci's printed output")
        ctx.assume("ppci token kinds ID/NUMBER/FLOAT/STRING/CHAR map to id/num/num/str/chr, everything else to punct")
        ctx.assume("out of scope: __LINE__/__FILE__/__DATE__, #include, #pragma, #line, #error, variadic macros, digraphs, "
                   "trigraphs, comments, character constants inside #if")
        if ctx.only is not None:
            text = ctx.only["case"]["text"]
            self.judge(ctx, [{"name": ctx.only["key"].rsplit(":", 1)[-1], "text": text, "want": "", "ref": None}], "replay",
                       guard=thorough)
            return
        self.model_check(ctx, thorough)
        try:
            import ppci.lang.c  # noqa: a changed tree may not even import
        except Exception as e:
            ctx.violation("C26:import:exc=%s" % type(e).__name__, "ppci.lang.c cannot be imported: %s" % e)
            return
        units = self.units(ctx)
        for u in units[:: max(1, len(units) // 4)]:
            ctx.sample({"unit": u["name"], "text": u["text"]})
        first = True
        for chunk in core.chunks(units, 400 if not thorough else 1200):
            dump = first and len(chunk) <= 400
            self.judge(ctx, chunk, "units%s" % (" (state graph dumped for action counts)" if dump else ""), dump=dump, guard=thorough)
            first = False
        missing = [a for a in ACTIONS + ["End"] if not ctx.cov["actions"].get("Cpp_Eval." + a)] if not thorough else []
        if missing:
            raise core.tlcmod.MachineryError("Cpp_Eval: rules never exercised by the units: %s" % missing)
        if thorough:
            self.cross_validate(ctx, units)
