"""X23 -- debug information describes the linked program (DebugInfo.tla, DwarfLine.tla; idioms M + T + E).

Python compiles and links real programs with debug=True and writes down what the real code did
(harness/dbginfo_rec.py); every verdict is TLC's:
  * DebugInfo_MC      the linker-phase model itself, exhaustively for small objects (right rule: every
                      clause holds; each deliberately wrong adjustment rule breaks one)
  * DebugInfo_Trace   every recorded link job replayed through the model; the real symbol / section /
                      debug tables must be the model's after every phase and every clause must hold
  * DwarfLine_MC      the DWARF 2 line-number machine: encode(table) decodes to the table, all small tables
  * DwarfLine_Eval    ppci's line-program opcodes and (when it produces anything) its .debug_line output
                      decoded by that machine
"""
import io

from harness import core
from harness import dbginfo_rec as R
from harness import watchdog

tlcmod = core.tlcmod

CLAUSES = ["TypeOK", "FuncSymbolOK", "FuncRangeOK", "LocationOK", "OrderOK", "LinesOK", "VariableOK", "LocalsOK",
           "PlacedOK", "NoLinkError"]
MC_CFG = "CONSTANT MaxShape = %d\nINIT Init\nNEXT Next\nCHECK_DEADLOCK FALSE\nALIAS Shown\n" + "".join(
    "INVARIANT %s\n" % x for x in CLAUSES + ["ShrunkOK"])
TRACE_CFG = "INIT Init\nNEXT Next\nCHECK_DEADLOCK FALSE\nALIAS ShownT\n" + "".join(
    "INVARIANT %s\n" % x for x in CLAUSES + ["NotRejected", "FollowsSyms", "FollowsSecs", "FollowsDbg", "Completes",
                                             "SaveLoadOK", "LengthBitsOK"])
MC_ACTIONS = ["MMerge1", "MMerge2", "MLayout", "MRelax", "MFinish"]
WRONG_RULES = {"identity_ids", "no_section_offset", "unaligned_offset", "relax_skips_local"}

WHAT = {
    "FuncSymbolOK": "a DebugFunction's begin/end does not resolve to the function's own symbol / a defined symbol",
    "FuncRangeOK": "a DebugFunction's [begin, end) is not the extent of the function's instructions",
    "LocationOK": "a DebugLocation does not resolve to the start of an instruction of its function",
    "OrderOK": "debug locations of one function are no longer in address order",
    "LinesOK": "source lines decrease inside a basic block whose lines the front-end emitted in order",
    "VariableOK": "a global DebugVariable does not resolve to its own symbol on its storage",
    "LocalsOK": "a local variable's frame offset lies outside the frame",
    "PlacedOK": "sections of an image overlap or lost their alignment",
    "NoLinkError": "the link is not one the linker may complete (multiple definition, debug address without symbol, "
                   "hole that is not an instruction tail, symbol inside a hole)",
    "NotRejected": "the recorded linker phases are not a run of the specification",
    "FollowsSyms": "the linker's symbol table differs from the specification's after this phase",
    "FollowsSecs": "the linker's sections (size, alignment, address) differ from the specification's after this phase",
    "FollowsDbg": "the linker's debug tables differ from the specification's (symbol id adjustment) after this phase",
    "Completes": "compile or link with debug=True raised an exception / did not return an object",
    "SaveLoadOK": "debug information changed by object save / load",
    "LengthBitsOK": "the instruction extents do not match the instruction length bits of the linked code",
    "TypeOK": "ill-formed tables",
}

LAYOUTS = {
    "nolayout": "",
    "onemem": "MEMORY flash LOCATION=0x100 SIZE=0x20000 { SECTION(code) ALIGN(8) DEFINESYMBOL(edata) SECTION(data) }",
    "twomem": "MEMORY flash LOCATION=0x40 SIZE=0x20000 { SECTION(code) }\n"
              "MEMORY ram LOCATION=0x40000 SIZE=0x20000 { DEFINESYMBOL(sdata) SECTION(data) DEFINESYMBOL(edata) }",
    "datafirst": "MEMORY ram LOCATION=0x1000 SIZE=0x20000 { SECTION(data) ALIGN(16) SECTION(code) }",
}

C_UNITS = {
    "loop": """
int g1 = 3;
int arr[4];
int add(int a, int b);
int loop(int n) {
  int s = 0;
  int i;
  for (i = 0; i < n; i++) {
    s += add(i, g1);
    if (s > 100)
      break;
  }
  arr[1] = s;
  return s;
}
int twice(int x) { return loop(x) + loop(x + 1); }
""",
    "add": """
int g2 = 4;
char tag = 7;
int add(int a, int b) {
  int s = a + b;
  if (s > g2) s = s - 1;
  return s;
}
static int helper(int v) { while (v > 10) { v = v - 3; } return v; }
int clamp(int v) { if (v < 0) return 0; return helper(v); }
""",
    "switchy": """
int tab[3] = {1, 2, 3};
int pick(int k) {
  int r = 0;
  switch (k) {
    case 0: r = tab[0]; break;
    case 1: r = tab[1];
    case 2: r += tab[2]; break;
    default: r = -1;
  }
  do { r = r + k; k--; } while (k > 0);
  return r;
}
void store(int *p, int v) { *p = v; }
""",
    "single": """
int only(int a) { return a * 3 + 1; }
""",
    "longjump": """
int big(int n) {
  int s = 0;
  while (n > 0) {
    s += n; s ^= 5; s += n * 3; s -= 7; s += n << 2; s ^= n; s += 11; s -= n >> 1;
    s += n; s ^= 9; s += n * 5; s -= 1; s += n << 1; s ^= n; s += 13; s -= n >> 2;
    if (s > 1000) s = s - 1000;
    n--;
  }
  return s;
}
""",
}

C3_UNITS = {
    "c3vars": """
module main;
var int G;
var int[3] arr;
function int add(int a, int b) {
  var int s;
  s = a + b;
  return s;
}
function int loop(int n) {
  var int s;
  var int i;
  s = 0;
  for (i = 0; i < n; i += 1) {
    s += add(i, G);
  }
  arr[1] = s;
  return s;
}
""",
    "c3second": """
module second;
var int counter;
var byte flag;
function void bump(int d) {
  var int old;
  old = counter;
  while (d > 0) {
    counter = counter + 1;
    d = d - 1;
  }
  if (old > counter) { flag = 1; }
}
""",
}


def stub_unit(prog):
    """C definitions of the external functions of an absprog program (so that the link is complete)."""
    from harness.absprog import CNAME

    out = []
    for x in prog["externs"]:
        ps = ", ".join("%s a%d" % (CNAME[a], n) for n, a in enumerate(x["args"])) or "void"
        out.append("%s %s(%s) { return %s; }" % (CNAME[x["ret"]], x["n"], ps, "a0" if x["args"] else "1"))
    out.append("int stub_marker = 1;")
    return "\n".join(out) + "\n"


def lenbits(out, march):
    if out is None or not march.startswith("riscv"):
        return {"has": False, "sec": "", "lo": []}
    try:
        sec = [s for s in out.sections if s.name == "code"][0]
        return {"has": True, "sec": "code", "lo": [b & 3 for b in bytes(sec.data)]}
    except Exception:
        return {"has": False, "sec": "", "lo": []}


def make_job(key, march, units, layout_name, partial=False, runtime=False):
    """units = [(lang, source)] -> link job record (never raises)."""
    job = {"key": key, "objs": [], "layout": {"has": False, "mems": []}, "steps": [], "crash": "", "rt": [],
           "lenbits": {"has": False, "sec": "", "lo": []}, "march": march}
    objs = []
    try:
        for lang, src in units:
            obj, rec = watchdog.limited(lambda lang=lang, src=src: R.compile_src(lang, src, march), 120, "compile")
            objs.append(obj)
            job["objs"].append(R.project_object(obj, rec))
    except Exception as e:
        job["crash"] = "compile:" + type(e).__name__
        return job, None
    if runtime:
        # the target's runtime library (no debug information) is linked behind the units, as api.link does
        try:
            from ppci.api import get_arch

            job["objs"].append(R.project_object(get_arch(march).runtime, R.CompileRec()))
        except Exception as e:
            job["crash"] = "runtime:" + type(e).__name__
            return job, None
    text = LAYOUTS[layout_name]
    try:
        job["layout"] = R.project_layout(text)
    except Exception as e:
        job["crash"] = "layout:" + type(e).__name__
        return job, None
    try:
        steps, out, exc = watchdog.limited(lambda: R.link_rec(objs, text, partial=partial, use_runtime=runtime), 120, "link")
    except Exception as e:
        steps, out, exc = [], None, "link:" + type(e).__name__
    job["steps"] = steps
    job["crash"] = exc
    job["lenbits"] = lenbits(out, march)
    job["rt"] = [R.save_load(objs[0])] + ([R.save_load(out)] if out is not None else [])
    return job, out


def collect(ctx):
    from harness import absprog

    rng = ctx.rng
    thorough = ctx.tier == "thorough"
    jobs = []
    outs = []

    def add(key, march, units, lay, partial=False, runtime=False):
        job, out = make_job("X23:" + key, march, units, lay, partial, runtime)
        jobs.append(job)
        outs.append(out)

    marches = ["x86_64", "arm", "riscv", "riscv:rvc"]
    C = C_UNITS
    for m in marches:
        lays = list(LAYOUTS) if (thorough or m == "riscv:rvc") else ["nolayout", "onemem"]
        for lay in lays:
            add("hand:%s:%s:loop+add" % (m, lay), m, [("c", C["loop"]), ("c", C["add"])], lay)
        add("hand:%s:%s:add+loop+switchy" % (m, "twomem"), m, [("c", C["add"]), ("c", C["loop"]), ("c", C["switchy"])], "twomem")
        add("hand:%s:%s:single" % (m, "nolayout"), m, [("c", C["single"])], "nolayout")
        add("hand:%s:%s:longjump+add+loop" % (m, "onemem"), m, [("c", C["longjump"]), ("c", C["add"]), ("c", C["loop"])], "onemem")
        add("hand:%s:partial:loop+add" % m, m, [("c", C["loop"]), ("c", C["add"])], "nolayout", partial=True)
        add("c3:%s:onemem:c3vars+c3second" % m, m, [("c3", C3_UNITS["c3vars"]), ("c3", C3_UNITS["c3second"])], "onemem")
        add("c3:%s:nolayout:c3second+c3vars" % m, m, [("c3", C3_UNITS["c3second"]), ("c3", C3_UNITS["c3vars"])], "nolayout")
        add("mixed:%s:twomem:c3vars+add+switchy" % m, m, [("c3", C3_UNITS["c3vars"]), ("c", C["add"]), ("c", C["switchy"])], "twomem")
    for m in (["msp430", "avr"] if thorough else ["msp430"]):   # frame pointer at the bottom of the frame
        # (partial link: these targets call runtime routines that only a full link with the runtime resolves)
        add("c3:%s:partial:c3vars+c3second" % m, m, [("c3", C3_UNITS["c3vars"]), ("c3", C3_UNITS["c3second"])], "nolayout", partial=True)
    # generated programs (harness/absprog.py), each linked with a unit that defines its externals
    nprog = 40 if thorough else 8
    for n in range(nprog):
        prng = __import__("random").Random("%s/x23/%d" % (ctx.seed, n))
        # 64-bit integers exist on x86_64 only: every second program keeps to 8..32 bits and goes to all targets
        small = n % 2 == 1
        gen = absprog.Gen(prng, max_funcs=3, max_stmts=7 if thorough else 5, max_depth=3,
                          types=[t for t in absprog.TYPES if absprog.BITS[t] <= 32] if small else None)
        try:
            prog = gen.program()
            src = absprog.render_c(prog)
            stubs = stub_unit(prog)
        except Exception as e:
            ctx.note("absprog failed: %s" % type(e).__name__)
            continue
        for m in (["x86_64"] if not small else marches if thorough else ["riscv:rvc", marches[(n // 2) % 3]]):
            lay = list(LAYOUTS)[(n + len(m)) % len(LAYOUTS)]
            order = [("c", src), ("c", stubs)] if n % 4 < 2 else [("c", stubs), ("c", src)]
            add("gen%d:%s:%s:%s" % (n, m, lay, "prog+stubs" if n % 4 < 2 else "stubs+prog"), m, order, lay,
                runtime=(m != "x86_64"))
    return jobs, outs


def judgeable(job):
    """A generated program the front-end or back-end refuses is no debug-info case (counted, not judged)."""
    return not (job["key"].startswith("X23:gen") and job["crash"].startswith("compile:"))


class Engine:
    LEVEL = "model_checking"

    def run(self, ctx):
        ctx.rule("M: DebugInfo_MC = two objects x (1..2 functions from %d instruction-size shapes) x 3 layouts x every "
                 "non-empty subset of shrinkable instructions, rule 'right' (all clauses hold) and four wrong adjustment "
                 "rules on a fixed configuration (each must break a clause).  T: link jobs = hand C units (loops, "
                 "switch, statics, globals; 1..3 units), c3 units (global + local variables), mixed, generated "
                 "absprog programs + a unit defining their externals; targets x86_64, arm, riscv, riscv:rvc "
                 "(relaxation), msp430 (frame pointer at frame bottom); no layout / one memory / two memories / data "
                 "first / partial link; every linker phase of every job is one TLC state.  distinct = distinct job keys"
                 % (3 if ctx.tier == "thorough" else 2))
        ctx.assume("harness/dbginfo_rec.py records faithfully: item extents from BinaryOutputStream section sizes, the "
                   "function / IR block / front-end rank of a DebugLocation by object identity, frame size from the Frame")
        ctx.assume("items that put bytes into a function's section while the function is generated are its "
                   "instructions (literal pools and alignment padding inside a function count as its extent)")
        if ctx.only is None:
            self.model_check(ctx)
        elif ctx.only["key"].startswith("X23:dwarf:") and ":emit_dwarf:" not in ctx.only["key"]:
            run_dwarf(ctx)
            return
        jobs, outs = collect(ctx)
        pick = [(j["key"], o) for j, o in zip(jobs, outs) if o is not None]
        if ctx.only is None:
            # emit_dwarf on a few linked objects per target (it adds a section to the object: after all recording)
            seen, some = set(), []
            for key, o in pick:
                m = key.split(":")[2]
                if m not in seen:
                    seen.add(m)
                    some.append((key, o))
            run_dwarf(ctx, some)
        elif ":emit_dwarf:" in ctx.only["key"]:
            run_dwarf(ctx, [(k, o) for k, o in pick if k.replace("X23:", "X23:dwarf:emit_dwarf:", 1) == ctx.only["key"]])
            return
        if ctx.only is not None:
            jobs = [j for j in jobs if j["key"] == ctx.only["key"]]
        skipped = [j for j in jobs if not judgeable(j)]
        jobs = [j for j in jobs if judgeable(j)]
        ctx.cov["generated_programs_refused_by_compiler"] = len(skipped)
        ctx.cov["jobs_with_relaxation"] = sum(1 for j in jobs if any(s["ph"] == "relax" for s in j["steps"]))
        ctx.cov["debug_locations_judged"] = sum(len(o["locs"]) for j in jobs for o in j["objs"])
        ctx.cov["debug_functions_judged"] = sum(len(o["funcs"]) for j in jobs for o in j["objs"])
        ctx.cov["debug_variables_judged"] = sum(len(o["vars"]) + sum(len(f[6]) for f in o["funcs"]) for j in jobs for o in j["objs"])
        for j in jobs:
            ctx.count(j["key"])
        for j in jobs[:: max(1, len(jobs) // 4)][:4]:
            ctx.sample({"key": j["key"], "phases": [s["ph"] for s in j["steps"]],
                        "holes": sum(len(h[1]) for s in j["steps"] for h in s["holes"]),
                        "locations": sum(len(o["locs"]) for o in j["objs"])})
        core.eval_records(ctx, "DebugInfo_Trace", TRACE_CFG, jobs, keyfn=lambda j: j["key"],
                          whatfn=lambda j, e: "%s (phase %s of %s)" % (
                              WHAT.get(e.name, e.name), _phase(j, e), [s["ph"] for s in j["steps"]] or j["crash"]),
                          label="link jobs", workers=8, coverage=False)

    def model_check(self, ctx):
        res = ctx.tlc("DebugInfo_MC", MC_CFG % (3 if ctx.tier == "thorough" else 2), label="linker phases, small objects",
                      continue_=True, workers=8)
        broken = set()
        for e in res.errors:
            r = e.last.get("rule")
            if e.kind != "invariant" or r not in WRONG_RULES:
                raise tlcmod.MachineryError("DebugInfo_MC: %s under rule %r\n%s" % (e, r, e.text[:1500]))
            broken.add(r)
        if broken != WRONG_RULES:
            raise tlcmod.MachineryError("DebugInfo_MC: wrong rules not detected: %s" % sorted(WRONG_RULES - broken))
        acts = tlcmod.action_coverage(res)
        missing = [a for a in MC_ACTIONS if not acts.get("DebugInfo_MC." + a)]
        if missing:
            raise tlcmod.MachineryError("DebugInfo_MC does not take the actions %s" % missing)
        ctx.cov["mc_wrong_rules_rejected"] = sorted(broken)


def _phase(job, e):
    p = e.last.get("pos")
    if isinstance(p, int) and 1 <= p <= len(job["steps"]):
        return "%d:%s" % (p, job["steps"][p - 1]["ph"])
    return "0"


DW_MC_CFG = ("CONSTANT MaxRows = 2\nCONSTANT Big = %s\nINIT Init\nNEXT Next\nCHECK_DEADLOCK FALSE\nALIAS Shown\n"
             "INVARIANT DTypeOK\nINVARIANT Progress\nINVARIANT DecodesToTable\nINVARIANT PrefixOK\n")
DW_EVAL_CFG = ("INIT Init\nNEXT Next\nCHECK_DEADLOCK FALSE\nALIAS ShownE\nINVARIANT Produces\nINVARIANT PrologueOK\n"
               "INVARIANT Halts\nINVARIANT RawAgrees\nINVARIANT EmitAgrees\n")
DW_ACTIONS = ("OpSpecial OpCopy OpAdvancePc OpAdvanceLine OpSetFile OpSetColumn OpNegateStmt OpSetBasicBlock OpConstAddPc "
              "OpFixedAdvancePc OpUnknownStandard OpEndSequence OpSetAddress OpDefineFile OpUnknownExtended "
              "OpMalformedExtended OpBadSetAddress Halt").split()
DW_WHAT = {
    "Produces": "ppci.format.dwarf raised an exception / wrote no line table for an object with debug locations",
    "PrologueOK": "the statement program prologue of debug_line is not a DWARF 2 prologue",
    "Halts": "the line-number program is malformed (the DWARF machine cannot run it to its end)",
    "RawAgrees": "encode() bytes decode to another matrix than the one ppci's execute() methods build",
    "EmitAgrees": "debug_line does not decode to the (address, line) table of the object's debug locations",
}
# prologue values for programs without prologue: DWARF 3 numbering (ppci has opcodes 10..12), no special opcodes used
RAW_HP = {"min_inst": 1, "default_is_stmt": False, "line_base": -5, "line_range": 14, "opcode_base": 13,
          "std_len": [0, 1, 1, 1, 1, 0, 0, 0, 1, 0, 0, 1]}


def dwarf_records(ctx):
    """ppci's line-program opcode classes, and emit_dwarf on linked objects."""
    import contextlib

    rng = ctx.rng
    thorough = ctx.tier == "thorough"
    recs = []

    def raw(key, make):
        r = {"key": "X23:dwarf:" + key, "mode": "raw", "ok": True, "exc": "", "bytes": [], "hp": RAW_HP, "rows": [], "pairs": []}
        try:
            from ppci.format.dwarf import line as L

            ops = make(L)
            with contextlib.redirect_stdout(io.StringIO()):
                data = L.LineNumberProgram(ops).encode()
                c = L.ExecutionContext(False)
                for op in ops:
                    op.execute(c)
            r["bytes"] = list(data)
            r["rows"] = [[int(a), int(f), int(ln)] for a, f, ln in c._table]
            if any(x < 0 or x >= 2 ** 28 for row in r["rows"] for x in row[:2]):
                raise OverflowError("outside the modelled range")
        except Exception as e:
            r["ok"], r["exc"], r["bytes"], r["rows"] = False, type(e).__name__, [], []
        recs.append(r)

    # every opcode class on its own (followed by Copy so that its effect shows in a row)
    singles = {
        "Copy": lambda L: [L.Copy()],
        "AdvancePc": lambda L: [L.AdvancePc(5), L.Copy()],
        "AdvanceLine": lambda L: [L.AdvanceLine(7), L.Copy()],
        "AdvanceLine-negative": lambda L: [L.AdvanceLine(300), L.Copy(), L.AdvanceLine(-70), L.Copy()],
        "SetFile": lambda L: [L.SetFile(3), L.Copy()],
        "SetColumn": lambda L: [L.SetColumn(9), L.Copy()],
        "NegateStmt": lambda L: [L.NegateStmt(), L.Copy()],
        "SetBasicBlock": lambda L: [L.SetBasicBlock(), L.Copy()],
        "SetPrologueEnd": lambda L: [L.SetPrologueEnd(), L.Copy()],
        "SetEpilogueBegin": lambda L: [L.SetEpilogueBegin(), L.Copy()],
        "SetIsa": lambda L: [L.SetIsa(2), L.Copy()],
        "empty-program": lambda L: [],
    }
    for name, mk in singles.items():
        raw("opcode:" + name, mk)
    for n in range(300 if thorough else 60):
        prng = __import__("random").Random("%s/x23dw/%d" % (ctx.seed, n))
        spec = []
        for _ in range(prng.randrange(1, 14)):
            k = prng.choice(["copy", "pc", "line", "file", "col", "neg", "isa", "copy"])
            v = prng.choice([0, 1, 2, 63, 64, 127, 128, 129, 300, 16383, 16384, prng.randrange(0, 100000)])
            spec.append((k, v, prng.choice([1, 1, -1])))

        def mk(L, spec=spec):
            out, line = [], 1
            for k, v, sg in spec:
                if k == "copy":
                    out.append(L.Copy())
                elif k == "pc":
                    out.append(L.AdvancePc(v))
                elif k == "line":
                    d = v % 9000 if sg > 0 else -min(v % 9000, line - 1)
                    line += d
                    out.append(L.AdvanceLine(d))
                elif k == "file":
                    out.append(L.SetFile(v % 5000 + 1))
                elif k == "col":
                    out.append(L.SetColumn(v))
                elif k == "neg":
                    out.append(L.NegateStmt())
                else:
                    out.append(L.SetIsa(v % 200))
            return out + [L.Copy()]
        raw("program:%d" % n, mk)
    return recs


def emit_records(outs_by_key):
    """emit_dwarf(debug_info, obj) on linked objects -> the debug_line section it adds."""
    recs = []
    for key, out in outs_by_key:
        r = {"key": key.replace("X23:", "X23:dwarf:emit_dwarf:", 1), "mode": "emit", "ok": True, "exc": "", "bytes": [],
             "hp": RAW_HP, "rows": [], "pairs": []}
        try:
            r["pairs"] = sorted([int(out.get_symbol_id_value(l.address.symbol_id)), int(l.loc.row)]
                                for l in out.debug_info.locations)
        except Exception:
            continue            # the link job itself is judged (and reported) by DebugInfo_Trace
        if any(a >= 2 ** 28 for a, _ in r["pairs"]):
            continue
        try:
            import contextlib
            from ppci.format.dwarf.writer import emit_dwarf

            names = {s.name for s in out.sections}
            with contextlib.redirect_stdout(io.StringIO()):
                emit_dwarf(out.debug_info, out)
            new = [s for s in out.sections if s.name not in names and "debug_line" in s.name]
            r["bytes"] = list(bytes(new[0].data)) if new else []
        except Exception as e:
            r["ok"], r["exc"] = False, type(e).__name__
        recs.append(r)
    return recs


def run_dwarf(ctx, outs_by_key=()):
    if ctx.only is None:
        res = ctx.tlc("DwarfLine_MC", DW_MC_CFG % ("TRUE" if ctx.tier == "thorough" else "FALSE"), label="DWARF 2 line machine: round trip",
                      continue_=True, workers=8)
        for e in res.errors:
            raise tlcmod.MachineryError("DwarfLine_MC: %s\n%s" % (e, e.text[:1500]))
        acts = tlcmod.action_coverage(res)
        missing = [a for a in DW_ACTIONS if not acts.get("DwarfLine_MC.M" + a)]
        if missing:
            raise tlcmod.MachineryError("DwarfLine_MC does not take the actions %s" % missing)
    recs = dwarf_records(ctx) + emit_records(outs_by_key)
    if ctx.only is not None:
        recs = [r for r in recs if r["key"] == ctx.only["key"]]
    for r in recs:
        ctx.count(r["key"])
    ctx.cov["dwarf_line_programs_decoded"] = sum(1 for r in recs if r["ok"])
    core.eval_records(ctx, "DwarfLine_Eval", DW_EVAL_CFG, recs, keyfn=lambda r: r["key"],
                      whatfn=lambda r, e: "%s (%s)" % (DW_WHAT.get(e.name, e.name), r["exc"] or "%d bytes" % len(r["bytes"])),
                      label="ppci dwarf output", workers=4, coverage=False)
