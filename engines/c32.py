"""C32 — generated LR parsers accept exactly their grammar's language (idioms M + E + T).

LR.tla defines grammars, Derives (span fixpoint), derivation trees, nullable/FIRST, the canonical
LR(1) construction and the shift-reduce machine.  This driver only (a) enumerates grammars, (b) runs
ppci (calculate_first_sets, LrParserBuilder, LrParser.parse, EarleyParser) and records what it did,
(c) maps TLC's verdicts back to (grammar, word).  It contains no parser oracle.
"""
import itertools
import os

from harness import core

TERMS = ("a", "b")
NONTERMS = ("S", "A")
SYMS = TERMS + NONTERMS
MAXLEN = 5
WORKERS = 8          # the machine is shared

MC_CFG = """CONSTANT MaxProds = %d
CONSTANT MaxRhs = %d
CONSTANT MaxLen = %d
CONSTANT MaxSteps = 60
INIT Init
NEXT Next
CHECK_DEADLOCK FALSE
INVARIANT LawGrammar
INVARIANT LawNullable
INVARIANT LawFirstComplete
INVARIANT LawFirstSound
INVARIANT LawLang
INVARIANT LawTables
INVARIANT NeverBroken
INVARIANT InvStackShape
INVARIANT InvValsDerive
INVARIANT InvPrefix
INVARIANT InvViable
INVARIANT InvAcceptAtEnd
INVARIANT InvTraceIsTree
INVARIANT Sound
INVARIANT Exact
"""
MC_ACTIONS = ("Build", "Start", "Shift", "Reduce", "Accept", "Error")

# one INVARIANT per clause; TLC reports the first violated one per state, so the order is the
# diagnostic priority
CLAUSES = ["FirstSetsOk", "LrClean", "LrSound", "LrTree", "LrComplete", "EarleyOk",
           "TablesWellFormed", "MachineStackShape", "MachineViable", "MachineAcceptAtEnd",
           "TablesSound", "TablesExact", "DriverAgrees"]
SPEC_CHECKS = ["WordsInRange", "LangAgrees"]      # consistency of the oracle itself: failure = machinery
TRACE_CFG = "INIT Init\nNEXT Next\nCHECK_DEADLOCK FALSE\n" + "".join("INVARIANT %s\n" % c for c in SPEC_CHECKS + CLAUSES)
WHAT = {
    "FirstSetsOk": "calculate_first_sets differs from FIRST (least fixpoint; nullable prefixes count)",
    "LrClean": "LrParser.parse (grammar without shift/reduce conflict) neither returned nor raised ParserException",
    "LrSound": "generated parser accepted a token sequence the grammar does not derive",
    "LrTree": "value returned by parse is not the semantic value of a derivation of the input",
    "LrComplete": "parser generated without reported conflict (grammar has no shift/reduce conflict) rejects a derivable token sequence",
    "EarleyOk": "EarleyParser verdict differs from derivability",
    "TablesWellFormed": "action/goto tables (grammar without shift/reduce conflict) send the shift-reduce machine into an impossible configuration or an endless run",
    "MachineStackShape": "machine stack shape broken",
    "MachineViable": "stack of the machine running ppci's tables is not a viable prefix",
    "MachineAcceptAtEnd": "ppci's tables accept before the end of input / with a wrong tree",
    "TablesSound": "ppci's tables accept an underivable word",
    "TablesExact": "ppci's tables (no shift/reduce conflict in the grammar) reject a derivable word",
    "DriverAgrees": "LrParser.parse did not do what the shift-reduce machine does with the same tables",
}


# ---------------------------------------------------------------------------------------------
# grammars
def gkey(prods):
    return "|".join("%s>%s" % (l, "".join(r)) for l, r in prods)


def parse_gkey(s):
    return tuple((p.split(">")[0], tuple(p.split(">")[1])) for p in s.split("|"))


def all_rhs(maxrhs):
    return [r for n in range(maxrhs + 1) for r in itertools.product(SYMS, repeat=n)]


# Symbols are single characters: upper case = non-terminal (start symbol S), lower case = terminal.
def nts_of(prods):
    return ["S"] + sorted({l for l, _ in prods} - {"S"})


def terms_of(prods):
    return sorted({x for _, r in prods for x in r if x.islower()} | {"a", "b"})


def valid(prods):
    lhs = {l for l, _ in prods}
    used = {x for _, r in prods for x in r if x.isupper()}
    if "S" not in lhs or not used <= lhs:
        return False
    reach, ch = {"S"}, True
    while ch:
        ch = False
        for l, r in prods:
            if l in reach:
                for x in r:
                    if x.isupper() and x not in reach:
                        reach.add(x)
                        ch = True
    return lhs <= reach


def canon(prods):
    """Canonical representative: sorted production list (S first); for grammars over {a, b} the
    smaller of the grammar and its image under swapping the terminals a <-> b."""
    order = lambda ps: tuple(sorted(set(ps), key=lambda p: (p[0] != "S", p[0], len(p[1]), p[1])))
    g1 = order(prods)
    if terms_of(prods) != ["a", "b"]:
        return g1
    sw = {"a": "b", "b": "a"}
    g2 = order([(l, tuple(sw.get(x, x) for x in r)) for l, r in prods])
    return min(g1, g2, key=gkey)


def word_len(prods, deep=False):
    """Longest word tried for a grammar: 5 over two terminals (63 words), 4 over three or more
    (121 / 341 words); deep: 5 over three terminals (364 words)."""
    n = len(terms_of(prods))
    if n <= 2:
        return 5
    return 5 if (deep and n == 3) else 4


def tags(prods):
    """Syntactic class of the grammar (used only to name violation keys)."""
    nul = set()
    ch = True
    while ch:
        ch = False
        for l, r in prods:
            if l not in nul and all(x in nul for x in r):
                nul.add(l)
                ch = True
    eps = int(bool(nul))                                              # some non-terminal derives the empty string
    nin = int(any(len(r) >= 2 and nul & set(r) for _, r in prods))    # ... and occurs next to another symbol
    srec = int(any("S" in r for _, r in prods))                       # the start symbol occurs in a right-hand side
    return "eps=%d,nin=%d,srec=%d" % (eps, nin, srec)


SEEDS = [
    "S>Ab|A>|A>a",            # DESIGN suspect: epsilon alternative in front of a terminal
    "S>AAb|A>|A>a",           # two nullable symbols in front
    "S>aAb|A>|A>SA",
    "S>a|S>bSA|A>",           # nullable symbol behind the recursion
    "S>AA|A>",
    "S>aS|S>b",               # right recursion through the start symbol
    "S>Sa|S>b",               # left recursion
    "S>|S>Sa",                # test_eps_sequence
    "S>aSb|S>",
    "S>a|S>aSa",              # not LR(1): shift/reduce resolved
    "S>SS|S>a",               # ambiguous
    "S>A|S>b|A>b",            # reduce/reduce
    "S>AbA|A>aS|S>",
    "S>Aa|S>b|A>|A>AbS",
    "S>AAA|A>a|A>",
    "S>ASb|S>a|A>|A>b",
]


# Directed family: rules built around optional (nullable) parts with NON-EMPTY first sets that stand
# between a non-terminal and a terminal, so that the look-ahead of the item before them is
# FIRST(optional parts) + the terminal: X -> N O t, X -> N O P t, X -> t N O u, lists with optional
# separators / trailers, nested optionals.  3 (some 2 or 4) non-terminals, 3 terminals.
CORE = [
    "S>NOc|N>a|O>b|O>",              # call -> name opt_args ';'
    "S>NOa|N>a|O>bc|O>",             # opt_args -> '(' ')' | eps
    "S>NOPc|N>a|O>b|O>|P>a|P>",      # two optional parts in front of the terminal
    "S>aNOb|N>c|O>b|O>",             # X -> t N O u
    "S>SOc|S>N|N>a|O>b|O>",          # list with optional part before the terminator
    "S>SAb|S>a|A>a|A>",              # the same with two non-terminals
    "S>NOc|N>a|O>Pb|O>|P>c|P>",      # nested optional
    "S>LO|L>LcN|L>N|N>a|O>b|O>",     # list with optional trailer (4 non-terminals)
    "S>SON|S>N|N>a|O>b|O>",          # optional separator
    "S>ONc|N>a|O>b|O>",              # optional prefix
    "S>NcO|N>a|O>b|O>",              # optional suffix
    "S>NOc|S>NPb|N>a|O>b|O>|P>c|P>",
    # sibling productions sharing a prefix "N O" (O nullable) with different continuations: one item
    # set holds several items with the dot before N, the same look-ahead and the same next-next symbol
    "S>NOa|S>NOc|N>a|O>b|O>",
    "S>NOa|S>NOb|S>NOc|N>a|O>",      # three siblings, O derives only the empty string
    "S>NOPa|S>NOPc|N>b|O>|P>b|P>",   # nullable chain behind the shared prefix
    "S>bNOa|S>bNOc|N>a|O>b|O>",      # right-hand sides of length 4
    "S>NOa|S>NOPc|N>a|O>b|O>|P>",
    "S>aL|L>NOa|L>NOc|N>b|O>b|O>",   # the siblings below the start symbol
    "S>NOa|S>NOcS|N>a|O>b|O>",
]


def directed():
    out = []
    n_vars = [["N>a"], ["N>ab"], ["N>a", "N>b"], ["N>c"]]
    o_vars = [["O>b", "O>"], ["O>bc", "O>"], ["O>b", "O>c", "O>"], ["O>Pb", "O>", "P>c", "P>"], ["O>Ob", "O>"]]
    p_vars = [["P>c", "P>"], ["P>a", "P>"], ["P>cb", "P>"]]
    templates = ["S>NOt", "S>NOPt", "S>tNOu", "S>SOt|S>N", "S>SON|S>N", "S>NO", "S>ONt", "S>NtO",
                 "S>LO|L>LtN|L>N", "S>NOt|S>NPu", "S>tON", "S>NOOt", "S>SOt|S>a", "S>tSOu|S>N",
                 # siblings sharing the prefix "N O ..." with different continuations
                 "S>NOt|S>NOu", "S>NOt|S>NOu|S>NOv", "S>NOPt|S>NOPu", "S>vNOt|S>vNOu", "S>NOt|S>NOPu",
                 "S>vL|L>NOt|L>NOu", "S>NOtS|S>NOu", "S>NOOt|S>NOOu"]
    for tpl in templates:
        for t in "abc":
            for u in ("abc" if "u" in tpl else "a"):
                v = ([x for x in "abc" if x not in (t, u)] or ["a"])[0]
                top = tpl.replace("t", t).replace("u", u).replace("v", v).split("|")
                for nv in n_vars:
                    for ov in o_vars:
                        defines_p = any(x.startswith("P>") for x in ov)
                        for pv in (p_vars if ("P" in tpl and not defines_p) else [[]]):
                            ps = top + (nv if "N" in tpl else []) + ov + pv
                            out.append(parse_gkey("|".join(ps)))
    return out


def random3(rng, want):
    """Seeded random grammars with three non-terminals S, A, B, up to 5 productions, 2-3 terminals."""
    out, tries = [], 0
    while len(out) < want and tries < want * 60:
        tries += 1
        terms = "abc" if rng.random() < 0.35 else "ab"
        syms = terms + "SAB"
        n = rng.choice((3, 4, 4, 5, 5))
        lhss = ["S", "A", "B"] + [rng.choice("SAB") for _ in range(n - 3)]
        ps = []
        for l in lhss:
            k = rng.choices((0, 1, 2, 3), weights=(3, 4, 6, 5))[0]
            ps.append((l, tuple(rng.choice(syms) for _ in range(k))))
        if len(set(ps)) == n and valid(ps):
            out.append(tuple(ps))
    return out


def worklist(ctx):
    rng = ctx.rng
    thorough = ctx.tier == "thorough"
    seen, out = set(), []

    def add(prods, why):
        if not valid(prods):
            return
        g = canon(prods)
        k = gkey(g)
        if k not in seen:
            seen.add(k)
            out.append((g, why))

    for s in SEEDS:
        add(parse_gkey(s), "seed")
    for s in CORE:
        add(parse_gkey(s), "directed-core")
    fam = directed()
    if not thorough:
        fam = rng.sample(fam, 90)
    for g in fam:
        add(g, "directed")
    for g in random3(rng, 2000 if thorough else 120):
        add(g, "rnd3nt")
    # exhaustive part
    small = [(l, r) for l in NONTERMS for r in all_rhs(2)]
    full = [(l, r) for l in NONTERMS for r in all_rhs(3)]
    for n in (1, 2):
        for ps in itertools.combinations(small, n):
            add(ps, "all<=2x2")
    for p in full:
        add((p,), "all1")
    if thorough:
        for ps in itertools.combinations(full, 2):
            add(ps, "all2x3")
        for ps in itertools.combinations(small, 3):
            add(ps, "all3x2")
    # seeded part: right-hand side lengths weighted towards short ones so that epsilon and
    # unit productions are frequent
    by_len = {n: [r for r in all_rhs(3) if len(r) == n] for n in range(4)}

    def rnd_prod(lhs):
        n = rng.choices((0, 1, 2, 3), weights=(3, 4, 6, 5))[0]
        return (lhs, rng.choice(by_len[n]))

    budget = {2: 1000, 3: 2500, 4: 2500} if thorough else {2: 120, 3: 220, 4: 300}
    for n, want in budget.items():
        got = tries = 0
        while got < want and tries < want * 40:
            tries += 1
            na = rng.randrange(0, n)          # productions of A
            ps = [rnd_prod("S") for _ in range(n - na)] + [rnd_prod("A") for _ in range(na)]
            if len(set(ps)) != n:
                continue
            before = len(out)
            add(tuple(ps), "rnd%d" % n)
            got += len(out) - before
    return out


def words(terms, maxlen):
    return [w for n in range(maxlen + 1) for w in itertools.product(terms, repeat=n)]


# ---------------------------------------------------------------------------------------------
# driving ppci
class _Fuel(Exception):
    pass


def exc_name(e):
    return type(e).__name__


def drive(prods, maxlen):
    """Run ppci on one grammar and all words over its terminals up to maxlen; return the record TLC judges."""
    terms = terms_of(prods)
    wordlist = words(terms, maxlen)
    from ppci.lang.tools.grammar import Grammar
    from ppci.lang.tools import lr as lrmod
    from ppci.lang.tools.common import ParserException, ParserGenerationException
    from ppci.lang.tools.earley import EarleyParser
    from ppci.lang.common import Token, SourceLocation
    from ppci.common import ParseError

    loc = SourceLocation("", 1, 1, 1)
    events = []

    def enc(v):
        if isinstance(v, Token):
            return {"tok": v.typ, "at": v.val}
        if isinstance(v, dict):
            return v
        return {"junk": type(v).__name__}

    def action(p):
        def f(*args):
            events.append(p)
            if len(events) > 150:
                raise _Fuel()
            return {"p": p, "kids": [enc(a) for a in args]}
        return f

    class Lexer:
        def __init__(self, w, log):
            self.w, self.n, self.log = w, 0, log

        def next_token(self):
            self.n += 1
            if self.log and self.n > 1:
                events.append(0)
            if self.n > len(self.w) + 20:
                raise _Fuel()
            if self.n <= len(self.w):
                return Token(self.w[self.n - 1], self.n, loc)
            return Token("EOF", self.n, loc)

    def grammar():
        g = Grammar()
        g.add_terminals(terms)
        for n, (l, r) in enumerate(prods):
            g.add_production(l, list(r), action(n + 1))
        g.start_symbol = "S"
        return g

    rec = {"key": gkey(prods), "tags": tags(prods), "maxlen": maxlen,
           "G": {"terms": terms, "nonterms": nts_of(prods), "prods": [[l, list(r)] for l, r in prods], "start": "S"}}
    # first sets
    try:
        fs = lrmod.calculate_first_sets(grammar())
        rec["first"] = {"ok": True, "sets": {str(k): sorted(str(x) for x in v) for k, v in fs.items()}}
    except Exception as e:
        rec["first"] = {"ok": False, "exc": exc_name(e)}
    # tables
    parser = None
    stats = {"sr_resolved": False}
    try:
        g = grammar()

        class Builder(lrmod.LrParserBuilder):      # observation only: was a conflict resolved silently?
            def set_action(self, state, t, act):
                old = self.action_table.get((state, t))
                if old is not None and old != act:
                    stats["sr_resolved"] = True
                return super().set_action(state, t, act)

        parser = Builder(g).generate_parser()
        rec["lr"] = {"outcome": "tables", "tab": export_tables(parser, lrmod)}
    except ParserGenerationException:
        rec["lr"] = {"outcome": "conflict"}
        parser = None
    except Exception as e:
        rec["lr"] = {"outcome": "crash", "exc": exc_name(e)}
        parser = None
    rec["sr_resolved"] = stats["sr_resolved"]

    class Recogniser(EarleyParser):                 # verdict of the recogniser; tree building is not C32
        def make_tree(self, columns, nt):
            return True

    eg = grammar()
    runs = []
    for w in wordlist:
        run = {"w": list(w)}
        if parser is not None:
            del events[:]
            try:
                t = parser.parse(Lexer(w, True))
                run["lr"] = {"ok": True, "acc": True, "events": list(events), "tree": enc(t)}
            except ParserException:
                run["lr"] = {"ok": True, "acc": False, "events": list(events)}
            except Exception as e:
                run["lr"] = {"ok": False, "exc": exc_name(e), "events": list(events)}
        else:
            run["lr"] = {"ok": False, "exc": "no parser", "events": []}
        try:
            Recogniser(eg).parse(Lexer(w, False))
            run["earley"] = {"ok": True, "acc": True}
        except ParseError:
            run["earley"] = {"ok": True, "acc": False}
        except Exception as e:
            run["earley"] = {"ok": False, "exc": exc_name(e)}
        runs.append(run)
    rec["runs"] = runs
    return rec


def export_tables(parser, lrmod):
    """ppci's {(state, terminal): Action} / {(state, nonterminal): state} as per-state lists."""
    at, gt = parser.action_table, parser.goto_table
    states = [s for (s, _) in list(at) + list(gt)] + [v for v in gt.values()] + \
             [a.to_state for a in at.values() if isinstance(a, lrmod.Shift)] + [0]
    if not all(isinstance(s, int) and not isinstance(s, bool) and 0 <= s < 5000 for s in states):
        raise TypeError("state numbers are not small naturals")
    n = max(states) + 1
    action = [dict() for _ in range(n)]
    goto = [dict() for _ in range(n)]
    for (s, t), a in at.items():
        if isinstance(a, lrmod.Shift):
            action[s][str(t)] = {"k": "shift", "to": a.to_state}
        elif isinstance(a, lrmod.Accept):
            action[s][str(t)] = {"k": "accept", "p": a.rule + 1}
        elif isinstance(a, lrmod.Reduce):
            action[s][str(t)] = {"k": "reduce", "p": a.rule + 1}
        else:
            raise TypeError("unknown action")
    for (s, x), to in gt.items():
        goto[s][str(x)] = to
    return {"action": action, "goto": goto}


def _worker():
    """Child process (started with PYTHONHASHSEED=0: EarleyParser iterates over sets of items, so its
    behaviour may depend on string hashes): grammar keys on stdin, records on stdout."""
    import json
    import sys
    jobs = json.load(sys.stdin)
    out = []
    for k, maxlen in jobs:
        prods = parse_gkey(k)
        try:
            out.append(drive(prods, maxlen))
        except Exception as e:       # ppci does not even import / harness-level surprise: observed as a crash
            out.append({"key": k, "tags": tags(prods), "sr_resolved": False, "maxlen": maxlen,
                        "G": {"terms": terms_of(prods), "nonterms": nts_of(prods),
                              "prods": [[l, list(r)] for l, r in prods], "start": "S"},
                        "first": {"ok": False, "exc": exc_name(e)}, "lr": {"outcome": "crash", "exc": exc_name(e)},
                        "runs": [{"w": list(w), "lr": {"ok": False, "exc": "no parser", "events": []},
                                  "earley": {"ok": False, "exc": exc_name(e)}} for w in words(terms_of(prods), maxlen)]})
    json.dump(out, sys.stdout, separators=(",", ":"))


def records(ctx, grammars):
    import json
    import subprocess
    import sys
    thorough = ctx.tier == "thorough"
    # thorough: longer words for the core of the directed family and every third member of it
    keys = [[gkey(g), word_len(g, thorough and (why == "directed-core" or (why == "directed" and n % 3 == 0)))]
            for n, (g, why) in enumerate(grammars)]
    n = max(1, min(WORKERS, len(keys) // 40))
    size = (len(keys) + n - 1) // n
    env = dict(os.environ)
    env["PYTHONHASHSEED"] = "0"
    code = "import sys; sys.path.insert(0, %r); from engines import c32; c32._worker()" % core.VERIF
    procs = []
    for lo in range(0, len(keys), size):
        p = subprocess.Popen([sys.executable, "-c", code], stdin=subprocess.PIPE, stdout=subprocess.PIPE,
                             stderr=subprocess.PIPE, env=env, cwd=core.VERIF, text=True)
        procs.append((p, keys[lo:lo + size]))
    # feed and collect (outputs are large: use threads so that no pipe blocks)
    import threading
    results = [None] * len(procs)

    def pump(ix, p, part):
        out, err = p.communicate(json.dumps(part))
        results[ix] = (p.returncode, out, err)

    ths = [threading.Thread(target=pump, args=(ix, p, part)) for ix, (p, part) in enumerate(procs)]
    for t in ths:
        t.start()
    for t in ths:
        t.join()
    recs = []
    for rc, out, err in results:
        if rc != 0:
            raise core.tlcmod.MachineryError("C32 driver process failed:\n%s" % err[-3000:])
        recs += json.loads(out)
    return recs


# ---------------------------------------------------------------------------------------------
class Engine:
    LEVEL = "model_checking"

    def run(self, ctx):
        thorough = ctx.tier == "thorough"
        ctx.rule("M: for every grammar over {a,b}/{S,A} with <= MaxProds productions and |rhs| <= MaxRhs TLC builds "
                 "the canonical LR(1) tables of LR.tla, runs the shift-reduce machine on every word <= MaxLen and "
                 "checks the stack invariants, Exact/Sound against Derives, and the nullable/FIRST/language laws.  E/T: "
                 "work list = seeds + all grammars over {a,b}/{S,A} with <= 2 productions and |rhs| <= 2, all single "
                 "productions (thorough: all <= 2 productions |rhs| <= 3 and all 3 productions |rhs| <= 2) + seeded "
                 "random grammars with 2-4 productions, |rhs| <= 3, up to the a<->b symmetry + a directed family "
                 "built around optional parts between a non-terminal and a terminal (X -> N O t, X -> N O P t, "
                 "X -> t N O u, lists with optional separators/trailers, nested optionals; 2-4 non-terminals, 3 "
                 "terminals; sibling productions sharing a prefix 'N O' with different continuations; quick: 19 core + seeded 90 of ~2900, thorough: all) + seeded random grammars with 3 "
                 "non-terminals, 3-5 productions, 2-3 terminals; each grammar is given to calculate_first_sets, "
                 "LrParserBuilder, EarleyParser; the parser runs on all words over the grammar's terminals of length "
                 "<= 5 (two terminals) / <= 4 (three; <= 5 for a third of the directed family in thorough); TLC judges "
                 "every run (clauses %s).  evaluations = (grammar, word) runs; distinct = grammars with a generated "
                 "parser x words" % ", ".join(CLAUSES))
        ctx.assume("the harness lexer/semantic actions (tokens carry their position; actions build [p, kids] nodes) "
                   "and the export of ppci's action/goto dictionaries into per-state JSON tables are faithful")
        ctx.assume("'no reported conflict' is read as: LrParserBuilder returned tables and the grammar has no "
                   "shift/reduce conflict in the canonical LR(1) collection defined in LR.tla (shift/reduce "
                   "conflicts are resolved silently by set_action; for those only soundness is claimed)")
        ctx.assume("ppci's Item hashes include the identity hash of the Production object, so the order in which "
                   "set_action sees the items of a state (and hence, for grammars having both reduce/reduce and "
                   "shift/reduce conflicts, whether a conflict is reported or silently resolved) can differ between "
                   "processes; such grammars carry only the soundness claim either way, so verdicts are unaffected but "
                   "the counts of 'conflict reported' grammars may vary by a few between runs")
        if ctx.only is None:
            self.model_check(ctx, thorough)
        grammars = worklist(ctx)
        if ctx.only is not None:
            want = ctx.only["case"]["grammar"]
            grammars = [(parse_gkey(want), "replay")]
        recs = records(ctx, grammars)
        n_tables = sum(1 for r in recs if r["lr"]["outcome"] == "tables")
        n_conf = sum(1 for r in recs if r["lr"]["outcome"] == "conflict")
        n_crash = sum(1 for r in recs if r["lr"]["outcome"] == "crash")
        n_res = sum(1 for r in recs if r["lr"]["outcome"] == "tables" and r["sr_resolved"])
        n_acc = 0
        for r in recs:
            for run in r["runs"]:
                has = r["lr"]["outcome"] == "tables"
                ctx.count(r["key"] + ":" + "".join(run["w"]), nontrivial=has)
                n_acc += int(has and run["lr"].get("acc") is True)
        ctx.cov["grammars"] = len(recs)
        ctx.cov["grammars_with_parser"] = n_tables
        ctx.cov["grammars_conflict_reported_no_claim"] = n_conf
        ctx.cov["grammars_builder_crashed_no_claim"] = n_crash
        ctx.cov["grammars_with_silently_resolved_conflict"] = n_res
        ctx.cov["accepting_runs"] = n_acc
        for r in recs[:: max(1, len(recs) // 4)]:
            ctx.sample({"grammar": r["key"], "builder": r["lr"]["outcome"],
                        "accepted": ["".join(x["w"]) for x in r["runs"] if x["lr"].get("acc") is True][:8]})
        if n_tables < len(recs) // 4:
            # a builder that refuses (or crashes on) most grammars makes the check vacuous
            ctx.violation("C32:builder:refuses-most-grammars",
                          "LrParserBuilder produced a parser for only %d of %d grammars" % (n_tables, len(recs)),
                          {"grammar": recs[0]["key"]})
        self.judge(ctx, recs)

    # -- M ---------------------------------------------------------------------------------
    def model_check(self, ctx, thorough):
        configs = [(2, 2, 4), (1, 3, 5), (3, 2, 3), (2, 3, 3)] if thorough else [(2, 2, 3)]
        for mp_, mr, ml in configs:
            res = ctx.tlc("LR_MC", MC_CFG % (mp_, mr, ml), workers=WORKERS, label="laws+machine prods<=%d rhs<=%d len<=%d" % (mp_, mr, ml))
            for e in res.errors:
                raise core.tlcmod.MachineryError("LR.tla: law/invariant fails in the specification itself: %s %s" % (e, e.last))
            acts = core.tlcmod.action_coverage(res)
            if (mp_, mr) == (2, 2):
                for a in MC_ACTIONS:
                    if not acts.get("LR_MC." + a):
                        raise core.tlcmod.MachineryError("LR_MC: action %s not covered" % a)

    # -- E/T -------------------------------------------------------------------------------
    def judge(self, ctx, recs):
        # strip harness-only fields
        payload = [{k: r[k] for k in ("key", "maxlen", "G", "first", "lr", "runs")} for r in recs]
        batch = 1500
        for lo in range(0, len(payload), batch):
            part = payload[lo:lo + batch]
            path = ctx.trace_file(part)
            res = ctx.tlc("LR_Trace", TRACE_CFG, label="runs %d..%d" % (lo, lo + len(part)),
                          env={"TRACE_FILE": path}, continue_=True, workers=WORKERS)
            os.unlink(path)
            ctx.cov["traces_validated_against_impl"] += sum(len(r["runs"]) for r in part)
            seen = set()
            for e in res.errors:
                st = e.last
                i, k = st.get("i"), st.get("k")
                if e.kind != "invariant" or e.name in SPEC_CHECKS or not isinstance(i, int) or not 1 <= i <= len(part):
                    raise core.tlcmod.MachineryError("TLC error without record index in LR_Trace: %s\n%s" % (e, e.text[:2000]))
                r = recs[lo + i - 1]
                w = "".join(r["runs"][k - 1]["w"]) if isinstance(k, int) and k >= 1 else "-"
                if (i, k, e.name) in seen:
                    continue
                seen.add((i, k, e.name))
                key = "C32:%s:%s:%s:w=%s" % (e.name, r["tags"], r["key"], w)
                run = r["runs"][k - 1] if isinstance(k, int) and k >= 1 else None
                c = st.get("c") if isinstance(st.get("c"), dict) else {}
                ctx.violation(key, "%s [grammar %s, word '%s', derivable=%s; parser: %s; machine: %s %s]" % (
                    WHAT.get(e.name, e.name), r["key"], w, st.get("d"),
                    _show(run["lr"]) if run else "-", c.get("status"), c.get("why", "")),
                    {"grammar": r["key"], "word": w, "clause": e.name, "first": r["first"],
                     "builder": r["lr"]["outcome"], "run": run,
                     "state": {x: y for x, y in st.items() if len(str(y)) < 600}})


def _show(o):
    if not o.get("ok"):
        return "raised %s" % o.get("exc")
    return "accepted" if o.get("acc") else "ParserException"
