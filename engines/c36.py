"""C36 — the Python front-end computes what CPython computes.

Deciding method: tla/PySrc.tla (what CPython computes for the property's subset, written from the language reference)
is refined by tla/IR.tla on the IR that ppci.lang.python.python_to_ir emits.  Python only generates abstract programs
(harness/pygen.py), renders them as annotated Python text, drives ppci, projects the IR (harness/project_ir.py) and moves
TLC's PySrc observations into the IR run; TLC + the two specifications decide.

  M   PySrc_MC.tla    laws of the integer definitions (all 1-byte word pairs against TLC integers, 8-byte boundary pairs
                      against independent formulations), hand-written micro programs with outcomes derived from the
                      language reference, the range() law over all small (start, stop, step); determinism, no stuck state,
                      every action taken
  G   PySrc_Run.tla   TLC executes every (program, argument vector) under PySrc.tla and writes the observation
  T   PySrc_IR.tla    TLC executes ppci's IR (IR.tla) and checks PyDefinedStaysDefined / PySameReturn against the PySrc
                      observation whenever PySrc ended "ok"
  ref CPython (subprocess executing the rendered source): guard only.  Where CPython sides with ppci against PySrc.tla
      the execution is printed as SPEC-SUSPECT and gives no verdict.
"""
import contextlib
import io
import json
import logging
import os
import random
import shutil
import subprocess
import sys
import tempfile

from harness import project_ir, pygen, watchdog
from harness.pygen import (AND, ASG, AUG, B, BREAK, CALL, CMPC, CONTINUE, EXPR, FN, FOR, IF, L, N, NOT, OR, PASS, PROG, RET,
                           TUP, V, WHILE, C)
from harness.tlc import MachineryError

logging.getLogger().addHandler(logging.NullHandler())   # ppci warns through logging; keep the check's output clean
logging.getLogger("p2p").setLevel(logging.CRITICAL)

WORKERS = 8
RUN_CFG = """INIT RInit
NEXT RNext
CHECK_DEADLOCK FALSE
INVARIANT TypeOK
INVARIANT NeverStuck
"""
IR_CFG = """INIT Init
NEXT Next
CHECK_DEADLOCK FALSE
INVARIANT PyDefinedStaysDefined
INVARIANT PySameReturn
"""
MC_CFG = """CONSTANT NV = %d
CONSTANT Y1Lo = %d
CONSTANT Y1Hi = %d
INIT MInit
NEXT MNext
CHECK_DEADLOCK FALSE
INVARIANT TypeOK
INVARIANT NeverStuck
INVARIANT LawArith1
INVARIANT LawDiv1
INVARIANT LawCmp1
INVARIANT LawOvf8
INVARIANT LawDiv8
INVARIANT LawCmp8
INVARIANT ExpectMet
INVARIANT RangeLaw
INVARIANT Deterministic
"""
ACTIONS = ["CallStep", "Raise", "Assign", "AugAssign", "TupleAssign", "ExprStmt", "Pass", "If", "WhileEnter", "WhileTest",
           "ForEnter", "ForNext", "Break", "Continue", "Return", "BlockEnd", "Exhaust"]
QUICK_PROGRAMS = 70
QUICK_VECTORS = 7
THOROUGH_PROGRAMS = 600
THOROUGH_VECTORS = 10
FUEL = 400                       # PySrc transitions per execution
MAX64 = (1 << 63) - 1
MIN64 = -(1 << 63)


# ------------------------------------------------------------------ M: the specification checked by itself
def micro_programs():
    """Hand-written programs with the outcome the Python language reference prescribes:
    (name, program, [(args, status, return value)], fuel)."""
    out = []

    def add(name, prog, runs, fuel=300):
        out.append((name, prog, runs, fuel))

    a, b, n, s, i, j, k = (V(t) for t in "abnsijk")
    add("floor-division-and-modulo", PROG(FN("f", ["a", "b"], [RET(B("+", B("*", B("//", a, b), L(100)), B("%", a, b)))])),
        # -7 // 2 = -4, -7 % 2 = 1;  7 // -2 = -4, 7 % -2 = -1;  -7 // -2 = 3, -7 % -2 = -1
        [([7, 2], "ok", 301), ([-7, 2], "ok", -399), ([7, -2], "ok", -401), ([-7, -2], "ok", 299), ([6, -3], "ok", -200),
         ([1, 0], "undefined", 0), ([MIN64, -1], "outofmodel", 0), ([0, -5], "ok", 0)])
    add("overflow-leaves-the-model", PROG(FN("f", ["a", "b"], [RET(B("-", B("*", a, b), N(a)))])),
        [([1 << 31, 1 << 31], "ok", (1 << 62) + (1 << 31)), ([1 << 32, 1 << 31], "outofmodel", 0), ([MIN64, 1], "outofmodel", 0),
         ([MAX64, 1], "outofmodel", 0), ([MAX64, 0], "ok", MAX64), ([-(1 << 62), 2], "outofmodel", 0), ([-(1 << 62), 1], "ok", MIN64)])
    add("aug-assign-unbound", PROG(FN("f", ["a"], [IF(CMPC(a, ">", L(0)), [ASG("x", L(1))]), AUG("x", "+", a), RET(V("x"))])),
        [([5], "ok", 6), ([0], "undefined", 0)])
    add("chained-comparison-and-not",
        PROG(FN("f", ["a", "b"], [ASG("r", L(0)), IF(CMPC(L(0), "<", a, "<=", b), [AUG("r", "+", L(1))]),
                                  IF(NOT(OR(CMPC(a, "==", b), CMPC(a, ">", L(9)))), [AUG("r", "+", L(10))]),
                                  # the middle operand is evaluated once, the last one not at all when the first link fails
                                  IF(CMPC(a, "<", L(0), "<", B("//", L(1), b)), [AUG("r", "+", L(100))]), RET(V("r"))])),
        [([1, 1], "ok", 1), ([1, 2], "ok", 11), ([0, 0], "ok", 0), ([1, 0], "ok", 10), ([-1, 0], "undefined", 0), ([10, 3], "ok", 0),
         ([-1, 1], "ok", 110)])
    add("short-circuit", PROG(FN("f", ["a", "b"], [IF(AND(CMPC(b, "!=", L(0)), CMPC(B("//", a, b), ">", L(2))), [RET(L(1))]),
                                                     IF(OR(CMPC(b, "==", L(0)), CMPC(B("%", a, b), "==", L(0))), [RET(L(2))]), RET(L(3))])),
        [([7, 0], "ok", 2), ([7, 2], "ok", 1), ([4, 2], "ok", 2), ([5, 2], "ok", 3)])
    add("while-break-continue",
        PROG(FN("f", ["n"], [ASG("s", L(0)), ASG("k", L(0)),
                             WHILE(CMPC(k, "<", n), [AUG("k", "+", L(1)), IF(CMPC(k, "==", L(2)), [CONTINUE]),
                                                    IF(CMPC(k, "==", L(5)), [BREAK]), AUG("s", "+", k)]),
                             RET(B("+", B("*", s, L(10)), k))])),
        [([10], "ok", (1 + 3 + 4) * 10 + 5), ([1], "ok", 11), ([0], "ok", 0), ([3], "ok", 43)])
    add("for-continue-advances", PROG(FN("f", ["n"], [ASG("s", L(0)), FOR("i", [n], [IF(CMPC(i, "==", L(2)), [CONTINUE]), AUG("s", "+", i)]), RET(s)])),
        [([5], "ok", 8), ([2], "ok", 1), ([0], "ok", 0), ([-3], "ok", 0)])
    add("for-bound-evaluated-once-target-ordinary-local",
        PROG(FN("f", ["n"], [ASG("c", L(0)), ASG("i", L(77)),
                             FOR("i", [n], [AUG("n", "+", L(2)), AUG("c", "+", L(1)), ASG("i", B("*", i, L(10)))]),
                             RET(B("+", B("*", B("+", B("*", V("c"), L(100)), n), L(1000)), i))])),
        # 3 iterations, n ends 9, i ends (3 - 1) * 10;  empty range: the target keeps its old value
        [([3], "ok", (3 * 100 + 9) * 1000 + 20), ([0], "ok", 77), ([-2], "ok", -2 * 1000 + 77)])
    add("nested-loops-break-inner",
        PROG(FN("f", ["n"], [ASG("s", L(0)), FOR("i", [n], [FOR("j", [L(1), n], [IF(CMPC(j, ">", i), [BREAK]), AUG("s", "+", L(1))]),
                                                          ASG("k", L(0)), WHILE(CMPC(k, "<", i), [AUG("k", "+", L(2)), PASS]), AUG("s", "+", B("*", k, L(100)))]),
                             RET(s)])),
        # i=0: 0 + k=0; i=1: j=1 -> 1, k=2; i=2: j=1,2 -> 2, k=2; i=3: j=1,2,3 -> 3, k=4
        [([4], "ok", 6 + 800), ([1], "ok", 0), ([0], "ok", 0)])
    add("range-negative-step", PROG(FN("f", ["a", "b"], [ASG("s", L(0)), FOR("i", [a, b, N(L(3))], [ASG("s", B("+", B("*", s, L(100)), i))]), RET(s)])),
        [([10, 0], "ok", 10070401), ([10, 1], "ok", 100704), ([0, 10], "ok", 0)])
    # the items of a range never leave the 64-bit range even when start + k * step would
    add("range-at-the-edge", PROG(FN("f", ["a", "b", "c"], [ASG("n", L(0)), FOR("i", [a, b, V("c")], [AUG("n", "+", L(1))]), RET(n)])),
        [([MIN64 + 4, MIN64, -3], "ok", 2), ([MAX64 - 4, MAX64, 3], "ok", 2), ([MAX64 - 4, MAX64, 4], "ok", 1),
         ([MAX64 - 1, MAX64, MAX64], "ok", 1), ([MIN64 + 1, MIN64, MIN64], "ok", 1), ([MAX64, MIN64, -1], "fuel", 0)])
    add("range-step-zero", PROG(FN("f", ["a"], [FOR("i", [L(0), L(5), a], [PASS]), RET(L(1))])), [([0], "undefined", 0), ([9], "ok", 1)])
    add("calls", PROG(FN("g", ["x", "y"], [RET(B("-", B("*", V("x"), L(10)), V("y")))]),
                      FN("h", ["x"], [IF(CMPC(V("x"), "<", L(1)), [RET(L(0))]), RET(B("+", V("x"), CALL("h", B("-", V("x"), L(1)))))]),
                      FN("f", ["a", "b"], [EXPR(CALL("g", a, b)), TUP(["a", "b"], [CALL("g", b, a), CALL("h", a)]),
                                           IF(CMPC(CALL("h", L(2)), "==", L(3)), [RET(B("+", B("*", a, L(1000)), b))]), RET(L(0))])),
        [([1, 2], "ok", 19 * 1000 + 1), ([4, 0], "ok", -4 * 1000 + 10)])
    add("call-order-and-error", PROG(FN("g", ["x"], [RET(B("//", L(10), V("x")))]), FN("f", ["a", "b"], [RET(B("+", CALL("g", a), CALL("g", b)))])),
        [([1, 2], "ok", 15), ([0, 2], "undefined", 0), ([2, 0], "undefined", 0), ([-3, 10], "ok", -4 + 1)])
    add("falls-off-the-end", PROG(FN("f", ["a"], [IF(CMPC(a, ">", L(0)), [RET(L(1))])])), [([1], "ok", 1), ([0], "undefined", 0)])
    add("unbound-local", PROG(FN("f", ["a"], [FOR("i", [a], [ASG("y", i)]), RET(V("y"))])), [([2], "ok", 1), ([0], "undefined", 0)])
    add("fuel", PROG(FN("f", ["a"], [WHILE(CMPC(a, "==", a), [PASS]), RET(L(0))])), [([0], "fuel", 0)], fuel=50)
    add("deep-recursion", PROG(FN("f", ["n"], [IF(CMPC(n, "<", L(1)), [RET(L(0))]), RET(B("+", L(1), CALL("f", B("-", n, L(1)))))])),
        [([5], "ok", 5), ([11], "ok", 11), ([12], "fuel", 0)])
    return out


def micro_cases(thorough):
    cases = []
    for name, prog, runs, fuel in micro_programs():
        cases.append({"id": name, "prog": pygen.to_tla(prog), "fn": prog["main"], "argv": [[pygen.word(v) for v in r[0]] for r in runs],
                      "fuel": fuel, "law": "",
                      "expect": [{"status": r[1], "ret": pygen.word(r[2]) if r[1] == "ok" else []} for r in runs]})
    # the range() law: all small (start, stop, step); the expected value is computed by TLC (PySrc_MC.tla: RangeLaw)
    a, b, c, i = V("a"), V("b"), V("c"), V("i")
    lim = 5 if thorough else 2
    argv = [[pygen.word(x), pygen.word(y), pygen.word(z)] for x in range(-lim, lim + 1) for y in range(-lim, lim + 1)
            for z in range(-3, 4)]
    laws = {
        "range-count": PROG(FN("f", ["a", "b", "c"], [ASG("n", L(0)), FOR("i", [a, b, c], [AUG("n", "+", L(1))]), RET(V("n"))])),
        "range-sum": PROG(FN("f", ["a", "b", "c"], [ASG("s", L(0)), FOR("i", [a, b, c], [AUG("s", "+", i), IF(CMPC(i, ">", L(100)), [CONTINUE])]), RET(V("s"))])),
        "range-last": PROG(FN("f", ["a", "b", "c"], [ASG("i", L(77)), FOR("i", [a, b, c], [PASS]), RET(i)])),
    }
    for law, prog in laws.items():
        cases.append({"id": law, "prog": pygen.to_tla(prog), "fn": "f", "argv": argv, "fuel": 300, "law": law,
                      "expect": [{"status": "", "ret": []}]})
    return cases


def src_cases(items, fuel):
    return [{"id": it["key"], "prog": pygen.to_tla({"funcs": it["prog"]["funcs"]}), "fn": it["fn"],
             "argv": [[pygen.word(x) for x in v] for v in it["vecs"]], "fuel": fuel, "law": "none",
             "expect": [{"status": "", "ret": []}]} for it in items]


def read_obs(ctx, obsdir, first, items, prefix):
    """Observation files of the cases first+1.. (one per item): {(item index, vector index): record}."""
    obs = {}
    taken = set()
    for fn in os.listdir(obsdir):
        with open(os.path.join(obsdir, fn)) as fh:
            r = json.load(fh)
        taken |= set(r["acts"])
        for a in r["acts"]:
            ctx.cov["actions"][prefix + a] = ctx.cov["actions"].get(prefix + a, 0) + 1
        k = r["i"] - 1 - first
        if k < 0:
            continue
        o = r["obs"]
        o["steps"] = r["steps"]
        obs[(k, r["av"] - 1)] = o
    want = sum(len(it["vecs"]) for it in items)
    if len(obs) != want:
        raise MachineryError("%s wrote %d observations, expected %d" % (prefix, len(obs), want))
    return obs, taken


def model_check(ctx, probe_items):
    """M: PySrc_MC.tla.  The same TLC run executes the directed probes under PySrc.tla (so that the invariants of the
    specification - determinism, no stuck configuration - are also checked on them); their observations are returned."""
    thorough = ctx.tier == "thorough"
    cases = micro_cases(thorough)
    nmicro = len(cases)
    cases += src_cases(probe_items, FUEL)
    path = ctx.trace_file(cases, "micro.json")
    obsdir = tempfile.mkdtemp(prefix="mcobs_", dir=ctx.workdir)
    nv = 30 if thorough else 18
    # 1-byte laws: quick = every first operand x the second operands near 0, +-128 (35 values); thorough = all 65536 pairs
    y1 = (256, 256) if thorough else (8, 0)
    ny = 256 if thorough else 4 * y1[0] + 3
    res = ctx.tlc("PySrc_MC", MC_CFG % (nv, y1[0], y1[1]), label="PySrc_MC laws + micro programs + PySrc executions (probes)",
                  env={"TRACE_FILE": path, "OBS_DIR": obsdir}, continue_=True, workers=WORKERS, coverage=False)
    os.unlink(path)
    if res.errors:
        msgs = []
        for e in res.errors[:6]:
            st = e.last
            i = st.get("i")
            msgs.append("%s %s case=%s state=%s %s" % (
                e.kind, e.name, cases[i - 1]["id"] if isinstance(i, int) and 0 < i <= len(cases) else "-",
                {k: str(v)[:300] for k, v in st.items() if k in ("i", "av", "lw", "status", "why", "ret")},
                e.text[:600] if e.kind == "eval" else ""))
        raise MachineryError("PySrc.tla fails its own model check:\n" + "\n".join(msgs))
    obs, taken = read_obs(ctx, obsdir, nmicro, probe_items, "PySrc_MC.")
    shutil.rmtree(obsdir, ignore_errors=True)
    missing = [a for a in ACTIONS if a not in taken]
    if missing:
        raise MachineryError("PySrc_MC: actions never taken: %s" % missing)
    ctx.cov["mc_micro_programs"] = nmicro
    ctx.cov["mc_micro_runs"] = sum(len(c["argv"]) for c in cases[:nmicro])
    ctx.cov["mc_law_instances"] = 256 * ny + nv * nv
    return obs


# ------------------------------------------------------------------ ppci side
def compile_src(src):
    """-> ("ok", projected module) | ("rejected", message) | ("internal", exception class name, message)."""
    from ppci.common import CompilerError
    from ppci.lang.python import python_to_ir

    def call():
        with contextlib.redirect_stdout(io.StringIO()):        # python2ir prints dir(node) before some diagnostics
            m = python_to_ir(io.StringIO(src))
        return project_ir.project_module(m, 8)

    try:
        return ("ok", watchdog.limited(call, 10.0, "python_to_ir"))
    except CompilerError as e:
        return ("rejected", str(getattr(e, "msg", e))[:200])
    except Exception as e:  # noqa: BLE001 - a changed /repo may raise anything; it is recorded, not propagated
        return ("internal", type(e).__name__, str(e)[:200])


def detect_features(ctx):
    feats, why = set(), {}
    for name, prog in pygen.FEATURES.items():
        r = compile_src(pygen.render(prog))
        if r[0] == "ok":
            feats.add(name)
        else:
            why[name] = r[1] if r[0] == "internal" else "CompilerError"
    ctx.cov["optional_features_supported"] = sorted(feats)
    ctx.cov["optional_features_unsupported"] = why
    return feats


def make_item(key, cls, prog, vecs, kind):
    return {"key": key, "cls": cls, "prog": prog, "fn": prog["main"], "vecs": vecs, "kind": kind, "src": pygen.render(prog)}


def fmt_vec(v):
    return ",".join(str(x) for x in v)


def compile_items(ctx, items, failing):
    """Run the real front-end; attach the IR projection.  CompilerError = outside the supported subset (counted);
    any other exception on a program of the subset is a violation (shared with C28)."""
    ok = []
    for it in items:
        r = compile_src(it["src"])
        if r[0] == "rejected":
            ctx.cov["frontend_rejected"] = ctx.cov.get("frontend_rejected", 0) + 1
            if len(ctx.cov.setdefault("frontend_rejected_samples", [])) < 5:
                ctx.cov["frontend_rejected_samples"].append({"key": it["key"], "msg": r[1]})
            failing.add(it["cls"])
            continue
        if r[0] == "internal":
            ctx.cov["frontend_internal_error"] = ctx.cov.get("frontend_internal_error", 0) + 1
            failing.add(it["cls"])
            ctx.violation("C36:%s:compile:%s" % (it["key"], r[1]),
                          "python_to_ir raises %s (%s) instead of compiling a program of the supported subset" % (r[1], r[2]),
                          {"item": it["key"], "source": it["src"], "exception": r[1], "message": r[2]})
            continue
        pm = r[1]
        fi = [g for g in pm["funcs"] if g["name"] == it["fn"]]
        nparams = len([f for f in it["prog"]["funcs"] if f["n"] == it["fn"]][0]["params"])
        if not fi or len(fi[0]["params"]) != nparams or any(p["ty"] not in project_ir.INT_TYPES for p in fi[0]["params"]) \
                or fi[0].get("ret") not in (None,) + tuple(project_ir.INT_TYPES):
            ctx.cov["frontend_internal_error"] = ctx.cov.get("frontend_internal_error", 0) + 1
            failing.add(it["cls"])
            ctx.violation("C36:%s:compile:signature" % it["key"],
                          "python_to_ir emits no function %s with %d integer parameters" % (it["fn"], nparams),
                          {"item": it["key"], "source": it["src"]})
            continue
        it["ptys"] = [p["ty"] for p in fi[0]["params"]]
        it["pm"] = pm
        ok.append(it)
    return ok


# ------------------------------------------------------------------ TLC: PySrc observations
def run_src(ctx, items, label):
    """TLC executes every (item, vector) under PySrc.tla; returns {(item index, vector index): record}."""
    cases = src_cases(items, FUEL if ctx.tier == "quick" else 2 * FUEL)
    obsdir = tempfile.mkdtemp(prefix="obs_", dir=ctx.workdir)
    path = ctx.trace_file(cases, "pysrc.json")
    res = ctx.tlc("PySrc_Run", RUN_CFG, label=label, env={"TRACE_FILE": path, "OBS_DIR": obsdir}, continue_=True,
                  workers=WORKERS, coverage=False)
    os.unlink(path)
    if res.errors:
        e = res.errors[0]
        i = e.last.get("i")
        raise MachineryError("PySrc.tla could not execute a generated program (%s): %s %s\n%s" % (
            e.name, items[i - 1]["key"] if isinstance(i, int) and 0 < i <= len(items) else "?",
            {k: str(v)[:200] for k, v in e.last.items() if k in ("i", "av", "status", "why")}, e.text[:1500]))
    obs, _ = read_obs(ctx, obsdir, 0, items, "PySrc.")
    shutil.rmtree(obsdir, ignore_errors=True)
    return obs


# ------------------------------------------------------------------ TLC: the judgement
def judge(ctx, items, obs, label):
    """PySrc_IR.tla on the executions PySrc finished 'ok'.  Returns {(item, vector): [(clause, state)]}."""
    cases, index = [], []
    for k, it in enumerate(items):
        sel = [a for a in range(len(it["vecs"])) if obs[(k, a)]["status"] == "ok"]
        if not sel:
            continue
        size = {"i8": 1, "u8": 1, "i16": 2, "u16": 2, "i32": 4, "u32": 4, "i64": 8, "u64": 8}
        per_step = 16 * pygen.max_stmt_nodes(it["prog"]) + 32
        fuel = per_step * max(obs[(k, a)]["steps"] for a in sel) + 1000
        cases.append({"id": it["key"], "mods": [it["pm"]], "fn": it["fn"], "ext": [], "fuel": fuel,
                      "argv": [[project_ir.limbs(x, size[t]) for x, t in zip(it["vecs"][a], it["ptys"])] for a in sel],
                      "obs": [{"status": "ok", "ret": obs[(k, a)]["ret"]} for a in sel]})
        index.append((k, sel))
    bad = {}
    if not cases:
        return bad
    path = ctx.trace_file(cases, "ir.json")
    res = ctx.tlc("PySrc_IR", IR_CFG, label=label, env={"TRACE_FILE": path}, continue_=True, workers=WORKERS, heap="12g")
    os.unlink(path)
    for e in res.errors:
        st = e.last
        i, av = st.get("i"), st.get("av")
        if e.kind != "invariant" or not isinstance(i, int) or i < 1 or i > len(index) or not isinstance(av, int):
            raise MachineryError("unexpected TLC error in the PySrc_IR run: %s\n%s" % (e, e.text[:1500]))
        k, sel = index[i - 1]
        bad.setdefault((k, sel[av - 1]), []).append((e.name, st))
    return bad


# ------------------------------------------------------------------ CPython reference guard
GUARD = r'''
import json, sys
sys.setrecursionlimit(400)
items = json.load(sys.stdin)
out = []
class Budget(Exception):
    pass
def run(fn, args):
    n = [0]
    def tr(frame, event, arg):
        n[0] += 1
        if n[0] > 40000:
            raise Budget()
        return tr
    sys.settrace(tr)
    try:
        v = fn(*args)
    finally:
        sys.settrace(None)
    return v
for it in items:
    res = []
    try:
        ns = {}
        exec(compile(it["src"], "<c36>", "exec"), ns)
        fn = ns[it["fn"]]
    except Exception as e:
        out.append([["load", type(e).__name__]] * len(it["vecs"]))
        continue
    for vec in it["vecs"]:
        if vec is None:
            res.append(["skip"])
            continue
        try:
            v = run(fn, vec)
            res.append(["none"] if v is None else (["ok", v] if isinstance(v, int) and not isinstance(v, bool) else ["other", repr(v)[:40]]))
        except Budget:
            res.append(["budget"])
        except BaseException as e:
            res.append(["exc", type(e).__name__])
    out.append(res)
json.dump(out, sys.stdout)
'''


def cpython_guard(ctx, items, obs):
    """{(item, vector): 'agrees' | 'differs' | 'n/a'}: does CPython side with PySrc.tla on this execution?"""
    payload = []
    for k, it in enumerate(items):
        # executions PySrc.tla could not finish are not given to CPython (they may run for ever), nor are those in
        # which a value leaves 64 bits (nothing to compare; CPython goes on with ever larger integers)
        payload.append({"src": it["src"], "fn": it["fn"],
                        "vecs": [v if obs[(k, a)]["status"] in ("ok", "undefined") else None for a, v in enumerate(it["vecs"])]})
    try:
        p = subprocess.run([sys.executable, "-I", "-c", GUARD], input=json.dumps(payload), capture_output=True, text=True, timeout=600)
        out = json.loads(p.stdout)
    except (OSError, subprocess.TimeoutExpired, ValueError) as e:
        ctx.note("CPython guard unavailable: %s" % type(e).__name__)
        return {}, {}
    verdict, raw = {}, {}
    for k, it in enumerate(items):
        for a in range(len(it["vecs"])):
            r = out[k][a]
            o = obs[(k, a)]
            raw[(k, a)] = r
            if r[0] in ("skip", "budget", "load"):
                verdict[(k, a)] = "n/a"
            elif o["status"] == "ok":
                verdict[(k, a)] = "agrees" if r[0] == "ok" and r[1] == pygen.unword(o["ret"]) else "differs"
            elif o["status"] == "undefined":
                verdict[(k, a)] = "agrees" if r[0] in ("exc", "none") else "differs"
    return verdict, raw


# ------------------------------------------------------------------ the engine
def describe(it, a, o, clause, st):
    r = st.get("ret")
    return "%s(%s): CPython semantics (PySrc.tla) gives %d; ppci's IR gives status=%s%s ret=%s [%s]" % (
        it["fn"], fmt_vec(it["vecs"][a]), pygen.unword(o["ret"]), st.get("status"),
        (" (%s)" % st.get("why")) if st.get("why") else "",
        pygen.unword(r) if isinstance(r, list) and r and all(isinstance(x, int) for x in r) else r, clause)


class Engine:
    LEVEL = "model_checking"

    def run(self, ctx):
        thorough = ctx.tier == "thorough"
        ctx.rule("(a) directed probes: micro programs per construct family of the subset (arithmetic, //, comparisons, and/or, "
                 "if/elif/else, while, for over range with 1 and 2 arguments, for bodies with inner control flow, continue in "
                 "for, the loop target as an ordinary local, locals first bound inside a suite, tuple / augmented assignment, "
                 "calls incl. recursion and calls of functions defined later; and, when python2ir accepts them, %, unary -, "
                 "not, chained comparisons, range with a step) on fixed boundary vectors; (b) random programs of "
                 "harness/pygen.py (1-3 functions, <= 25 statements, expression depth <= 4, nested loops with break/continue, "
                 "calls) on boundary + seeded random argument vectors, generated without the construct families whose probes "
                 "failed in the same run.  Each (program, vector) is executed by TLC under PySrc.tla; those ending 'ok' are "
                 "compared by TLC with the execution of python_to_ir's IR under IR.tla.  distinct = distinct (program, vector) "
                 "pairs compared; executions where CPython raises / returns None, where a value leaves 64 bits or that exceed "
                 "the step budget are skipped and counted")
        ctx.assume("harness/pygen.py render prints the abstract program faithfully as Python text; to_tla re-encodes it for TLC without interpretation")
        ctx.assume("harness/project_ir.py reports the IR module faithfully; IR.tla is the meaning of ppci IR (as for C02)")
        ctx.assume("PySrc.tla is what CPython computes for the subset (cross-validated against CPython itself on every generated execution)")
        ctx.assume("floats are not modelled: the float clause of the property is not decided")
        feats = detect_features(ctx)
        stat = {}

        # ---- stage 1: the specification by itself + directed probes ------------------------------------
        probes = [make_item("probe:%s:%s" % (cls, name), cls, prog, vecs, "probe") for cls, name, prog, vecs in pygen.probes(thorough)]
        if ctx.only is not None and (ctx.only.get("case") or {}).get("item", "").startswith("probe:"):
            probes = [it for it in probes if it["key"] == ctx.only["case"]["item"]]
        pobs = model_check(ctx, probes)
        # probes of optional constructs that python2ir does not accept are executed by PySrc.tla (and compared with
        # CPython) but there is nothing to judge
        judged = [k for k, it in enumerate(probes) if it["cls"] not in pygen.FEATURES or it["cls"] in feats]
        ctx.cov["probes_run"] = len(judged)
        self.guard_only(ctx, [it for k, it in enumerate(probes) if k not in set(judged)],
                        {(n, a): pobs[(k, a)] for n, k in enumerate(k for k in range(len(probes)) if k not in set(judged))
                         for a in range(len(probes[k]["vecs"]))})
        failing = self.stage(ctx, [probes[k] for k in judged], "probes", stat,
                             {(n, a): pobs[(k, a)] for n, k in enumerate(judged) for a in range(len(probes[k]["vecs"]))})
        ctx.cov["construct_families_avoided_in_random_programs"] = sorted(failing)

        # ---- stage 2: random programs (without the families whose probes failed) -----------------------
        nprog = THOROUGH_PROGRAMS if thorough else QUICK_PROGRAMS
        nvec = THOROUGH_VECTORS if thorough else QUICK_VECTORS
        rnd = []
        hist = {}
        for _ in range(nprog):
            seed = ctx.rng.randrange(1 << 30)
            prng = random.Random(seed)
            prog = pygen.Gen(prng, feats=feats, avoid=failing).program()
            main = [f for f in prog["funcs"] if f["n"] == prog["main"]][0]
            rnd.append(make_item("random:%d" % seed, "random", prog, pygen.arg_vectors(len(main["params"]), prng, nvec), "random"))
            for t in pygen.constructs(prog):
                hist[t] = hist.get(t, 0) + 1
        ctx.cov["random_program_constructs"] = dict(sorted(hist.items()))
        if ctx.only is not None and (ctx.only.get("case") or {}).get("item"):
            rnd = [it for it in rnd if it["key"] == ctx.only["case"]["item"]]
        bs = 500
        for bi in range(0, len(rnd), bs):
            self.stage(ctx, rnd[bi:bi + bs], "random %d" % (bi // bs), stat)
        ctx.cov["pysrc_status"] = stat
        tot = sum(v for k, v in stat.items() if ":" not in k)
        ctx.cov["compared_ratio"] = round(stat.get("ok", 0) / max(1, tot), 3)

    def guard_only(self, ctx, items, obs):
        """CPython against PySrc.tla on executions that are not judged."""
        if not items:
            return
        guard, raw = cpython_guard(ctx, items, obs)
        for (k, a), g in guard.items():
            ctx.cov["cpython_" + g] = ctx.cov.get("cpython_" + g, 0) + 1
            if g == "differs":
                o = obs[(k, a)]
                print("SPEC-SUSPECT property=C36 case=%s args=%s (PySrc.tla: %s %s, CPython: %s)" % (
                    items[k]["key"], fmt_vec(items[k]["vecs"][a]), o["status"],
                    pygen.unword(o["ret"]) if o["status"] == "ok" else o.get("why"), raw[(k, a)]))
                ctx.cov["spec_suspect"] = ctx.cov.get("spec_suspect", 0) + 1

    def stage(self, ctx, items, name, stat, obs_all=None):
        """Compile, execute under PySrc.tla (unless the observations are given), judge against the IR, consult CPython;
        returns the construct families with a failure."""
        failing = set()
        ctx.cov["programs_generated"] = ctx.cov.get("programs_generated", 0) + len(items)
        index = {id(it): k for k, it in enumerate(items)}
        compiled = compile_items(ctx, items, failing)
        ctx.cov["programs_compiled"] = ctx.cov.get("programs_compiled", 0) + len(compiled)
        if obs_all is not None:
            # executions of programs that did not compile: still compared with CPython
            rest = [it for it in items if "pm" not in it]
            self.guard_only(ctx, rest, {(n, a): obs_all[(index[id(it)], a)] for n, it in enumerate(rest) for a in range(len(it["vecs"]))})
        items = compiled
        if not items:
            return failing
        if obs_all is None:
            obs = run_src(ctx, items, "PySrc executions (%s)" % name)
        else:
            obs = {(n, a): obs_all[(index[id(it)], a)] for n, it in enumerate(items) for a in range(len(it["vecs"]))}
        bad = judge(ctx, items, obs, "PySrc vs IR (%s)" % name)
        guard, raw = cpython_guard(ctx, items, obs)
        for k, it in enumerate(items):
            reported = False
            for a in range(len(it["vecs"])):
                o = obs[(k, a)]
                st = o["status"]
                stat[st] = stat.get(st, 0) + 1
                stat[it["kind"] + ":" + st] = stat.get(it["kind"] + ":" + st, 0) + 1
                g = guard.get((k, a))
                if g is not None:
                    ctx.cov["cpython_" + g] = ctx.cov.get("cpython_" + g, 0) + 1
                if g == "differs" and (k, a) not in bad:
                    # the reference disagrees with the specification although ppci agrees with it (or nothing was compared)
                    print("SPEC-SUSPECT property=C36 case=%s args=%s (PySrc.tla: %s %s, CPython: %s)" % (
                        it["key"], fmt_vec(it["vecs"][a]), st, pygen.unword(o["ret"]) if st == "ok" else o.get("why"), raw[(k, a)]))
                    ctx.cov["spec_suspect"] = ctx.cov.get("spec_suspect", 0) + 1
                if st != "ok":
                    ctx.count(None, n=1)
                    continue
                ctx.count("%s|%s" % (it["key"], fmt_vec(it["vecs"][a])))
                ctx.cov["traces_validated_against_impl"] += 1
                if (k, a) in bad:
                    clause, s = bad[(k, a)][0]
                    if g == "differs":
                        # CPython does not side with the specification on this execution: no verdict
                        print("SPEC-SUSPECT property=C36 case=%s args=%s (PySrc.tla: %d, CPython: %s, ppci IR: %s %s)" % (
                            it["key"], fmt_vec(it["vecs"][a]), pygen.unword(o["ret"]), raw[(k, a)], s.get("status"), s.get("ret")))
                        ctx.cov["spec_suspect"] = ctx.cov.get("spec_suspect", 0) + 1
                        continue
                    failing.add(it["cls"])
                    if reported:
                        continue
                    reported = True
                    how = "ret" if s.get("status") == "ok" else "ir-%s" % s.get("status")
                    ctx.violation("C36:%s:%s@%s" % (it["key"], how, fmt_vec(it["vecs"][a])), describe(it, a, o, clause, s),
                                  {"item": it["key"], "source": it["src"], "args": it["vecs"][a], "clause": clause,
                                   "expected": pygen.unword(o["ret"]), "cpython": raw.get((k, a)),
                                   "ir_state": {x: s.get(x) for x in ("status", "why", "ret")}})
        for it in items[:2]:
            ctx.sample({"key": it["key"], "args": it["vecs"][:3], "source": it["src"][:500]}, limit=4)
        return failing
