"""C08 — instruction encodings agree with the architecture reference (RV32.tla, X64.tla; idioms M + G + E)."""
from harness import asmgen
from harness import armgen


def report(ctx, prop, verdicts, what):
    """Map TLC's rejected records to violations / notes."""
    unknown = 0
    undecodable = 0
    for rec, clause, _ in verdicts:
        if clause == "SyntaxKnown":
            unknown += 1
            continue
        if clause == "Decodable":
            undecodable += 1
            continue
        ctx.violation(rec["key"], what(rec, clause) + " [clause %s]" % clause,
                      {"record": {k: v for k, v in rec.items()}, "clause": clause})
    if unknown:
        ctx.note("%d instance(s) printed in a syntax outside the modelled RISC-V assembly: no verdict" % unknown)
    if undecodable:
        ctx.note("%d instance(s) whose bytes are outside the decoder's subset or are not the printed instruction: "
                 "no verdict here (C08 judges them)" % undecodable)


def restrict(ctx, recs):
    if ctx.only is not None:
        want = {ctx.only.get("key"), ((ctx.only.get("case") or {}).get("record") or {}).get("key")}
        sel = [r for r in recs if r["key"] in want]
        if not sel:
            ctx.note("replay: the case %s was not regenerated (different tier / seed / tree?)" % ctx.only.get("key"))
        return sel
    return recs


class Engine:
    LEVEL = "model_checking"

    def run(self, ctx):
        thorough = (ctx.only.get("tier", ctx.tier) if ctx.only else ctx.tier) == "thorough"
        if armgen.c08_part(ctx, thorough): return  # thumb / arm (tla/Thumb.tla, tla/Arm32.tla); True: a replay of one of its cases
        ctx.rule("every concrete instruction class of ppci.arch.riscv (isa, rvcisa) x {each register slot swept over "
                 "x0..x31, diagonal, every in-range boundary immediate / displacement enumerated by TLC from "
                 "RV32.FieldRange, symbol addresses for %hi/%lo forms}; bytes = encode() (+ own relocation applied; "
                 "thorough: also assembler + linker on the printed text); TLC: Decode(bytes) = Canon(Asm(printed text)); "
                 "macro instructions: the rendering is the printed base instruction / leaves the printed value; "
                 "distinct = distinct (class, path, printed text, symbol)")
        ctx.assume("lexical tokenisation of the printed text (harness/asmgen.py: tokenize) and the register-name -> "
                   "number reading x<n> -> n")
        if ctx.only is None:
            table = asmgen.laws_and_table(ctx, ["h16", "w32", "ins", "hilo"], thorough)
        else:
            table = asmgen.gen_table(ctx)
        rig = asmgen.AsmRig()
        recs = []
        for which in ("riscv", "rvc"):
            r, skipped = asmgen.enc_records("C08", which, table, ctx.rng, "valid", rig, thorough,
                                            paths=("enc", "asm") if thorough else ("enc",))
            recs += r
            for s in skipped:
                ctx.note("class %s:%s not instantiated / not an instruction" % (which, s))
            r, skipped = asmgen.pseudo_records("C08", which, table, ctx.rng, thorough)
            recs += r
            for s, n in sorted(skipped.items()):
                ctx.note("macro %s:%s: %d instance(s) not rendered" % (which, s, n))
        recs = restrict(ctx, recs)
        for r in recs:
            ctx.count(r["key"])
        for r in recs[:: max(1, len(recs) // 4)]:
            ctx.sample({"key": r["key"], "bytes": r.get("out", {}).get("bytes", r.get("seq"))})
        verdicts = asmgen.judge(ctx, recs, ["EncodingAgrees", "MacroMeansWhatItPrints", "SyntaxKnown"], "E: C08 records")
        report(ctx, "C08", verdicts, lambda rec, clause: "bytes %s do not decode to the printed '%s'" % (
            bytes(rec["out"]["bytes"]).hex() if "out" in rec else [bytes(b).hex() for b in rec["seq"]], rec["text"]))
        if thorough and ctx.only is None:
            asmgen.llvm_crosscheck(ctx, [r["out"]["bytes"] for r in recs if "out" in r and r["out"]["ok"]] +
                                   [b for r in recs if "seq" in r for b in r["seq"]])
        if ctx.only is None:
            run_x86_64(ctx, thorough)


def run_x86_64(ctx, thorough):
    """x86_64: X64.Decode(bytes ppci emitted) designates the operation and operands ppci prints."""
    from harness import x64gen
    ctx.rule(ctx.cov["rule"] + " || x86_64: every concrete instruction class of get_arch('x86_64').isa (integer, sse1, sse2) x "
             "every addressing-mode constructor of its r/m operand (RmMem, RmMemDisp, RmMemDisp2, RmReg*, RmXmmReg*, RmRip, "
             "RmAbs, RmAbsLabel) x {defaults; every register of the operand's register class in the instruction's own slots, in "
             "the register r/m alternative and as base of RmMem}; for one class per encoding base class / operand width (all "
             "classes in the thorough tier) also every register in every constructor slot, diagonals, base in {rax rsp rbp r12 "
             "r13} x displacements {-129 -128 -127 -1 0 1 127 128 129, +-2^31 edges, 2^32-1}, boundary immediates of 8/16/32/64 "
             "bits, label distances / addresses (the instruction's own relocation applied); bytes = encode(); TLC: "
             "Agrees(X64.Decode(bytes), tokenised printed text); distinct = distinct (class, mode, tag, printed text, symbol)")
    ctx.assume("x86_64: lexical tokenisation of the printed text (harness/x64gen.py: tokenize); the operand width of a class "
               "whose printed text shows no register (neg [rbx]) is the width of the register alternative of its r/m operand; "
               "'jmpshort' is read as jmp with an 8-bit displacement, 'call *reg' as call reg")
    if ctx.only is None:
        x64gen.laws(ctx, ["fld", "tab", "enc", "adr", "kat"], thorough)
    recs, skipped = x64gen.enc_records("C08", ctx.rng, thorough)
    agg = {}
    for k, n in skipped.items():
        kk = k.split(":")
        agg[kk[0] + ":" + kk[-1]] = agg.get(kk[0] + ":" + kk[-1], 0) + n
    for k, n in sorted(agg.items()):
        ctx.note("x86_64: %d instance(s) %s: nothing emitted, not judged" % (n, k))
    recs = restrict(ctx, recs)
    for r in recs:
        ctx.count(r["key"])
    for r in recs[:: max(1, len(recs) // 3)][:3]:
        ctx.sample({"key": r["key"], "bytes": r["out"]["bytes"]})
    verdicts = x64gen.judge(ctx, recs, ["SyntaxKnown", "Decodable", "EncodingAgrees", "OperandSizeAgrees"], "E: C08 x86_64 records")
    unknown = undec = 0
    for rec, clause, v in verdicts:
        if clause == "SyntaxKnown":
            unknown += 1
        elif clause == "Decodable":
            undec += 1
        else:
            st = v.get("st")
            got = {"ok": "decode to '%s ...'" % v.get("dmn"), "ud": "are an undefined opcode", "short": "are a truncated instruction"}.get(st, st)
            ctx.violation(rec["key"], "bytes %s %s, not the printed '%s'%s [clause %s]" % (
                bytes(rec["out"]["bytes"]).hex(), got, rec["text"],
                " (operand width of the class: %d bits)" % rec["msz"] if clause == "OperandSizeAgrees" else "", clause),
                {"record": rec, "clause": clause, "verdict": v})
    if unknown:
        ctx.note("x86_64: %d instance(s) printed in a syntax outside the modelled assembly: no verdict" % unknown)
    if undec:
        ctx.note("x86_64: %d instance(s) whose bytes are outside the decoder's opcode subset: no verdict" % undec)
    if thorough and ctx.only is None:
        x64gen.objdump_crosscheck(ctx, [r["out"]["bytes"] for r in recs])
