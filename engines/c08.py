"""C08 — instruction encodings agree with the architecture reference (RV32.tla; idioms M + G + E)."""
from harness import asmgen, core

MC_CFG = """CONSTANT Deep = %s
INIT Init
NEXT Next
CHECK_DEADLOCK FALSE
INVARIANT LawDecodeEncode
INVARIANT LawEncodeDecode16
INVARIANT LawExpand
INVARIANT LawFieldRange
INVARIANT LawHiLo
"""


class Engine:
    LEVEL = "model_checking"

    def run(self, ctx):
        thorough = ctx.tier == "thorough"
        ctx.rule("every concrete instruction class of ppci.arch.riscv (isa, rvcisa) x {each register slot swept over "
                 "x0..x31, diagonal, every in-range boundary immediate / displacement enumerated by TLC from "
                 "RV32.FieldRange, symbol addresses for %hi/%lo forms}; bytes = encode() (+ own relocation applied); "
                 "TLC: Decode(bytes) = Canon(Asm(printed text)); distinct = distinct (class, printed text, symbol)")
        ctx.assume("lexical tokenisation of the printed text (harness/asmgen.py: tokenize) and the register-name -> "
                   "number reading x<n> -> n")
        table = asmgen.gen_table(ctx)
        rig = asmgen.AsmRig()
        recs = []
        for which in ("riscv", "rvc"):
            r, skipped = asmgen.enc_records("C08", which, table, ctx.rng, "valid", rig, thorough,
                                            paths=("enc", "asm") if thorough else ("enc",))
            recs += r
            for s in skipped:
                ctx.note("class %s:%s not instantiated / not an instruction" % (which, s))
        if ctx.only is not None:
            recs = [r for r in recs if r["key"] == ctx.only["key"]]
        for r in recs:
            ctx.count(r["key"])
        for r in recs[:: max(1, len(recs) // 4)]:
            ctx.sample({k: r[k] for k in ("key", "out")})
        unknown = 0
        for rec, clause, st in asmgen.judge(ctx, recs, ["EncodingAgrees", "SyntaxKnown"], "E: C08 records"):
            if clause == "SyntaxKnown":
                unknown += 1
                continue
            ctx.violation(rec["key"], "bytes %s do not decode to the printed '%s' [clause %s]" % (
                bytes(rec["out"]["bytes"]).hex(), rec["text"], clause), {"record": rec, "clause": clause})
        if unknown:
            ctx.note("%d instance(s) printed in a syntax outside the modelled RISC-V assembly: no verdict" % unknown)
