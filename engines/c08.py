"""C08 — instruction encodings agree with the architecture reference (RV32.tla, X64.tla; idioms M + G + E)."""
import os

from harness import asmgen, core
from harness import armgen
from harness import x64gen
from harness import mipsgen
from harness import or1kgen
from harness import mbgen
from harness import msp430gen
from harness import avrgen
from harness import m68kgen
from harness import xtensagen


def report(ctx, prop, verdicts, what):
    """Map TLC's rejected records to violations / notes."""
    unknown = 0
    undecodable = 0
    for rec, clause, _ in verdicts:
        if clause == "SyntaxKnown":
            unknown += 1
            continue
        if clause == "Decodable":
            undecodable += 1
            continue
        ctx.violation(rec["key"], what(rec, clause) + " [clause %s]" % clause,
                      {"record": {k: v for k, v in rec.items()}, "clause": clause})
    if unknown:
        ctx.note("%d instance(s) printed in a syntax outside the modelled RISC-V assembly: no verdict" % unknown)
    if undecodable:
        ctx.note("%d instance(s) whose bytes are outside the decoder's subset or are not the printed instruction: "
                 "no verdict here (C08 judges them)" % undecodable)


def restrict(ctx, recs):
    if ctx.only is not None:
        want = {ctx.only.get("key"), ((ctx.only.get("case") or {}).get("record") or {}).get("key")}
        sel = [r for r in recs if r["key"] in want]
        if not sel:
            ctx.note("replay: the case %s was not regenerated (different tier / seed / tree?)" % ctx.only.get("key"))
        return sel
    return recs


class Engine:
    LEVEL = "model_checking"

    def run(self, ctx):
        thorough = (ctx.only.get("tier", ctx.tier) if ctx.only else ctx.tier) == "thorough"
        # one part per instruction set (the riscv part is the rest of this method); a replay runs them in
        # turn until one recognises its case, a normal run forks them side by side (core.run_parts)
        parts = [
            ("arm", lambda c: armgen.c08_part(c, thorough)),        # thumb / arm (tla/Thumb.tla, tla/Arm32.tla)
            ("x86_64", lambda c: x64gen.c08_part(c, thorough)),     # tla/X64.tla
            # mips, or1k, microblaze share one M+G run and one E run (tla/Risc3_MC.tla, Risc3_Eval.tla)
            ("risc3", lambda c: mipsgen.c08_part(c, thorough) or or1kgen.c08_part(c, thorough) or mbgen.c08_part(c, thorough)),
            ("msp430", lambda c: msp430gen.c08_part(c, thorough)),  # tla/Msp430.tla
            ("avr", lambda c: avrgen.c08_part(c, thorough)),        # tla/Avr.tla
            ("m68k", lambda c: m68kgen.c08_part(c, thorough)),      # tla/M68k.tla
            ("xtensa", lambda c: xtensagen.c08_part(c, thorough)),  # tla/Xtensa.tla
            ("riscv", lambda c: self.riscv_part(c, thorough)),      # tla/RV32.tla
        ]
        if ctx.only is not None:
            for _, fn in parts:
                if fn(ctx):
                    return
            return
        core.run_parts(ctx, parts, jobs=int(os.environ.get("VERIF_JOBS", "8")))

    def riscv_part(self, ctx, thorough):
        ctx.rule("every concrete instruction class of ppci.arch.riscv (isa, rvcisa) x {each register slot swept over "
                 "x0..x31, diagonal, every in-range boundary immediate / displacement enumerated by TLC from "
                 "RV32.FieldRange, symbol addresses for %hi/%lo forms}; bytes = encode() (+ own relocation applied; "
                 "thorough: also assembler + linker on the printed text); TLC: Decode(bytes) = Canon(Asm(printed text)); "
                 "macro instructions: the rendering is the printed base instruction / leaves the printed value; "
                 "distinct = distinct (class, path, printed text, symbol)")
        ctx.assume("lexical tokenisation of the printed text (harness/asmgen.py: tokenize) and the register-name -> "
                   "number reading x<n> -> n")
        if ctx.only is None:
            table = asmgen.laws_and_table(ctx, ["h16", "w32", "ins", "hilo"], thorough)
        else:
            table = asmgen.gen_table(ctx)
        rig = asmgen.AsmRig()
        recs = []
        for which in ("riscv", "rvc"):
            r, skipped = asmgen.enc_records("C08", which, table, ctx.rng, "valid", rig, thorough,
                                            paths=("enc", "asm") if thorough else ("enc",))
            recs += r
            for s in skipped:
                ctx.note("class %s:%s not instantiated / not an instruction" % (which, s))
            r, skipped = asmgen.pseudo_records("C08", which, table, ctx.rng, thorough)
            recs += r
            for s, n in sorted(skipped.items()):
                ctx.note("macro %s:%s: %d instance(s) not rendered" % (which, s, n))
        recs = restrict(ctx, recs)
        for r in recs:
            ctx.count(r["key"])
        for r in recs[:: max(1, len(recs) // 4)]:
            ctx.sample({"key": r["key"], "bytes": r.get("out", {}).get("bytes", r.get("seq"))})
        verdicts = asmgen.judge(ctx, recs, ["EncodingAgrees", "MacroMeansWhatItPrints", "SyntaxKnown"], "E: C08 records")
        report(ctx, "C08", verdicts, lambda rec, clause: "bytes %s do not decode to the printed '%s'" % (
            bytes(rec["out"]["bytes"]).hex() if "out" in rec else [bytes(b).hex() for b in rec["seq"]], rec["text"]))
        if thorough and ctx.only is None:
            asmgen.llvm_crosscheck(ctx, [r["out"]["bytes"] for r in recs if "out" in r and r["out"]["ok"]] +
                                   [b for r in recs if "seq" in r for b in r["seq"]])
