"""C30 — compilation is deterministic (Determinism.tla, idioms M + T; claim level "exploration").

The history is produced by real ppci processes: generated C / IR programs are compiled for x86_64, arm
and riscv (object file + partially linked image) by harness/c30_driver.py in FRESH subprocesses
 * under several PYTHONHASHSEED values,
 * in different orders (so that a module is compiled after different unrelated modules in the same process),
 * alone in a process.
Every (key, env, digest) event goes to TLC, which checks AtMostOneDigestPerKey on the whole history.
The allocator's work-list step traces are part of the history (one artefact per function) and are used
to localise a divergence (first differing step) in the report.
"""
import hashlib
import json
import os
import random
import subprocess
import sys

from harness import absprog, core
from harness.tlc import MachineryError

from . import c06

MC_CFG = """CONSTANTS
 Keys = {"k1", "k2"}
 Envs = {"e1", "e2"}
 Digests = {"d1", "d2"}
 MaxLen = %d
INIT Init
NEXT Next
CHECK_DEADLOCK FALSE
INVARIANT Sound
INVARIANT Agrees
INVARIANT Complete
"""
TRACE_CFG = """INIT Init
NEXT Next
CHECK_DEADLOCK FALSE
INVARIANT AtMostOneDigestPerKey
"""
T32 = ["u8", "c8", "i16", "u16", "i32", "u32"]
IT32 = ["i8", "u8", "i16", "u16", "i32", "u32"]
# (march, C types, IR types)
TARGETS = [("x86_64", c06.T64, None), ("arm", ["i32", "u32"], ["i32", "u32"]), ("riscv", T32, IT32),
           ("arm:thumb", ["i32", "u32"], ["i32", "u32"]), ("riscv:rvc", T32, IT32)]


LOW_PF = "int pf(int p0) {\n  return p0 + 1;\n}\n"
ASM_SOURCES = {"arm": ["section code\n ldr r0, =foo\n ldr r1, =bar\n", "section code\n ldr r2, =baz\n"]}


def high_pf(rng):
    """`pf` again, but with many values live across calls (they need callee-saved registers)."""
    k = rng.randrange(5, 9)
    lines = ["extern int ext_f(int);", "int pf(int p0) {"]
    lines += ["  int v%d = ext_f(p0 + %d);" % (i, i) for i in range(k)]
    lines += ["  return %s;" % " + ".join("v%d" % i for i in range(k)), "}"]
    return "\n".join(lines) + "\n"


def stack_params_c(rng):
    """6..8 int parameters; the stack-passed ones (on arm: virtual registers without a defining instruction)
    are first used pairwise in ONE instruction, and enough values stay live (across a call) for the order in
    which the allocator meets them to decide their registers."""
    n = rng.randrange(6, 9)
    ps = ["p%d" % i for i in range(n)]
    tail = ps[4:]
    rng.shuffle(tail)
    ops = ["+", "^", "-", "|", "&"]
    lines = ["extern int ext_f(int);", "int pf(%s) {" % ", ".join("int " + p for p in ps)]
    vs = []
    for k in range(0, len(tail) - 1, 2):
        lines.append("  int x%d = %s %s %s;" % (k, tail[k], rng.choice(ops), tail[k + 1]))
        vs.append("x%d" % k)
    if len(tail) % 2:
        lines.append("  int x9 = %s %s %s;" % (tail[-1], rng.choice(ops), tail[0]))
        vs.append("x9")
    lines.append("  int z = ext_f(p0 %s %s);" % (rng.choice(ops), vs[0]))
    lines.append("  int w = (%s * %s) + z;" % (vs[0], vs[-1]))
    lines.append("  int u = (%s - %s) ^ (%s + %s);" % (tail[0], tail[-1], tail[1], tail[-2]))
    lines.append("  return w + u + p1 + p2 + p3 + %s;" % " + ".join(vs))
    lines.append("}")
    return "\n".join(lines) + "\n"


def jobs_for(ctx, nprog, levels, ntargets):
    rng = ctx.rng
    jobs = []

    def add(kind, seed, march, level, src, jk):
        dig = hashlib.sha256(json.dumps(src).encode()).hexdigest()[:16]
        jobs.append({"key": "C30:%s%d:%s:O%s:src=%s" % (kind, seed, march, level, dig), "kind": jk, "src": src,
                     "march": march, "level": level})

    for march, ctypes, irtypes in TARGETS[:ntargets]:
        # (a) two units that define a function of the SAME NAME with different register needs: whatever a
        #     back-end remembers per function name in its (process-wide, cached) arch object goes stale;
        # (b) functions with 5..8 parameters (stack-passed parameters: virtual registers without a defining
        #     instruction); (c) assembly sources with literal-pool pseudo instructions
        for level in levels:
            add("lowpf", 0, march, level, LOW_PF, "c")
            seed = rng.randrange(1 << 30)
            add("highpf", seed, march, level, high_pf(random.Random(seed)), "c")
            for _ in range(4 if nprog > 3 else 2):
                seed = rng.randrange(1 << 30)
                add("stackparams", seed, march, level, stack_params_c(random.Random(seed)), "c")
            for _ in range(2 if nprog > 3 else 1):
                seed = rng.randrange(1 << 30)
                r2 = random.Random(seed)
                add("manyparams", seed, march, level,
                    c06.pressure_c(r2, ["i32", "u32"], nparams=r2.randrange(5, 9)), "c")
        for n, src in enumerate(ASM_SOURCES.get(march, [])):
            add("asm", n, march, "-", src, "asm")
        for k in range(nprog):
            seed = rng.randrange(1 << 30)
            kind = ("press", "abs", "ir")[k % 3]
            if kind == "press":
                src, jk = c06.pressure_c(random.Random(seed), ctypes), "c"
            elif kind == "abs":
                prog = absprog.Gen(random.Random(seed), max_funcs=3, max_stmts=7, max_depth=3,
                                   types=sorted(set(ctypes))).program()
                src, jk = absprog.render_c(prog), "c"
            else:
                src, jk = [seed, irtypes], "ir"
            dig = hashlib.sha256(json.dumps(src).encode()).hexdigest()[:16]
            for level in levels:
                jobs.append({"key": "C30:%s%d:%s:O%s:src=%s" % (kind, seed, march, level, dig), "kind": jk, "src": src,
                             "march": march, "level": level})
    return jobs


def run_driver(ctx, jobs, hashseed, tag, churn=None):
    jf = os.path.join(ctx.workdir, "jobs_%s.json" % tag)
    of = os.path.join(ctx.workdir, "out_%s.json" % tag)
    with open(jf, "w") as f:
        json.dump({"jobs": jobs, "steps": True, "churn": churn}, f)
    env = dict(os.environ)
    env["PYTHONHASHSEED"] = str(hashseed)
    env["PYTHONDONTWRITEBYTECODE"] = "1"
    repo = os.environ.get("VERIF_REPO")
    env["PYTHONPATH"] = os.pathsep.join([p for p in (repo, core.VERIF, env.get("PYTHONPATH", "")) if p])
    return subprocess.Popen([sys.executable, os.path.join(core.VERIF, "harness", "c30_driver.py"), jf, of], env=env,
                            stdout=subprocess.DEVNULL, stderr=subprocess.PIPE, cwd=core.VERIF), of


def collect(procs):
    out = []
    for tag, hashseed, (p, of) in procs:
        _, err = p.communicate(timeout=3600)
        if p.returncode != 0 or not os.path.exists(of):
            raise MachineryError("C30 driver process %s failed: %s" % (tag, (err or b"").decode()[-1500:]))
        with open(of) as f:
            out.append((tag, hashseed, json.load(f)["results"]))
    return out


class Engine:
    LEVEL = "exploration"

    def run(self, ctx):
        thorough = ctx.tier == "thorough"
        ctx.rule("M: Determinism_MC — for every compiler Comp: Keys x Envs -> Digests (2x2x2) and every history up to "
                 "MaxLen events the incremental invariant = one digest per key, = environment independence once all pairs "
                 "were compiled. T: generated C/IR programs compiled for x86_64, arm, riscv (thorough: + thumb, rvc) at "
                 "-O0/-O2 in fresh processes under PYTHONHASHSEED in {0,1,2,31337,(4242)}, each after a differently "
                 "seeded heap churn (allocation/free of assorted objects, so that object ADDRESS order differs), in "
                 "forward and reversed order and alone in a process; per target also two units defining the same "
                 "function name with low / high callee-saved register need, functions with 5..8 parameters, and (arm) "
                 "assembly sources with literal-pool pseudo instructions; artefacts per compile: saved object file, partially linked image, one allocator "
                 "step trace per function; TLC checks AtMostOneDigestPerKey over the whole history; distinct = distinct "
                 "(program, target, level, artefact) keys observed in at least two environments")
        ctx.assume("a sha256 digest stands for the bytes it was computed from")
        ctx.assume("determinism is explored on generated programs and the listed environments only (claim level: exploration)")
        if ctx.only is None:
            res = ctx.tlc("Determinism_MC", MC_CFG % (6 if thorough else 5), label="Determinism self-test", workers=4)
            for e in res.errors:
                raise MachineryError("Determinism self-test fails in the specification itself: %s" % e)
        nprog, levels, ntargets = (12, ("0", "2"), 5) if thorough else (3, ("2",), 3)
        jobs = jobs_for(ctx, nprog, levels, ntargets)
        if ctx.only is not None:
            want = ctx.only.get("case", {}).get("job_key")
            jobs = [j for j in jobs if j["key"] == want] or jobs
        seeds = [0, 1, 2, 31337] + ([4242] if thorough else [])
        runs = [("seed%s" % s, s, jobs) for s in seeds]
        runs.append(("seed0-reversed", 0, list(reversed(jobs))))
        runs.append(("seed1-reversed", 1, list(reversed(jobs))))
        alone = jobs[:: max(1, len(jobs) // (8 if thorough else 3))]
        alone += [j for j in jobs if ":highpf" in j["key"] or ":lowpf" in j["key"] or j["key"].startswith("C30:asm")]
        for k, j in enumerate(alone):
            runs.append(("alone%d-seed%d" % (k, 7 + k), 7 + k, [j]))
        results = []
        width = 6
        for part in core.chunks(runs, width):   # a few processes at a time
            procs = [(tag, s, run_driver(ctx, js, s, tag, churn=ctx.seed % 100000 + 17 * len(results) + 31 * k))
                     for k, (tag, s, js) in enumerate(part)]
            results += collect(procs)
        # ---- the history ----
        history, detail = [], {}
        jobs_by_key = {j["key"]: j for j in jobs}
        for tag, hashseed, res in results:
            for pos, r in enumerate(res):
                env = "%s#%d" % (tag, pos)
                # artefacts along the pipeline, so that a divergence is attributed to the first stage that
                # shows it: a later stage is keyed by (job, digest of the stage before it) as well — "given the
                # same input, this stage produced the same output" — next to the plain key of the property
                arts = [("outcome", "ok" if r["ok"] else "exc:" + r["exc"])]
                if r["ir"]:
                    arts.append(("ir", r["ir"]))
                if r["ok"]:
                    isel = hashlib.sha256(json.dumps(sorted(r["isel"].items())).encode()).hexdigest()[:12]
                    alloc = hashlib.sha256(json.dumps(sorted(r["alloc"].items())).encode()).hexdigest()[:12]
                    arts += [("isel", isel), ("isel@ir=" + r["ir"][:12], isel)]
                    for fn, steps in sorted(r["alloc"].items()):
                        dg = hashlib.sha256(json.dumps(steps).encode()).hexdigest()[:24]
                        arts += [("alloc:" + fn, dg), ("alloc:%s@isel=%s" % (fn, r["isel"].get(fn, "")[:12]), dg)]
                        detail[(r["key"], "alloc:" + fn, env)] = steps
                    arts += [("object", r["obj"]), ("object@alloc=" + alloc, r["obj"]),
                             ("image", r["img"]), ("image@object=" + r["obj"][:12], r["img"])]
                for art, dig in arts:
                    history.append({"key": "%s:%s" % (r["key"], art), "env": env, "digest": dig, "job": r["key"]})
        seen_envs = {}
        for ev in history:
            seen_envs.setdefault(ev["key"], set()).add(ev["env"])
        for k, envs in seen_envs.items():
            ctx.count(k, nontrivial=len(envs) >= 2)
        ctx.cov["processes"] = len(runs)
        ctx.cov["events"] = len(history)
        ctx.cov["compile_failures_recorded"] = sum(1 for ev in history if ev["digest"].startswith("exc:"))
        for ev in history[:: max(1, len(history) // 4)][:4]:
            ctx.sample({k: ev[k] for k in ("key", "env", "digest")})
        groups, gidx = [], {}
        for n, ev in enumerate(history):
            if ev["key"] not in gidx:
                gidx[ev["key"]] = len(groups)
                groups.append({"key": ev["key"], "events": [], "idx": []})
            groups[gidx[ev["key"]]]["events"].append([ev["env"], ev["digest"]])
            groups[gidx[ev["key"]]]["idx"].append(n)
        path = ctx.trace_file([{"key": gr["key"], "events": gr["events"]} for gr in groups])
        res = ctx.tlc("Determinism_Trace", TRACE_CFG, label="history", env={"TRACE_FILE": path}, continue_=True, workers=4)
        os.unlink(path)
        ctx.cov["traces_validated_against_impl"] += len(runs)
        reported = set()
        for e in res.errors:
            gi, pos = e.last.get("g"), e.last.get("l")
            if (e.kind != "invariant" or not isinstance(gi, int) or not 1 <= gi <= len(groups)
                    or not isinstance(pos, int) or not 1 <= pos <= len(groups[gi - 1]["idx"])):
                raise MachineryError("unexpected TLC error in Determinism run: %s\n%s" % (e, e.text[:1500]))
            ev = history[groups[gi - 1]["idx"][pos - 1]]
            if ev["key"] in reported:
                continue
            reported.add(ev["key"])
            first = next(x for x in history if x["key"] == ev["key"])
            where = ""
            art = ev["key"][len(ev["job"]) + 1:]
            a, b = detail.get((ev["job"], art, first["env"])), detail.get((ev["job"], art, ev["env"]))
            if a is not None and b is not None:
                k = next((i for i in range(min(len(a), len(b))) if a[i] != b[i]), min(len(a), len(b)))
                where = "; allocator traces diverge at step %d of %d/%d" % (k + 1, len(a), len(b))
            job = jobs_by_key.get(ev["job"], {})
            ctx.violation(ev["key"], "two digests for one key: %s in %s, %s in %s%s" % (
                first["digest"], first["env"], ev["digest"], ev["env"], where),
                {"job_key": ev["job"], "artefact": art, "march": job.get("march"), "level": job.get("level"),
                 "source": job.get("src"), "envs": [first["env"], ev["env"]]})
