"""C28 — front-ends fail only with diagnostics (Toolchain.tla, idiom T)."""
import io
import random
import re

from harness import absprog, core, irgen, optcorpus, pipeline
from engines import c29

# valid C whose compile-time evaluation exercises the constant evaluator (shared with C27)
SNIPPETS = [
    ("div", "int g = -7 / 2;"), ("mod", "int g = -7 % 2;"), ("lt", "int g = 1 < 2;"), ("arrmod", "int a[5%3];"),
    ("uchar300", "unsigned char g = 300;"), ("schar200", "signed char g = 200;"), ("castchar", "int g = (char)300;"),
    ("enum", "enum E { A = 1 << 3, B = A | 1 }; int g = B;"), ("bitfield", "struct S { int a : 3; int b : 5 - 3; } s;"),
    ("case", "int f(int x){ switch(x){ case 1+1: return 1; case 7/2: return 2; } return 0; }"),
    ("sizeof", "int g = sizeof(int) * 2;"), ("shl40", "long long g = 1LL << 40;"), ("not", "int g = !5;"),
    ("inv", "int g = ~0;"), ("cond", "int g = 1 ? 2 : 3;"), ("land", "int g = 3 > 2 && 1;"), ("neg1", "unsigned g = -1;"),
    ("short70000", "short g = 70000;"), ("chr", "int g = 'a';"), ("arrsum", "int a[2+1] = {1,2,3};"),
    ("str", "char s[] = \"hi\";"), ("ge", "int g = 2 >= 2;"), ("ne", "int g = 2 != 3;"), ("shr", "int g = -16 >> 2;"),
    ("xor", "int g = 5 ^ 3;"), ("comma_init", "int a[3] = {1, 2};"), ("neglit", "signed char g = -128;"),
    ("ull", "unsigned long long g = 18446744073709551615ull;"), ("statik", "int f(void){ static int k = 3 * 4; return k; }"),
    ("ptrinit", "int v; int *p = &v;"), ("arr2d", "int a[2][3] = {{1,2,3},{4,5,6}};"),
    ("eq", "int g = 2 == 2;"), ("lor", "int g = 0 || 7;"), ("casecast", "int f(int x){ switch(x){ case (char)1: return 1; } return 0; }"),
]


def bad_statements(prog, rng):
    """Statements that are syntactically valid C but violate a constraint (each needs a diagnostic)."""
    gs = [g["n"] for g in prog["globals"] if not g.get("len") and "struct" not in g] or ["zz0"]
    fs = [f["n"] for f in prog["funcs"][:-1]]
    ss = [g["n"] for g in prog["globals"] if "struct" in g]
    out = [("undeclared", "zz9 = 1;"), ("undeclared_use", "int q1 = zz8 + 1;"), ("break_outside", "break;"),
           ("continue_outside", "continue;"), ("assign_literal", "5 = %s;" % gs[0]), ("undef_call", "nofunc(1, 2);"),
           ("redecl", "int q2 = 1; int q2 = 2;"), ("dup_case", "switch (%s) { case 1: break; case 1: break; }" % gs[0]),
           ("deref_int", "*%s = 1;" % gs[0]), ("call_var", "%s(3);" % gs[0]), ("void_value", "int q3 = (void)1;"),
           ("addr_literal", "int *q4 = &5;"), ("member_of_int", "%s.x = 1;" % gs[0]), ("label_undefined", "goto nowhere;"),
           ("case_outside", "case 3: ;")]
    if fs:
        out += [("too_many_args", "%s(1, 2, 3, 4, 5, 6, 7);" % fs[0]), ("assign_func", "%s = 1;" % fs[0])]
    if ss:
        out += [("struct_arith", "int q5 = %s + 1;" % ss[0]), ("struct_cond", "if (%s) { }" % ss[0]),
                ("no_member", "%s.nomember = 1;" % ss[0])]
    return out


def c_traces(ctx, nprog, levels):
    rng = ctx.rng
    out = []
    for k in range(nprog):
        seed = rng.randrange(1 << 30)
        prog = absprog.Gen(random.Random(seed), max_funcs=3, max_stmts=6, max_depth=3).program()
        src = absprog.render_c(prog)
        for lv in levels:
            ev, _, msg = pipeline.run_pipeline(lambda src=src: optcorpus.compile_c(src, "x86_64"), None, lv)
            out.append({"id": "C28:c:valid:O%s:c%d" % (lv, seed), "claim": "C28", "events": ev, "msg": msg, "src": src})
        main = prog["funcs"][-1]["n"]
        for name, stmt in bad_statements(prog, random.Random(seed)):
            bad = re.sub(r"(\b%s\([^)]*\) \{\n)" % main, lambda m: m.group(1) + "  " + stmt + "\n", src, count=1)
            for march in ("x86_64", "arm"):
                ev, _, msg = pipeline.run_pipeline(lambda bad=bad, march=march: optcorpus.compile_c(bad, march), None, "0")
                out.append({"id": "C28:c:invalid:%s:%s:c%d" % (name, march, seed), "claim": "C28", "events": ev, "msg": msg, "src": bad})
    for name, snip in SNIPPETS:
        for march in ("x86_64", "arm"):
            ev, _, msg = pipeline.run_pipeline(lambda snip=snip, march=march: optcorpus.compile_c(snip + "\n", march), None, "2")
            out.append({"id": "C28:c:constexpr:%s:%s" % (name, march), "claim": "C28", "events": ev, "msg": msg, "src": snip})
    return out


CTYPES = ["char", "signed char", "unsigned char", "short", "unsigned short", "int", "unsigned int", "long",
          "unsigned long", "long long", "unsigned long long"]
BINOPS = ["+", "-", "*", "/", "%", "<", "==", "&", "|", "^", "<<", ">>", "&&"]
FEATURES = [
    ("ptr_neg_const", "void *p = (void*)-1;"),
    ("ptr_neg_const_struct", "struct S { int a; void *h; }; struct S s = {1, (void*)-4096};"),
    ("ptr_to_global", "int v; int *p = &v; int **pp = &p;"),
    ("ptr_array_elem", "int a[4]; int *p = &a[2];"),
    ("ptr_string", "char *s = \"abc\"; char t[] = \"xyz\";"),
    ("ptr_array_of_ptr", "int a, b; int *t[2] = {&a, &b};"),
    ("ptr_null_cast", "char *p = (char*)0; long q = (long)(char*)8;"),
    ("fnptr_table", "int f0(int x){return x;} int f1(int x){return -x;} int (*tab[2])(int) = {f0, f1}; int g(int i){ return tab[i&1](i); }"),
    ("fnptr_typedef", "typedef int (*fn_t)(int); int id(int x){return x;} int ap(fn_t f, int v){ return f(v); } int m(void){ return ap(id, 3); }"),
    ("union_plain", "union U { int i; char c[4]; }; int f(union U *u){ return u->i + u->c[0]; }"),
    ("union_selfref_param", "union U { union U *next; int v; }; int f(union U *p){ return p->v; }"),
    ("union_selfref_ret", "union U { union U *next; int v; }; union U *f(union U *p){ return p->next; }"),
    ("union_selfref_typedef", "typedef union N { union N **pp; long v; } N; long f(N *p){ return p->v; }"),
    ("union_selfref_local", "union U { union U *next; int v; }; int f(void){ union U u; u.v = 3; return u.v; }"),
    ("struct_selfref", "struct L { struct L *next; int v; }; int len(struct L *p){ int n = 0; while (p) { n++; p = p->next; } return n; }"),
    ("struct_mutual", "struct B; struct A { struct B *b; }; struct B { struct A *a; int v; }; int f(struct A *x){ return x->b->v; }"),
    ("struct_nested_init", "struct P { int x, y; }; struct R { struct P a, b; }; struct R r = {{1,2},{3,4}}; int f(void){ return r.b.x; }"),
    ("struct_by_value", "struct P { int x; long y; }; struct P mk(int a){ struct P p; p.x = a; p.y = a; return p; } long use(void){ struct P q = mk(3); return q.y; }"),
    ("bitfields", "struct F { unsigned a : 3; int b : 5; unsigned c : 1; }; int f(struct F *p){ p->a = 7; p->b = -3; return p->a + p->b + p->c; }"),
    ("enum_arith", "enum E { A, B = 5, C }; enum E e = C; int f(enum E x){ return x + B; }"),
    ("typedef_chain", "typedef unsigned char u8; typedef u8 byte_t; typedef byte_t arr_t[4]; arr_t g; int f(void){ return sizeof(arr_t) + g[1]; }"),
    ("multidim", "int m[2][3][2]; int f(int i){ m[1][2][1] = i; return m[1][i&1][0]; }"),
    ("long_mix", "long a; unsigned long b; long long c; unsigned long long d; long f(void){ return (a + b) + (c + d) + (a < d) + (c + b); }"),
    ("ll_ul_cond", "long long a; unsigned long b; int f(void){ return a < b ? 1 : 2; }"),
    ("ll_ul_init", "unsigned long g = 1LL + 2UL;"),
    ("char_plain", "char c = -1; int f(void){ return c + (c < 0); }"),
    ("comma_ternary", "int f(int a, int b){ return (a++, b += a, a > b ? a : b); }"),
    ("goto_loop", "int f(int n){ int s = 0; top: if (n > 0) { s += n; n--; goto top; } return s; }"),
    ("switch_dense", "int f(int x){ switch (x) { case 0: return 5; case 1: case 2: return 6; case 7: x++; default: return x; } }"),
    ("do_while_continue", "int f(int n){ int s = 0; do { n--; if (n & 1) continue; s += n; } while (n > 0); return s; }"),
    ("static_local", "int f(void){ static int k = 3; static int *p = &k; return k++ + *p; }"),
    ("sizeof_forms", "struct S { char c; long l; }; int f(void){ int a[7]; return sizeof a + sizeof(struct S) + sizeof(int*) + sizeof(a[0]); }"),
    ("ptr_arith", "int a[8]; int f(int *p, int i){ int *q = p + i; return (int)(q - a) + *(q - 1) + q[1]; }"),
    ("void_ptr_cast", "int f(void *v){ int *p = (int*)v; char *c = (char*)v; return *p + c[1]; }"),
    ("array_param", "int f(int a[], int n){ int s = 0; for (int i = 0; i < n; i++) s += a[i]; return s; }"),
    ("const_volatile", "const int k = 4; volatile int v; int f(void){ v = k; return v + k; }"),
    ("neg_array_init", "signed char t[3] = {-1, -128, 127}; short u[2] = {-32768, 32767};"),
    ("compound_literal_like", "struct P { int x, y; }; int f(void){ struct P p = {1, 2}; struct P q = p; return q.x + q.y; }"),
    ("nested_calls", "int g(int a, int b){ return a - b; } int f(int x){ return g(g(x, 1), g(2, x)); }"),
    ("recursion", "int fib(int n){ return n < 2 ? n : fib(n-1) + fib(n-2); }"),
    ("unsigned_wrap", "unsigned f(unsigned a){ return a * 0x10001u + (a >> 31) + (-a); }"),
    ("casts_all", "long f(long x){ return (char)x + (unsigned char)x + (short)x + (unsigned short)x + (int)x + (unsigned)x; }"),
]


def feature_traces(ctx):
    out = []
    for name, snip in FEATURES:
        for march in ("x86_64", "arm"):
            ev, _, msg = pipeline.run_pipeline(lambda snip=snip, march=march: optcorpus.compile_c(snip + "\n", march), None, "2")
            out.append({"id": "C28:c:feature:%s:%s" % (name, march), "claim": "C28", "events": ev, "msg": msg, "src": snip})
    # every pair of integer types under every binary operator (usual arithmetic conversions table)
    for t1 in CTYPES:
        for t2 in CTYPES:
            body = "\n".join("int f%d(void){ return (int)(a %s b); }" % (k, op) for k, op in enumerate(BINOPS))
            body += "\nint g(void){ return (int)(a < b ? a : b); }"
            unit = "%s a; %s b;\n%s\n" % (t1, t2, body)
            for march in ("x86_64", "arm"):
                ev, _, msg = pipeline.run_pipeline(lambda unit=unit, march=march: optcorpus.compile_c(unit, march), None, "0")
                if ev[-1]["out"] not in ("ok",):
                    # isolate the operator(s) that fail
                    for k, op in enumerate(BINOPS + ["?:"]):
                        one = "%s a; %s b;\nint f(void){ return (int)(%s); }\n" % (
                            t1, t2, "a < b ? a : b" if op == "?:" else "a %s b" % op)
                        ev1, _, msg1 = pipeline.run_pipeline(lambda one=one, march=march: optcorpus.compile_c(one, march), None, "0")
                        out.append({"id": "C28:c:typemix:%s,%s:%s:%s" % (t1.replace(" ", "_"), t2.replace(" ", "_"), op, march),
                                    "claim": "C28", "events": ev1, "msg": msg1, "src": one})
                else:
                    out.append({"id": "C28:c:typemix:%s,%s:all:%s" % (t1.replace(" ", "_"), t2.replace(" ", "_"), march),
                                "claim": "C28", "events": ev, "msg": msg, "src": unit})
    return out


def ir_text(m):
    from ppci.irutils import writer

    f = io.StringIO()
    writer.Writer(f).write(m)
    return f.getvalue()


def read_ir(text):
    from ppci.irutils import reader

    return reader.Reader().read(io.StringIO(text))


def ir_perturbations(text, rng):
    """Token-level edits that keep the text grammatical: other value / block names, other (existing) types."""
    lines = text.split("\n")
    out = []
    vals = sorted(set(re.findall(r"\b([a-z]+\d+) = ", text)))
    blocks = sorted(set(re.findall(r"^\s+(\w+): \{", text, re.M)))
    idx = [i for i, l in enumerate(lines) if " = " in l and l.startswith("    ")]
    if idx and vals:
        i = rng.choice(idx)
        out.append(("undefined_value", "\n".join(lines[:i] + [re.sub(r"= (cast |- |~ |load )?(\w+)", lambda m: "= %sundefd77" % (m.group(1) or ""), lines[i], count=1)] + lines[i + 1:])))
        i = rng.choice(idx)
        out.append(("dup_name", "\n".join(lines[:i + 1] + [lines[i]] + lines[i + 1:])))
        i = rng.choice(idx)
        t = rng.choice(["i8", "u16", "i64", "ptr", "u32"])
        out.append(("type_swap", "\n".join(lines[:i] + [re.sub(r"^(\s+)\w+ ", lambda m: m.group(1) + t + " ", lines[i], count=1)] + lines[i + 1:])))
    jl = [i for i, l in enumerate(lines) if l.strip().startswith("jmp ")]
    if jl:
        i = rng.choice(jl)
        out.append(("jump_undefined_block", "\n".join(lines[:i] + [re.sub(r"jmp \w+", "jmp nosuchblock", lines[i])] + lines[i + 1:])))
    rl = [i for i, l in enumerate(lines) if l.strip().startswith("return ")]
    if rl:
        i = rng.choice(rl)
        out.append(("missing_terminator", "\n".join(lines[:i] + lines[i + 1:])))
    return out


def ir_traces(ctx, nmod):
    rng = ctx.rng
    out = []
    for k in range(nmod):
        seed = rng.randrange(1 << 30)
        try:
            m, _ = irgen.gen_module(random.Random(seed))
            text = ir_text(m)
        except Exception as e:  # writer problems are C15's business
            ctx.cov["ir_writer_failed"] = ctx.cov.get("ir_writer_failed", 0) + 1
            continue
        ev, _, msg = pipeline.run_pipeline(lambda text=text: read_ir(text), None, "2")
        out.append({"id": "C28:ir:valid:irgen%d" % seed, "claim": "C28", "events": ev, "msg": msg, "src": text})
        for name, bad in ir_perturbations(text, random.Random(seed)):
            ev, _, msg = pipeline.run_pipeline(lambda bad=bad: read_ir(bad), None, "0")
            out.append({"id": "C28:ir:invalid:%s:irgen%d" % (name, seed), "claim": "C28", "events": ev, "msg": msg, "src": bad})
    return out


class Engine:
    LEVEL = "exploration"

    def run(self, ctx):
        q = ctx.tier == "quick"
        ctx.rule("C: generated valid programs through c_to_ir + optimize at every level; the same programs with one "
                 "constraint-violating (but grammatical) statement inserted (20 kinds) for x86_64 and arm; 34 constant-expression "
                 "snippets. Textual IR: writer output of harness/irgen.py modules re-read, and grammatical perturbations of it "
                 "(undefined value, duplicate name, other type, undefined block, missing terminator). Stage events are judged by "
                 "Toolchain.tla: FrontendFailsOnlyWithDiagnostics / AcceptedInputDoesNotCrash; distinct = distinct inputs")
        ctx.assume("an exception of class CompilerError (incl. subclasses) or IrParseException is a diagnostic; anything else is internal")
        ctx.assume("C3 inputs come from engines/c37.py: c28_traces (generated valid programs and constraint-violating variants)")
        trs = c_traces(ctx, 6 if q else 60, ("0", "2") if q else ("0", "1", "2", "s")) + ir_traces(ctx, 12 if q else 150)
        trs += feature_traces(ctx)
        try:
            from engines import c37

            c3 = c37.c28_traces(ctx)
            ctx.cov["c3_traces"] = len(c3)
            trs += c3
        except ImportError:
            ctx.cov["c3_traces"] = 0
        for t in trs:
            ctx.count(t["id"])
        for t in trs[:: max(1, len(trs) // 3)][:4]:
            ctx.sample({"id": t["id"], "stages": [e["st"] + ":" + e["out"] for e in t["events"]][-4:]})
        c29.judge(ctx, trs, "C28")
