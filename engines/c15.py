"""C15 — IR text format round-trips (tla/IRRoundTrip*.tla + tla/IR.tla; idioms M + E + T(B)).

For every corpus module m:  m2 = read_module(print_module(m)) with the real writer / reader.  TLC decides
(1) every structural clause of IRRoundTrip on project(m), project(m2) (one state per module and clause),
(2) SameText: the printed forms of m and m2 are equal line by line,
(3) ObsPreserved of IR.tla on [m, m2] over argument vectors.
A writer/reader exception is an outcome the specification has no action for (clause ReadBack)."""
from harness import irrt


class Engine:
    LEVEL = "model_checking"

    def run(self, ctx):
        irrt.run(ctx, "C15", "text")
