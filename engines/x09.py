"""X09 -- the C source printer (ppci.lang.c.printer.CPrinter) emits a program with the same meaning.

Deciding method: TLA+ specifications + TLC.  Python generates inputs, drives ppci's parser / printer / front-end,
re-encodes what came back and maps TLC's verdicts to cases.

  M   Prec_MC.tla     the printer / reader pair of the C expression grammar (Prec.tla): Parse(PrintMin(t)) = t, also with
                      full parentheses, no written pair can be left out, hand-written readings from the standard
  G   Prec_Gen.tla    TLC enumerates the well-typed expression trees over the identifiers of a template and their token strings
  E   Prec_Eval.tla   each string through ppci's parser -> CPrinter.gen_expr -> ppci's parser; TLC judges the printed tokens
                      with the grammar of Prec.tla and ppci's re-read tree against the generated tree
  E   CPrint_Eval.tla whole translation units: the printer runs and its text is accepted again, same functions
  G/T Src_Run.tla + CPrint_IR.tla   abstract programs (harness/absprog.py) and C probes: TLC executes the IR of the source
                      and the IR of the printed text under IR.tla on every argument vector and compares the observations
                      (executions that Src.tla finds fully defined)
"""
import io
import json
import logging
import os
import random
import re

from harness import absprog, project_ir
from harness import core
from harness.tlc import MachineryError
from engines import c01

WORKERS = 8
logging.getLogger().addHandler(logging.NullHandler())

# ------------------------------------------------------------------ M
MC_CFG = """CONSTANTS NFull = %d
NRep = %d
NTyped = %d
NLeaves = %d
GenFull = FALSE
INIT Init
NEXT Next
CHECK_DEADLOCK FALSE
INVARIANT TypeOK
INVARIANT LawRoundTrip
INVARIANT LawFullParens
INVARIANT LawMinimal
INVARIANT LawShorter
INVARIANT LawKnown
INVARIANT LawNormKeeps
"""
MC_ACTIONS = ["PickRoot", "PickFull", "PickRep", "PickTyped", "PickKnown"]


def model_check(ctx, thorough):
    nfull, nrep, ntyped, nleaves = (2, 3, 2, 2) if thorough else (2, 2, 1, 1)
    # no -coverage: TLC's cost model unfolds the mutually recursive reader and exhausts the heap; an ASSUME of Prec_MC
    # states that every action is enabled in a reachable state, so the exhaustive search takes each of them
    res = ctx.tlc("Prec_MC", MC_CFG % (nfull, nrep, ntyped, nleaves), label="Prec_MC laws",
                  continue_=True, workers=WORKERS, coverage=False)
    if res.errors or getattr(res, "postcondition_failed", False):
        msgs = ["%s %s %s" % (e.kind, e.name, {k: str(v)[:300] for k, v in e.last.items()}) for e in res.errors[:5]]
        raise MachineryError("Prec.tla fails its own model check (or a family of states was not reached):\n" + "\n".join(msgs)
                             + res.raw[-1500:])
    ctx.cov["mc_trees"] = res.distinct
    for a in MC_ACTIONS:
        ctx.cov["actions"]["Prec_MC." + a] = 1


# ------------------------------------------------------------------ G/E: expressions
TEMPLATE = "struct S { int f; } s, *q; int a; int b; int *p; int g(int x, int y); int h(void);\nvoid t(void) {\n%s}\n"
_TOK = re.compile(r"\s*(<<=|>>=|->|\+\+|--|<<|>>|<=|>=|==|!=|&&|\|\||[-+*/%&|^]=|[A-Za-z_][A-Za-z_0-9]*|[0-9]+[uUlL]*|.)")


def lex(text):
    return [m.group(1) for m in _TOK.finditer(text.strip()) if m.group(1).strip()]


def type_tokens(typ):
    from ppci.lang.c.nodes import types as T
    if isinstance(typ, T.BasicType):
        return str(typ.type_id).split()
    if isinstance(typ, T.PointerType):
        return type_tokens(typ.element_type) + ["*"]
    return ["?" + type(typ).__name__]


def proj(e):
    """ppci's expression AST as a Prec.tla tree: a pure re-encoding (conversions stay cast nodes; Prec.Norm forgets them)."""
    from ppci.lang.c.nodes import expressions as E
    if isinstance(e, E.BinaryOperator):
        return {"k": "bin", "op": str(e.op), "a": proj(e.a), "b": proj(e.b)}
    if isinstance(e, E.TernaryOperator):
        return {"k": "cond", "a": proj(e.a), "b": proj(e.b), "c": proj(e.c)}
    if isinstance(e, E.UnaryOperator):
        op = str(e.op)
        if op in ("x++", "x--"):
            return {"k": "post", "op": op[1:], "a": proj(e.a)}
        if op in ("++x", "--x"):
            return {"k": "pre", "op": op[:2], "a": proj(e.a)}
        return {"k": "pre", "op": op, "a": proj(e.a)}
    if isinstance(e, E.Sizeof):
        if isinstance(e.sizeof_typ, E.CExpression):
            return {"k": "pre", "op": "sizeof", "a": proj(e.sizeof_typ)}
        return {"k": "sizeoftype", "ty": type_tokens(e.sizeof_typ)}
    if isinstance(e, E.Cast):
        return {"k": "cast", "ty": type_tokens(e.to_typ), "a": proj(e.expr)}
    if isinstance(e, E.VariableAccess):
        return {"k": "id", "n": str(e.name)}
    if isinstance(e, E.Literal):
        return {"k": "num", "n": str(e.value)}
    if isinstance(e, E.FieldSelect):
        return {"k": "mem", "op": ".", "a": proj(e.base), "f": str(e.field.name)}
    if isinstance(e, E.ArrayIndex):
        return {"k": "idx", "a": proj(e.base), "b": proj(e.index)}
    if isinstance(e, E.FunctionCall):
        return {"k": "call", "a": proj(e.callee), "args": [proj(x) for x in e.args]}
    return {"k": "other:" + type(e).__name__}


def parse_exprs(strings):
    """The expression statements of the template filled with the strings, or raises."""
    from ppci.lang.c import parse_text
    from ppci.lang.c.nodes import statements as S
    ast = parse_text(TEMPLATE % "".join("  %s;\n" % s for s in strings))
    fn = [d for d in ast.declarations if d.name == "t"][0]
    sts = fn.body.statements
    if len(sts) != len(strings) or not all(isinstance(x, S.ExpressionStatement) for x in sts):
        raise ValueError("statement count")
    return [x.expression for x in sts]


def parse_many(strings):
    """[{ok, t | exc}] per string; a batch that ppci rejects is split until the culprit is alone."""
    if not strings:
        return []
    try:
        return [("ast", e) for e in parse_exprs(strings)]
    except Exception as e:  # CompilerError, or anything a changed ppci raises
        if len(strings) == 1:
            return [("exc", type(e).__name__)]
        h = len(strings) // 2
        return parse_many(strings[:h]) + parse_many(strings[h:])


def tree_features(t):
    f = set()

    def walk(x):
        if isinstance(x, dict):
            if x.get("k") in ("pre", "post") or (x.get("k") == "mem" and x.get("op") == "->"):    # ppci holds a->f as (*a).f
                f.add("U")
            if x.get("k") == "call":
                f.add("F")
            for v in x.values():
                walk(v)
        elif isinstance(x, list):
            for v in x:
                walk(v)
    walk(t)
    return "".join(sorted(f)) or "-"


EXPR_INV = ["SourceIsPrint", "PrinterRuns", "PrintedIsC", "PrintedReadsSame", "RereadSame"]
EXPR_WHAT = {
    "SourceIsPrint": "driver error: the source string is not the specification's print of the tree",
    "PrinterRuns": "CPrinter.gen_expr raised on an expression ppci parsed",
    "PrintedIsC": "the printed expression is not a C expression (grammar of Prec.tla)",
    "PrintedReadsSame": "the printed expression reads, by the C grammar, as a different tree (precedence / associativity lost)",
    "RereadSame": "ppci's own parser rejects the printed expression or reads a different tree from it",
}


def expression_stage(ctx, thorough):
    import io as _io
    from ppci.lang.c import CPrinter
    out = os.path.join(ctx.workdir, "gen_trees.json")
    cfg = "CONSTANTS NTyped = 2\nGenFull = %s\nINIT GInit\nNEXT GNext\nCHECK_DEADLOCK FALSE\n" % ("TRUE" if thorough else "FALSE")
    ctx.tlc("Prec_Gen", cfg, label="Prec_Gen: well-typed trees", env={"OUT_FILE": out}, workers=2, coverage=False)
    try:
        with open(out) as fh:
            gen = json.load(fh)
        os.unlink(out)
    except OSError as e:
        raise MachineryError("Prec_Gen wrote no trees: %s" % e)
    ctx.cov["expr_trees_generated"] = len(gen)
    gen.sort(key=lambda r: json.dumps(r["t"], sort_keys=True))
    want = 6000 if thorough else 1200
    if ctx.only is not None:
        src = (ctx.only.get("case") or {}).get("record", {}).get("src")
        gen = [r for r in gen if src in (r["min"], r["full"])] if src else gen[:0]
    elif len(gen) > want:
        small = [r for r in gen if len(r["min"]) <= 4]
        rest = [r for r in gen if len(r["min"]) > 4]
        gen = small + [rest[k] for k in sorted(ctx.rng.sample(range(len(rest)), max(0, want - len(small))))]
    recs = []
    for k, r in enumerate(gen):
        toks = r["full"] if k % 3 == 2 else r["min"]
        recs.append({"key": "X09:expr:f=%s:%s" % (tree_features(r["t"]), " ".join(toks)), "t": r["t"], "src": toks})
    B = 120
    printer = CPrinter(_io.StringIO())
    for b in range(0, len(recs), B):
        batch = recs[b:b + B]
        first = parse_many([" ".join(r["src"]) for r in batch])
        texts = []
        for r, (kind, val) in zip(batch, first):
            if kind == "exc":
                r["p1"] = {"ok": False, "t": {"k": "exc:" + val}}
                r["out"] = {"ok": False, "toks": []}
                r["p2"] = {"ok": False, "t": {"k": "none"}}
                continue
            try:
                r["p1"] = {"ok": True, "t": proj(val)}
                text = printer.gen_expr(val)
                if not isinstance(text, str):
                    raise TypeError("gen_expr returned %s" % type(text).__name__)
                r["out"] = {"ok": True, "toks": lex(text)}
                r["text"] = text
                texts.append(r)
            except Exception as e:
                r.setdefault("p1", {"ok": False, "t": {"k": "exc:" + type(e).__name__}})
                r["out"] = {"ok": False, "toks": [], "exc": type(e).__name__}
                r["p2"] = {"ok": False, "t": {"k": "none"}}
        second = parse_many([r["text"] for r in texts])
        for r, (kind, val) in zip(texts, second):
            if kind == "exc":
                r["p2"] = {"ok": False, "t": {"k": "exc:" + val}}
            else:
                try:
                    r["p2"] = {"ok": True, "t": proj(val)}
                except Exception as e:
                    r["p2"] = {"ok": False, "t": {"k": "exc:" + type(e).__name__}}
    rejected = sum(1 for r in recs if not r["p1"]["ok"])
    ctx.cov["expr_rejected_by_parser_not_judged"] = rejected
    for r in recs:
        ctx.count(r["key"], nontrivial=r["p1"]["ok"])
    for r in recs[:: max(1, len(recs) // 3)][:3]:
        ctx.sample({"key": r["key"], "printed": r.get("text")})
    cfg = "INIT Init\nNEXT Next\nCHECK_DEADLOCK FALSE\n" + "".join("INVARIANT %s\n" % x for x in EXPR_INV)
    core.eval_records(ctx, "Prec_Eval", cfg, recs, keyfn=lambda r: r["key"],
                      whatfn=lambda r, e: "%s: source `%s`, printed `%s`" % (EXPR_WHAT.get(e.name, e.name), " ".join(r["src"]), r.get("text")),
                      label="expressions", workers=WORKERS, coverage=False)


# ------------------------------------------------------------------ programs
C_PROBES = [
    # (name, source, function, parameter widths in bytes (signed), vectors)
    ("unary", "int f(int a, int b) { return -a + ~b - !a + (- -b) + -(a + b) * 2; }", "f", [[0, 0], [3, 5], [-7, 2], [1, -1]]),
    ("incdec", "int f(int a, int b) { int r = a++; r += ++b; r -= --a; r += b--; return r * 3 + a - b; }", "f", [[0, 0], [3, 5], [-7, 2]]),
    ("precedence", "int f(int a, int b) { return a - (b - 3) - 1 + (a + b) * 2 - a * b % 7 + ((a & 3) << 2) + (a < b == 1) + (a | b & 5 ^ 1); }", "f",
     [[0, 0], [3, 5], [9, 2], [100, 7]]),
    ("assign-cond-comma", "int f(int a, int b) { int c; int d; c = d = a + 1; c += (d = b, d * 2); return (a > b ? a : b ? c : d) + ((a, b) + c); }", "f",
     [[0, 0], [3, 5], [9, 2], [-1, 0]]),
    ("address-deref", "int g1[4] = {1, 2, 3, 4}; int f(int a, int b) { int *p = &g1[1]; int x = a; int *q = &x; *q += 2; *p = b; p++; *p++ = a; "
                      "return *q + *(g1 + 3) + p[-1] + *&g1[0]; }", "f", [[0, 0], [3, 5]]),
    ("for-decl", "int f(int a, int b) { int s = 0; for (int i = 0; i < (a & 7); i++) s += i * b; for (;;) { s++; if (s > 3) break; } return s; }", "f",
     [[0, 0], [3, 5], [7, 2]]),
    ("dowhile", "int f(int a, int b) { int n = 0; do { n += b; a--; } while (a > 0); do n++; while (n < 3); return n; }", "f", [[0, 0], [3, 5]]),
    ("switch", "int f(int a, int b) { int r = 0; switch (a & 3) { case 0: r = 1; break; case 1: r = 2; case 2: r += b; break; default: r = 9; } return r; }", "f",
     [[0, 0], [1, 5], [2, 5], [3, 1]]),
    ("empty-statement", "int f(int a, int b) { int n = 0; while (a-- > 0 && n++ < 5) ; if (b) ; else n = 30; for (; n < 3; n++) ; return n + a; }", "f",
     [[0, 0], [3, 5], [9, 0]]),
    ("if-else-nesting", "int f(int a, int b) { int r = 0; if (a) { if (b) r = 1; } else r = 2; if (a) if (b) r += 10; else r += 20; return r; }", "f",
     [[0, 0], [1, 0], [1, 1], [0, 1]]),
    ("goto-label", "int f(int a, int b) { int n = 0; again: n += b; a--; if (a > 0) goto again; if (n > 100) goto out; n++; out: return n; }", "f",
     [[0, 0], [3, 5], [2, 60]]),
    ("call", "int sq(int x) { return x * x; } int add(int x, int y) { return x - y; } int f(int a, int b) { return add(sq(a), b) + sq(add(b, 1)); }", "f",
     [[0, 0], [3, 5]]),
    ("struct", "struct P { char c; int i; short s[2]; }; struct P gp = {1, 2, {3, 4}}; struct P gq; "
               "int f(int a, int b) { gq = gp; gq.i += a; gq.s[1] = b; struct P *r = &gq; r->c = 7; return gq.i + gq.s[1] + r->c + sizeof(struct P); }", "f",
     [[0, 0], [3, 5]]),
    ("struct-recursive", "struct N { int v; struct N *next; }; struct N n1; struct N n2; "
                         "int f(int a, int b) { n1.next = &n2; n2.next = &n1; n2.v = a; n1.v = b; return n1.next->v * 10 + n1.next->next->v; }", "f",
     [[0, 0], [3, 5]]),
    ("union", "union U { int i; unsigned char b[4]; }; union U u; int f(int a, int b) { u.i = a; u.b[1] = b; return u.i + u.b[0]; }", "f", [[0, 0], [258, 5]]),
    ("bitfield", "struct B { unsigned a : 3; int b : 5; unsigned c; }; struct B gb; "
                 "int f(int a, int b) { gb.a = a; gb.b = b; gb.c = sizeof(struct B); return gb.a + gb.b * 16 + gb.c * 1024; }", "f", [[0, 0], [13, 5], [7, 31]]),
    ("enum", "enum E { A, B = 5, C }; int f(int a, int b) { enum E e = C; if (a == A) e = B; return e + B * b; }", "f", [[0, 0], [3, 5]]),
    ("pointer-to-array", "int m[2][3] = {{1, 2, 3}, {4, 5, 6}}; int (*pa)[3]; int *ap[2]; "
                         "int f(int a, int b) { pa = m; ap[0] = &m[0][1]; ap[1] = &m[1][1]; return (*(pa + 1))[a & 1] * 100 + pa[0][2] * 10 + *ap[b & 1] + sizeof(pa) + sizeof(ap); }",
     "f", [[0, 0], [3, 5]]),
    ("function-pointer", "int inc(int x) { return x + 1; } int dbl(int x) { return x * 2; } int (*fp)(int); int (*tab[2])(int); "
                         "int f(int a, int b) { fp = inc; tab[0] = dbl; tab[1] = fp; return fp(a) + tab[b & 1](a) * 10; }", "f", [[0, 0], [3, 5]]),
    ("qualifiers", "const int k = 7; volatile unsigned char vb = 3; const int ka[3] = {1, 2, 3}; "
                   "int f(int a, int b) { const int *p = &k; int *const cp = &a; vb = a; *cp += 1; return *p + vb + ka[b & 1] + a; }", "f", [[0, 0], [300, 5]]),
    ("initialisers", "int ga[4] = {1, 2}; char str[4] = \"ab\"; short gm[2][2] = {{1, 2}, {3, 4}}; long long big = 4294967296; unsigned ug = 4000000000u; "
                     "int f(int a, int b) { int la[3] = {a, b}; return ga[1] + ga[3] + str[1] + str[2] + gm[1][0] + (int)(big >> 30) + (int)(ug >> 24) + la[1] + la[2]; }",
     "f", [[0, 0], [3, 5]]),
    ("literal-suffix", "long long f(int a, int b) { return (4294967295u + 1) + (1u - 2 < 0) * 10 + (2147483648 > 0) * 100 + 5ll * a + (sizeof(1ll) == 8) * 1000; }", "f",
     [[0, 0], [3, 5]]),
    ("char-string-literals", "int f(int a, int b) { char *s = \"a\\n\\\"b\"; return s[1] + s[2] * 2 + 'x' + '\\n' + (a ? 'A' : '\\0'); }", "f", [[0, 0], [3, 5]]),
    ("typedef", "typedef unsigned char u8; typedef u8 (*fn)(u8); u8 idf(u8 x) { return x; } int f(int a, int b) { fn q = idf; u8 z = 200; return q(z + a) + sizeof(fn); }", "f",
     [[0, 0], [100, 5]]),
    ("static-extern", "static int cnt = 2; extern int gx; int gx = 5; static int hh(int x) { return x * cnt; } int f(int a, int b) { cnt += b; return hh(a) + gx; }", "f",
     [[0, 0], [3, 5]]),
    ("narrow-types", "signed char sc = -3; unsigned short us = 65535; short ss = -2; unsigned char uc = 250; "
                     "long long f(int a, int b) { sc += a; uc += b; return sc + us * 2 + ss + uc + (unsigned char)(a + 250) + (signed char)b; }", "f", [[0, 0], [3, 10], [100, 100]]),
    ("plain-binary", "int f(int a, int b) { int v = a + 2 * 3 - (b - 1); while (v > 10) { v -= 3; } if (v < 0 || a == b && v != 4) v = 1; return v; }", "f", [[0, 0], [30, 5], [4, 4]]),
]


def print_source(src):
    """ppci's parser and printer on one translation unit: (text | None, [ok, exc] of the printer)."""
    from ppci.lang.c import parse_text, CPrinter
    ast = parse_text(src)          # raises when ppci does not accept the source: not a case
    f = io.StringIO()
    try:
        CPrinter(f).print(ast)
        return f.getvalue(), {"ok": True, "exc": ""}
    except Exception as e:
        return None, {"ok": False, "exc": type(e).__name__}


def compile_c(src):
    from ppci import api
    m = api.c_to_ir(io.StringIO(src), "x86_64")
    return project_ir.project_module(m, 8)


IR_INT = c01.IR_INT


def build_item(ctx, it, stats):
    """Attach to an item the IR of the source, the printed text and the IR of the printed text.  Returns the
    CPrint_Eval record, or None when ppci does not accept the source (not a case)."""
    try:
        it["pm1"] = compile_c(it["src"])
        text, pr = print_source(it["src"])
    except Exception as e:
        stats["source_rejected"] = stats.get("source_rejected", 0) + 1
        it["skip"] = type(e).__name__
        return None
    rec = {"key": it["key"], "print": pr, "reparse": {"ok": False, "exc": "not printed"},
           "fns": {"orig": sorted(f["name"] for f in it["pm1"]["funcs"]), "printed": []}}
    it["printed"] = text
    if text is not None:
        try:
            it["pm2"] = compile_c(text)
            rec["reparse"] = {"ok": True, "exc": ""}
            rec["fns"]["printed"] = sorted(f["name"] for f in it["pm2"]["funcs"])
        except Exception as e:
            rec["reparse"] = {"ok": False, "exc": type(e).__name__ + ": " + str(e)[:120]}
    return rec


def ir_args(it):
    fi = [g for g in it["pm1"]["funcs"] if g["name"] == it["fn"]]
    if not fi or any(p["ty"] not in IR_INT for p in fi[0]["params"]) or any(len(v) != len(fi[0]["params"]) for v in it["vecs"]):
        return None
    return [[project_ir.limbs(v, IR_INT[q["ty"]]) for v, q in zip(vec, fi[0]["params"])] for vec in it["vecs"]]


IRP_INV = ["PrintedStaysDefined", "PrintedSameReturn", "PrintedSameCalls", "PrintedSameGlobals"]
IRP_CFG = "INIT Init\nNEXT Next\nCHECK_DEADLOCK FALSE\n" + "".join("INVARIANT %s\n" % x for x in IRP_INV)
TU_INV = ["PrinterRuns", "PrintedIsC", "SameFunctions"]
TU_CFG = "INIT Init\nNEXT Next\nCHECK_DEADLOCK FALSE\n" + "".join("INVARIANT %s\n" % x for x in TU_INV)
TU_WHAT = {"PrinterRuns": "CPrinter.print raised on a translation unit that ppci parsed",
           "PrintedIsC": "ppci rejects the text that CPrinter printed for a translation unit it had accepted",
           "SameFunctions": "the printed translation unit does not define the same functions"}


def judge_items(ctx, items, label, stats):
    """TLC judges the items; returns the keys with a violation."""
    failing = set()
    recs = []
    for it in items:
        r = build_item(ctx, it, stats)
        if r is not None:
            recs.append(r)
    by_key = {it["key"]: it for it in items}
    res = core.eval_records(ctx, "CPrint_Eval", TU_CFG, recs, keyfn=lambda r: r["key"],
                            whatfn=lambda r, e: "%s (%s / %s)\n--- source\n%s\n--- printed\n%s" % (
                                TU_WHAT.get(e.name, e.name), r["print"]["exc"], r["reparse"]["exc"], by_key[r["key"]]["src"][:600],
                                (by_key[r["key"]].get("printed") or "")[:600]),
                            label="translation units (%s)" % label, workers=4, coverage=False)
    if res is not None:
        for e in res.errors:
            failing.add(recs[e.last["i"] - 1]["key"])
    run = [it for it in items if "pm2" in it]
    for it in run:
        it["ir_argv"] = ir_args(it)
    run = [it for it in run if it["ir_argv"]]
    if not run:
        return failing
    # Src.tla observations for the items that come from an abstract program
    withprog = [it for it in run if "prog" in it]
    obs = {}
    if withprog:
        for it in withprog:
            it["f"] = [x for x in it["prog"]["funcs"] if x["n"] == it["prog"]["main"]][0]
        o = c01.run_src(ctx, withprog, "Src executions (%s)" % label)
        for k, it in enumerate(withprog):
            it["obs"] = [o[(k, a)] for a in range(len(it["vecs"]))]
    cases = []
    for it in run:
        c = {"id": it["key"], "mods": [it["pm1"], it["pm2"]], "fn": it["fn"], "argv": it["ir_argv"], "ext": it.get("ext", []),
             "fuel": 60000}
        if "obs" in it:
            c["obs"] = it["obs"]
            c["fuel"] = min(60000, 2000 + 100 * max(x["steps"] for x in it["obs"]))
            for x in it["obs"]:
                stats["src:" + x["status"]] = stats.get("src:" + x["status"], 0) + 1
        cases.append(c)
    path = ctx.trace_file(cases, "ir.json")
    res = ctx.tlc("CPrint_IR", IRP_CFG, label="IR of source vs IR of printed text (%s)" % label, env={"TRACE_FILE": path}, continue_=True,
                  workers=WORKERS, heap="12g", coverage=False)
    try:
        os.unlink(path)
    except OSError:
        pass
    bad = {}
    for e in res.errors:
        st = e.last
        i, av = st.get("i"), st.get("av")
        if e.kind != "invariant" or not isinstance(i, int) or i < 1 or not isinstance(av, int):
            raise MachineryError("unexpected TLC error in the CPrint_IR run: %s\n%s" % (e, e.text[:1500]))
        bad.setdefault(i - 1, []).append((av - 1, e.name, st))
    for k, it in enumerate(run):
        n = len(it["vecs"])
        judged = n if "obs" not in it else sum(1 for x in it["obs"] if x["status"] == "ok")
        for a in range(n):
            if "obs" not in it or it["obs"][a]["status"] == "ok":
                ctx.count("%s|%s" % (it["key"], it["vecs"][a]))
            else:
                ctx.count(None)
        ctx.cov["traces_validated_against_impl"] += judged
        if k in bad:
            av, clause, st = bad[k][0]
            failing.add(it["key"])
            ctx.violation(it["key"], "%s(%s): the IR of the source and the IR of the printed text differ [%s]: printed text gives status=%s%s ret=%s calls=%s"
                          "\n--- source\n%s\n--- printed\n%s" % (
                              it["fn"], ", ".join(map(str, it["vecs"][av])), clause, st.get("status"),
                              (" (%s)" % st.get("why")) if st.get("why") else "", st.get("ret"), str(st.get("calls"))[:120],
                              it["src"][:700], it["printed"][:700]),
                          {"item": it["key"], "source": it["src"], "printed": it["printed"], "args": it["vecs"][av], "clause": clause})
    return failing


# ---- classes of constructs that the random programs avoid when their probe fails in this run
CLASS_OF_PROBE = {"unary": "unary", "incdec": "incdec", "for-decl": "incdec", "dowhile": "dowhile", "switch": "switch", "struct": "struct",
                  "call": "call", "literal-suffix": "literal", "address-deref": "unary"}


def avoid(prog, classes):
    """Another abstract program without the construct classes (nothing relies on equivalence: Src.tla runs the result)."""
    L = lambda v: {"k": "lit", "ty": "i32", "v": v}     # noqa: E731
    B = lambda op, a, b: {"k": "bin", "op": op, "a": a, "b": b}   # noqa: E731
    prog = json.loads(json.dumps(prog))
    structs = {g["n"]: g for g in prog["globals"] if "struct" in g}
    if "struct" in classes and structs:
        gl = []
        for g in prog["globals"]:
            if "struct" in g:
                for m, v in zip(absprog.flat_fields(g), g["init"]):
                    gl.append({"n": "%s_%s" % (g["n"], m["f"]), "ty": m["ty"], "len": 0, "init": [v]})
            else:
                gl.append(g)
        prog["globals"] = gl
    if "unary" in classes:      # a negative initialiser is written with the unary minus
        for g in prog["globals"]:
            g["init"] = [abs(v) for v in g["init"]]

    def ex(e):
        k = e["k"]
        if k == "lit":
            if "literal" in classes and e["ty"] != "i32":
                v = min(e["v"], (1 << 63) - 1)
                return {"k": "cast", "ty": e["ty"], "a": {"k": "lit", "ty": "i32" if v < (1 << 31) else "i64", "v": v}}
            return e
        if k == "var":
            return e
        if k == "fld":
            return {"k": "var", "n": "%s_%s" % (e["s"], e["f"])} if "struct" in classes else e
        if k in ("idx", "deref", "addr"):
            return dict(e, e=ex(e["e"]))
        if k == "un":
            a = ex(e["a"])
            if "unary" in classes:
                return B("-", L(0), a) if e["op"] == "-" else B("^", a, L(2147483647)) if e["op"] == "~" else B("==", a, L(0))
            return dict(e, a=a)
        if k == "bin":
            return dict(e, a=ex(e["a"]), b=ex(e["b"]))
        if k == "cast":
            return dict(e, a=ex(e["a"]))
        if k == "cond":
            return dict(e, c=ex(e["c"]), a=ex(e["a"]), b=ex(e["b"]))
        if k == "call":
            if "call" in classes:
                args = [ex(a) for a in e["args"] if a["k"] != "addr"]
                return B("+", args[0], L(1)) if args else L(3)
            return dict(e, args=[ex(a) for a in e["args"]])
        raise AssertionError(k)

    def drop_continue(ss):
        out = []
        for s in ss:
            if s["k"] == "continue":
                continue
            if s["k"] == "if":
                s = dict(s, t=drop_continue(s["t"]), f=drop_continue(s["f"]))
            elif s["k"] == "seq":
                s = dict(s, b=drop_continue(s["b"]))
            elif s["k"] == "switch":
                s = dict(s, cases=[dict(c, b=drop_continue(c["b"])) for c in s["cases"]])
            out.append(s)
        return out

    def st(ss, inloop):
        out = []
        for s in ss:
            k = s["k"]
            if k in ("decl", "ret", "expr"):
                out.append(dict(s, e=ex(s["e"])))
            elif k == "declarr":
                out.append(dict(s, init=[abs(v) for v in s["init"]] if "unary" in classes else s["init"]))
            elif k == "asg":
                out.append(dict(s, lhs=ex(s["lhs"]), e=ex(s["e"])))
            elif k == "inc":
                if "incdec" in classes:
                    out.append({"k": "asg", "lhs": ex(s["lhs"]), "op": "+=" if s["op"] == "++" else "-=", "e": L(1)})
                else:
                    out.append(dict(s, lhs=ex(s["lhs"])))
            elif k == "if":
                out.append(dict(s, c=ex(s["c"]), t=st(s["t"], inloop), f=st(s["f"], inloop)))
            elif k in ("while", "dowhile"):
                out.append(dict(s, k="while" if "dowhile" in classes else k, c=ex(s["c"]), b=st(s["b"], True)))
            elif k == "for":
                if "incdec" in classes:
                    v = {"k": "var", "n": s["v"]}
                    body = st(drop_continue(s["b"]), True) + [{"k": "asg", "lhs": v, "op": "+=", "e": L(1)}]
                    out.append({"k": "seq", "b": [{"k": "decl", "n": s["v"], "ty": "i32", "e": L(s["lo"])},
                                                  {"k": "while", "c": B("<", v, ex(s["hi"])), "b": body}]})
                else:
                    out.append(dict(s, hi=ex(s["hi"]), b=st(s["b"], True)))
            elif k == "seq":
                out.append(dict(s, b=st(s["b"], inloop)))
            elif k == "switch":
                if "switch" in classes:
                    c0 = s["cases"][0]
                    body = st(c0["b"], inloop)
                    if not inloop:
                        body = [x for x in body if x["k"] != "break"]
                    out.append({"k": "if", "c": B("==", ex(s["e"]), L(c0["v"] or 0)), "t": body, "f": []})
                else:
                    out.append(dict(s, e=ex(s["e"]), cases=[dict(c, b=st(c["b"], inloop)) for c in s["cases"]]))
            else:
                out.append(dict(s))
        return out

    prog["funcs"] = [dict(f, body=st(f["body"], False)) for f in prog["funcs"]]
    if "call" in classes:
        prog["externs"] = []
        prog["funcs"] = [f for f in prog["funcs"] if f["n"] == prog["main"]]
    return prog


def has_break_outside_loop(prog):
    def walk(ss, inloop):
        for s in ss:
            k = s["k"]
            if k in ("break", "continue") and not inloop:
                return True
            if k == "if" and (walk(s["t"], inloop) or walk(s["f"], inloop)):
                return True
            if k == "seq" and walk(s["b"], inloop):
                return True
            if k in ("while", "dowhile", "for") and walk(s["b"], True):
                return True
            if k == "switch" and any(walk(c["b"], True) for c in s["cases"]):
                return True
        return False
    return any(walk(f["body"], False) for f in prog["funcs"])


def random_items(ctx, n, nvec, classes):
    out = []
    for _ in range(n):
        seed = ctx.rng.randrange(1 << 30)
        prng = random.Random(seed)
        gen = absprog.Gen(prng, max_funcs=3, max_stmts=6, max_depth=3, types=absprog.TYPES10, features=absprog.C01_FEATURES)
        prog = gen.program()
        if classes:
            prog = avoid(prog, classes)
            if has_break_outside_loop(prog):
                continue
        f, vecs = absprog.arg_vectors(prog, prng, nvec)
        ext = [{"name": x["n"], "rets": [absprog.word(prng.randrange(-5, 40), 4) for _ in range(6)]} for x in prog["externs"]]
        out.append({"key": "X09:prog:c%d%s" % (seed, "".join("-" + c for c in classes)), "prog": prog, "fn": f["n"], "vecs": vecs, "ext": ext,
                    "src": absprog.render_c(prog)})
    return out


class Engine:
    LEVEL = "model_checking"

    def run(self, ctx):
        thorough = ctx.tier == "thorough"
        ctx.rule("M: Prec_MC -- every expression tree with <= 2 operators over the full C operator table (thorough: two kinds of leaves) and "
                 "<= 2 (thorough 3) operators over one operator per level and associativity, every tree of the replay domain, 35 hand-written "
                 "readings.  Expressions: TLC enumerates the well-typed trees with <= 2 operators over the identifiers of a template "
                 "(Prec_Gen); a seeded sample (quick 1200, thorough 6000, all with <= 4 tokens) goes as minimal or fully parenthesised "
                 "string through ppci's parser, CPrinter.gen_expr and ppci's parser again; Prec_Eval judges.  Programs: 27 C probes (one "
                 "per construct of statements, expressions and declarations), the 25 micro programs of C01 and seeded random programs of "
                 "harness/absprog.py (quick 30 x 5 vectors, thorough 150 x 8; without the construct classes whose probe failed in this "
                 "run): parse, print, compile both texts; CPrint_Eval judges that the printed text is accepted, CPrint_IR that both IR "
                 "modules give the same observation on every vector that Src.tla finds fully defined.  distinct = (program, vector) pairs "
                 "compared + expression strings judged")
        ctx.assume("harness/absprog.py render_c / to_src are faithful; harness/project_ir.py reports the IR faithfully; IR.tla is the meaning of ppci IR")
        ctx.assume("engines/x09.py proj / lex re-encode ppci's expression AST and the printed text without interpretation; ppci's parser is "
                   "the reader of the printed text (a record is judged only when it read the generated string as Prec.tla does)")
        stats = {}
        if ctx.only is None:
            model_check(ctx, thorough)
        if ctx.only is None or ":expr:" in ctx.only.get("key", ""):
            expression_stage(ctx, thorough)
        if ctx.only is not None and ":expr:" in ctx.only.get("key", ""):
            return
        # ---- stage 1: probes
        items = [{"key": "X09:cprobe:" + name, "src": src, "fn": fn, "vecs": vecs} for name, src, fn, vecs in C_PROBES]
        for name, prog, runs, ext, _ in c01.micro_programs():
            if name != "fuel":
                items.append({"key": "X09:micro:" + name, "prog": prog, "fn": prog["main"], "vecs": [r[0] for r in runs], "ext": ext,
                              "src": absprog.render_c(prog)})
        if ctx.only is not None:
            want = ctx.only["key"]
            keep = [it for it in items if it["key"] == want or it["key"].split(":")[2] in CLASS_OF_PROBE]
            items = keep
        failing = judge_items(ctx, items, "probes", stats)
        classes = sorted({CLASS_OF_PROBE[k.split(":", 2)[2]] for k in failing if k.startswith("X09:cprobe:") and k.split(":", 2)[2] in CLASS_OF_PROBE})
        ctx.cov["construct_classes_avoided_in_random_programs"] = classes
        ctx.cov["probes"] = len(items)
        # ---- stage 2: random programs
        rnd = random_items(ctx, 150 if thorough else 30, 8 if thorough else 5, classes)
        if ctx.only is not None:
            rnd = [it for it in rnd if it["key"] == ctx.only["key"]]
        if rnd:
            judge_items(ctx, rnd, "random", stats)
            for it in rnd[:2]:
                ctx.sample({"key": it["key"], "source": it["src"][:300], "printed": (it.get("printed") or "")[:300]})
        ctx.cov["random_programs"] = len(rnd)
        ctx.cov["stats"] = stats
