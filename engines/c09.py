"""C09 -- Asm(Print(i)) = (Encode(i), Relocs(i)) for instruction instances of every ppci ISA.

Thin use of the technique (DESIGN section 5 C09 / section 6, level "other"): the TLA+ content is
the law itself (tla/Codec.tla); TLC (Codec_Eval, idiom E) judges, one instance per state, the
outcome class of the assembler on ppci's own printed form, equality of the byte sequences and
equality of the relocation multisets.  harness/asmgen2.py enumerates the instances by reflection."""
import os

from harness import asmgen2 as G
from harness import core

EVAL_CFG = """INIT Init
NEXT Next
CHECK_DEADLOCK FALSE
INVARIANT AsmAccepts
INVARIANT BytesEqual
INVARIANT RelocsEqual
"""
MC_CFG = """CONSTANT MaxLen = %d
INIT Init
NEXT Next
CHECK_DEADLOCK FALSE
INVARIANT LawBag
INVARIANT LawSym
INVARIANT LawClauses
"""
WHAT = {
    "rejected": "the assembler does not accept the text ppci prints for the instruction",
    "bytes": "assembling the printed text gives other bytes than encoding the instance",
    "relocs": "assembling the printed text gives other relocations than the instance declares",
}


def _setof(v):
    if isinstance(v, tuple) and len(v) == 2 and v[0] == "set":
        return set(v[1])
    if isinstance(v, (list, set, frozenset)):
        return set(v)
    return set()


def records(ctx, only_class=None):
    from ppci.api import get_arch

    rng = ctx.rng
    thorough = ctx.tier == "thorough"
    limit = 40 if thorough else 6
    nmut = 6 if thorough else 2          # instances observed after a mutation sequence, per class
    recs = []
    stats = {"classes": 0, "classes_skipped_operand_kind": 0, "classes_without_instance": 0,
             "tuples_rejected_by_the_class_itself": 0, "instances_after_mutation_sequence": 0, "per_arch": {}}
    skipped_names = []
    for arch_name in G.ARCHES:
        if only_class and only_class[0] != arch_name:
            continue
        try:
            arch = get_arch(arch_name)
            classes = G.classes_of(arch)
        except Exception as e:  # a changed tree
            ctx.violation("C09:%s:<isa>:rejected" % arch_name, "the instruction set could not be enumerated: %s" % type(e).__name__)
            continue
        pools = G.Pools(rng, labels=G.keyword_labels(arch, thorough), regnames=G.register_names(arch))
        stats.setdefault("keyword_labels", {})[arch_name] = pools.labels[1:]
        n_arch = 0
        names = {}
        # input feature (not a verdict): the class's syntax skeleton (literal elements and operand
        # positions) is also the skeleton of another class of the same ISA, i.e. the printed form may
        # not identify the class
        skel_count = {}
        for cls in classes:
            skel_count[G.skeleton(cls)] = skel_count.get(G.skeleton(cls), 0) + 1
        for cls in classes:
            cname = cls.__name__
            names[cname] = names.get(cname, 0) + 1
            if names[cname] > 1:
                cname = "%s~%d" % (cname, names[cname])     # distinct classes sharing a name
            shared = skel_count[G.skeleton(cls)] > 1
            if only_class and only_class[1] != cname:
                # keep the random stream aligned with the full run
                G.instances(cls, pools, rng, limit, getattr(arch, 'asm_printer', None), shared)
                G.mutated_instances(cls, pools, rng, nmut, getattr(arch, 'asm_printer', None))
                continue
            stats["classes"] += 1
            inst, rejected = G.instances(cls, pools, rng, limit, getattr(arch, 'asm_printer', None), shared)
            stats["tuples_rejected_by_the_class_itself"] += rejected
            if inst is None:
                stats["classes_skipped_operand_kind"] += 1
                if len(skipped_names) < 40:
                    skipped_names.append("%s:%s" % (arch_name, cname))
                continue
            if not inst:
                stats["classes_without_instance"] += 1
                continue
            mut = G.mutated_instances(cls, pools, rng, nmut, getattr(arch, 'asm_printer', None))
            stats["instances_after_mutation_sequence"] += len(mut)
            inst += mut
            outs = G.assemble_class(inst, arch)
            for o, out in zip(inst, outs):
                recs.append({"key": "C09:%s:%s%s%s" % (arch_name, cname, ":shared-syntax" if shared else "",
                                                      ":ambiguous-operand" if o["amb"] else ""),
                             "text": o["text"], "how": o["how"],
                             "direct": {"bytes": o["bytes"], "relocs": o["relocs"]}, "asm": out})
                n_arch += 1
        stats["per_arch"][arch_name] = {"classes": len(classes), "instances": n_arch}
    stats["classes_skipped_examples"] = skipped_names
    return recs, stats


class Engine:
    LEVEL = "other"

    def run(self, ctx):
        thorough = ctx.tier == "thorough"
        ctx.rule("every instruction class with syntax and encoding of every ppci ISA (x86_64, arm, arm:thumb, riscv, "
                 "riscv:rvc, msp430, avr, m68k, mips, or1k, xtensa, microblaze, stm8, mcs6500), instantiated by "
                 "reflection: a base operand tuple, then each operand varied alone through its pool (every register "
                 "of the operand's class, boundary / random integers, a label, nested constructors), then random "
                 "tuples; up to 6 (40 thorough) instances per class; label operands are 'lab1' and names spelled like "
                 "keywords of the same ISA's assembler (numbered registers, register aliases with underscores, "
                 "mnemonics); for classes with nested operand constructors 2 (6) more instances are observed AFTER a "
                 "mutation sequence on the live object (print, encode, change one nested operand through its setter "
                 "or replace_register, then print / encode again).  For each instance: text = str(i), "
                 "Encode(i), Relocs(i) recorded directly and the section bytes / relocation list of "
                 "ppci.api.asm(text); TLC judges Law(r) of tla/Codec.tla, one instance per state.  "
                 "distinct = distinct (arch, printed text)")
        ctx.assume("operand tuples for which the class's own constructor, printer or encoder raises are not "
                   "instances (counted); classes with operand kinds that cannot be built by reflection "
                   "(register sets) are skipped and counted")
        ctx.cov["explanation"] = ("level 'other': the specification is only the round-trip law (byte-sequence equality, "
                                  "relocation-multiset equality, assembler outcome class); no ISA semantics is modelled, "
                                  "so TLC contributes the judgement of the law on every observation, not exploration")
        only = None
        if ctx.only is not None:
            stem = ctx.only["key"][len("C09:"):].rsplit(":", 1)[0]
            for tag in (":ambiguous-operand", ":shared-syntax"):
                if stem.endswith(tag):
                    stem = stem[:-len(tag)]
            only = tuple(stem.rsplit(":", 1))
        if ctx.only is None and thorough:
            res = ctx.tlc("Codec_MC", MC_CFG % 3, label="laws of SameBag / Failing", workers=4, coverage=False)
            for e in res.errors:
                raise core.tlcmod.MachineryError("Codec.tla law fails in the specification itself: %s" % e)
        recs, stats = records(ctx, only)
        ctx.cov["generation"] = stats
        for r in recs:
            ctx.count(r["key"] + ":" + r["text"])
        for r in recs[:: max(1, len(recs) // 5)]:
            ctx.sample({"key": r["key"], "text": r["text"], "bytes": bytes(r["direct"]["bytes"]).hex(),
                        "relocs": r["direct"]["relocs"], "asm_ok": r["asm"]["ok"]})
        if not recs:
            return
        path = ctx.trace_file(recs)
        res = ctx.tlc("Codec_Eval", EVAL_CFG, label="instances", env={"TRACE_FILE": path}, continue_=True,
                      workers=4, coverage=False)
        os.unlink(path)
        ctx.cov["traces_validated_against_impl"] += len(recs)
        if res.distinct != len(recs) + 65:
            raise core.tlcmod.MachineryError("Codec_Eval visited %d states for %d records" % (res.distinct, len(recs)))
        # one violation per (arch, class, clause); the case shows the first failing instance and the count
        first = {}
        count = {}
        for e in res.errors:
            st = e.last
            idx = st.get("i")
            if not isinstance(idx, int) or not 1 <= idx <= len(recs):
                raise core.tlcmod.MachineryError("TLC error without record index: %s\n%s" % (e, e.text[:2000]))
            r = recs[idx - 1]
            for c in sorted(_setof(st.get("bad"))):
                k = r["key"] + ":" + c
                count.setdefault(k, set()).add(idx)
                if k not in first or idx < first[k][0]:
                    first[k] = (idx, r, c)
        for k in sorted(first):
            idx, r, c = first[k]
            what = "%s: e.g. '%s'%s (direct %s %s; assembler %s) [%d instance(s) of the class]" % (
                WHAT[c], r["text"], (" [object state: %s]" % r["how"]) if r.get("how") else "", bytes(r["direct"]["bytes"]).hex(), r["direct"]["relocs"],
                ("%s %s" % (bytes(b & 255 for b in r["asm"]["bytes"]).hex(), r["asm"]["relocs"])) if r["asm"]["ok"]
                else r["asm"]["exc"], len(count[k]))
            ctx.violation(k, what, {"key": k, "text": r["text"], "direct": r["direct"], "asm": r["asm"],
                                    "instances_failing": len(count[k])})
