"""C14 — object files and archives survive save and load.

Deciding method: TLA+ (tla/ObjStore.tla: Load(Save(o)) is a stutter on the projected object state,
one invariant per component; tla/Linker.tla via Linker_Trace for "linking the reloaded objects gives
the same result") + TLC.
  E  ObjStore      every object / archive of the corpus is saved with ObjectFile.save / Archive.save,
                   loaded again, and the projections (harness/project_obj.py, by data attributes,
                   never through ppci's serialisers or __eq__) before and after are compared by TLC
                   component by component
  T  Linker_Trace  the reloaded input objects (singly, or taken from a reloaded archive) are linked
                   by the real linker under the phase recorder; the trace must be a behaviour of
                   Linker.tla started from the projections of the *original* objects, byte for byte
"""
import io
import random

from harness import core, objgen
from harness import project_obj as PO
from harness import tlc as tlcmod
from engines import c11, c12

P = "C14"
INVARIANTS = ("SaveSucceeds", "LoadSucceeds", "MembersSurvive", "SectionNamesSurvive", "SectionAddressesSurvive",
              "SectionAlignmentsSurvive", "SectionDataSurvive", "SymbolNamesSurvive", "SymbolBindingSurvive",
              "SymbolValuesSurvive", "RelocationsSurvive", "ImagesSurvive", "EntrySurvives", "ArchSurvives",
              "DebugInfoSurvives")
CFG = "INIT Init\nNEXT Next\nCHECK_DEADLOCK FALSE\n" + "".join("INVARIANT %s\n" % x for x in INVARIANTS)


def proj(obj):
    """projection with unbounded integers as decimal strings (TLC integers are 32 bit)"""
    p = PO.project(obj)
    for s in p["sections"]:
        s["address"] = str(s["address"])
        s["alignment"] = str(s["alignment"])
    for y in p["symbols"]:
        y["value"] = str(y["value"])
        y["size"] = str(y["size"])
    for r in p["relocations"]:
        r["off"] = str(r["off"])
        r["add"] = str(r["add"])
    for i in p["images"]:
        i["address"] = str(i["address"])
    return p


def attempt(fn):
    try:
        return {"ok": True, "exc": ""}, fn()
    except Exception as e:  # the outcome class is part of the observation
        return {"ok": False, "exc": type(e).__name__}, None


def roundtrip_object(obj):
    from ppci.binutils.objectfile import ObjectFile

    f = io.StringIO()
    saved, _ = attempt(lambda: obj.save(f))
    loaded, obj2 = ({"ok": False, "exc": "not saved"}, None)
    if saved["ok"]:
        loaded, obj2 = attempt(lambda: ObjectFile.load(io.StringIO(f.getvalue())))
    return saved, loaded, obj2


def roundtrip_archive(objs):
    from ppci.binutils.archive import Archive, archive

    f = io.StringIO()
    saved, _ = attempt(lambda: archive(list(objs)).save(f))
    loaded, ar = ({"ok": False, "exc": "not saved"}, None)
    if saved["ok"]:
        loaded, ar = attempt(lambda: list(Archive.load(io.StringIO(f.getvalue()))))
    return saved, loaded, ar


def record(key, kind, objs, saved, loaded, after):
    rec = {"key": key, "kind": kind, "saved": saved, "loaded": loaded}
    b, _ = attempt(lambda: [proj(o) for o in objs])
    rec["before"] = _ if b["ok"] else []
    a, _ = attempt(lambda: [proj(o) for o in (after or [])])
    rec["after"] = _ if (a["ok"] and loaded["ok"]) else []
    if loaded["ok"] and not a["ok"]:
        rec["loaded"] = {"ok": False, "exc": "projection of the loaded object failed: " + a["exc"]}
    return rec


# ---------------------------------------------------------------------------
# corpus
def gen_store_object(rng, arch_name):
    """directly generated object: odd names, data around the 30-byte switch of bin2asc, negative and
    huge addends, placed sections, images, entry"""
    from ppci.api import get_arch
    from ppci.binutils.objectfile import Image

    names = rng.sample(objgen.SEC_NAMES + objgen.ODD_NAMES + ["", "a\tb", "é中", "x" * 40], rng.choice([1, 2, 3]))
    d = objgen.gen_object(rng, arch_name, 0, names, defs=rng.sample(objgen.GLOBALS, rng.choice([0, 1, 2])),
                          refs=rng.sample(objgen.GLOBALS, rng.choice([0, 1])),
                          reltypes=[("abs64", 8), ("rel32", 4), ("abs32", 4), ("absaddr32", 4), ("weird type", 1)])
    for s in d["secs"]:
        if rng.random() < 0.5:
            n = rng.choice([0, 1, 29, 30, 31, 32, 59, 60, 61, 64, 100, 257])
            s["data"] = [rng.randrange(256) for _ in range(n)]
        s["align"] = rng.choice([1, 2, 4, 8, 3, 16, 4096])
    for r in d["rels"]:
        r["add"] = rng.choice([0, -4, 4, -1, 1 << 31, -(1 << 31), (1 << 63) - 1, -(1 << 40), 255])
        sec = [s for s in d["secs"] if s["name"] == r["sec"]][0]
        r["off"] = rng.randrange(0, len(sec["data"]) + 1)
    for y in d["syms"]:
        if y["def"] and rng.random() < 0.3:
            y["value"] = rng.choice([0, 1 << 31, (1 << 32) + 5, 1 << 62])
        y["typ"] = rng.choice(["object", "func", "", "t y p"])
        y["size"] = rng.choice([0, 1, 8, 1 << 20, 1 << 33])
        if rng.random() < 0.2:
            y["name"] = rng.choice(["", "a b", "ü", ".L1", "x" * 50, "\"q\""]) + str(y["id"])
    if d["syms"] and rng.random() < 0.4:
        d["entry"] = rng.choice(d["syms"])["id"]
    obj = objgen.mk_object(get_arch(arch_name), d)
    for s in obj.sections:
        if rng.random() < 0.5:
            s.address = rng.choice([0, 4, 0x1000, 0x8000000, 1 << 31, (1 << 32) + 0x10, 1 << 48])
    if rng.random() < 0.4:
        for k in range(rng.choice([1, 2])):
            img = Image(rng.choice(["flash", "ram", "m 1", ""]) + str(k), rng.choice([0, 0x100, 1 << 32]))
            for s in rng.sample(obj.sections, rng.randrange(0, len(obj.sections) + 1)):
                img.add_section(s)
            obj.add_image(img)
    return obj


def handmade_debug(rng, obj):
    """debug information built directly from the classes of ppci.binutils.debuginfo"""
    from ppci.arch.stack import StackLocation
    from ppci.binutils import debuginfo as D
    from ppci.common import SourceLocation

    di = D.DebugInfo()
    loc = lambda: SourceLocation(rng.choice(["a.c", "dir/b c.c", None]), rng.randrange(1, 500), rng.randrange(1, 80),
                                 rng.randrange(0, 9))
    t_int = D.DebugBaseType("int", 4, rng.choice([1, 1, 5, 7]))
    t_ch = D.DebugBaseType("char", 1, rng.choice([1, 8]))
    t_ptr = D.DebugPointerType(t_int)
    t_arr = D.DebugArrayType(t_ch, rng.choice([0, 3, 100]))
    t_st = D.DebugStructType()
    t_st.add_field("a", t_int, 0)
    t_st.add_field("next", D.DebugPointerType(t_st), 4)
    t_st.add_field("buf", t_arr, 8)
    for t in (t_int, t_ch, t_ptr, t_arr, t_st, t_st.fields[1].typ):
        di.add(t)
    ids = [y.id for y in obj.symbols] or [0]
    adr = lambda: rng.choice([D.DebugAddress(rng.choice(ids)), D.FpOffsetAddress(StackLocation(rng.choice([-8, 0, 16]),
                              rng.choice([1, 4, 8, 16]))), D.UnknownAddress()])
    for _ in range(rng.choice([0, 1, 3])):
        di.add(D.DebugLocation(loc(), address=D.DebugAddress(rng.choice(ids))))
    for _ in range(rng.choice([0, 1, 2])):
        di.add(D.DebugVariable(rng.choice(["v", "glob", "x y"]), rng.choice([t_int, t_st, t_arr]), loc(), address=adr()))
    for _ in range(rng.choice([0, 1, 2])):
        f = D.DebugFunction(rng.choice(["main", "f"]), loc(), rng.choice([t_int, t_ptr]),
                            [D.DebugParameter("p%d" % k, rng.choice([t_int, t_ch, t_ptr])) for k in range(rng.choice([0, 1, 3]))],
                            begin=D.DebugAddress(rng.choice(ids)), end=D.DebugAddress(rng.choice(ids)))
        for _ in range(rng.choice([0, 1, 2])):
            f.add_variable(D.DebugVariable("loc", rng.choice([t_int, t_st]), loc(), address=adr()))
        di.add(f)
    obj.debug_info = di
    return obj


C_SRC = """
struct S { int a; char b; struct S *n; };
int g = 5;
int arr[3];
void ext(int *p);
static int f(int x, char *p) { int y = x + 1; struct S s; s.a = y; ext(&y); return s.a + g + y; }
int main(void) { return f(2, 0) + arr[1]; }
"""
C3_SRC = """module m;
var int glob;
type struct { int a; int b; } pair;
function int f(int x) { var int y; var int[4] arr; var pair p; y = x; arr[1] = y; p.a = y; return arr[1] + glob + p.a; }
function void main() { var int r; r = f(3); }
"""


def compiled_objects(thorough):
    from ppci.api import c3c, cc, link

    out = []
    for arch in ("x86_64", "arm", "riscv") + (("msp430", "xtensa") if thorough else ()):
        for name, fn in (("c", lambda a: cc(io.StringIO(C_SRC), a, debug=True)),
                         ("c3", lambda a: c3c([io.StringIO(C3_SRC)], [], a, debug=True)),
                         ("c-nodebug", lambda a: cc(io.StringIO(C_SRC), a))):
            try:
                o = fn(arch)
            except Exception:
                continue
            out.append(("compiled:%s:%s" % (name, arch), o))
            if name == "c3":
                try:
                    out.append(("linked-debug:%s:%s" % (name, arch), link([o], debug=True, partial_link=True)))
                except Exception:
                    pass
    return out


class Engine:
    LEVEL = "other"

    def run(self, ctx):
        import logging

        logging.disable(logging.CRITICAL)
        thorough = ctx.tier == "thorough"
        ctx.rule("E: corpus = directly generated objects (odd / empty / unicode names, data of 0..257 bytes incl. the "
                 "30/31-byte switch of bin2asc, addresses / values / addends up to 2^63 and negative, undefined "
                 "symbols, images, entry), hand-built debug information (base / pointer / array / recursive struct "
                 "types, fixed / frame-relative / unknown addresses, functions with parameters and variables), objects "
                 "compiled from C and C3 with debug information for 3 (5) targets, assembler-made objects of the C11 "
                 "generator, linked outputs of the C12 generator; each saved and loaded singly and in archives of "
                 "2..4; projection before = after judged per component by TLC.  T: the C12 link jobs are repeated "
                 "with reloaded inputs (singly / via an archive) and validated against Linker.tla started from the "
                 "original inputs.  distinct = distinct corpus keys / job ids")
        ctx.cov["explanation"] = (
            "The TLA+ content of this property is thin by nature (DESIGN section 6): ObjStore.tla states the law "
            "Load(Save(o)) = o as a stutter of the object state, one invariant per component, and TLC evaluates it on "
            "recorded before/after projections; the substantive part is the re-use of Linker.tla: links of reloaded "
            "objects must be behaviours of the specification started from the original objects.")
        ctx.assume("harness/project_obj.py copies ObjectFile attributes and the debug-info object graph (by value, "
                   "reflectively) faithfully; sharing of sub-objects inside the debug graph is not part of the value")
        only = ctx.only["case"]["id"] if ctx.only is not None else None
        corpus = []
        n = 400 if thorough else 90
        for k in range(n):
            rng = random.Random("%s:c14:%d" % (ctx.seed, k))
            arch = rng.choice(["x86_64", "arm", "riscv", "arm:thumb", "msp430"])
            o, _ = attempt(lambda: gen_store_object(rng, arch))
            if o["ok"]:
                obj = _
                kind = "direct"
                if rng.random() < 0.35:
                    d, __ = attempt(lambda: handmade_debug(rng, obj))
                    kind = "direct+debug" if d["ok"] else kind
                corpus.append(("%s:%d" % (kind, k), obj))
        corpus += compiled_objects(thorough)
        for arch in c11.ARCHS:
            got = 0
            tries = 0
            while got < (12 if thorough else 3) and tries < 100:
                tries += 1
                job = objgen.gen_reloc_job(random.Random("%s:c14asm:%s:%d" % (ctx.seed, arch, tries)), arch)
                if job:
                    got += 1
                    for oi, o in enumerate(job["objects"]):
                        corpus.append(("asm:%s:%d.%d" % (c11.arch_tag(arch), tries, oi), o))
        # ---- link jobs: outputs join the corpus, inputs are re-linked after a reload
        jobs = c12.gen_jobs(ctx, 150 if thorough else 36, seed_tag="c14")
        from ppci.api import get_arch

        link_jobs = []
        for job in jobs:
            arch = get_arch(job["arch"])
            originals = [objgen.mk_object(arch, d) for d in job["objs"]]
            job["objects"] = originals
            tr, out, _ = objgen.run_job(dict(job), lambda t: c12.REL_SIZES.get(t, 0), job["id"])
            if out is not None:
                corpus.append(("linked:%s" % job["id"], out))
            link_jobs.append((job, originals))
        # ---- E: save / load
        recs = []
        for key, obj in corpus:
            if only is not None and key != only:
                continue
            saved, loaded, obj2 = roundtrip_object(obj)
            recs.append(record(key, "object", [obj], saved, loaded, [obj2] if obj2 is not None else None))
            ctx.count(key)
        k = 0
        rng = random.Random("%s:c14ar" % ctx.seed)
        pool = [c for c in corpus]
        while pool and k < (120 if thorough else 25):
            group = [pool[rng.randrange(len(pool))] for _ in range(rng.choice([1, 2, 3, 4]))]
            if rng.random() < 0.1:
                group = []
            key = "archive:%d" % k
            k += 1
            if only is not None and key != only:
                continue
            saved, loaded, objs2 = roundtrip_archive([o for _, o in group])
            rec = record(key, "archive", [o for _, o in group], saved, loaded, objs2)
            rec["members"] = [g[0] for g in group]
            recs.append(rec)
            ctx.count(key)
        for r in recs[:: max(1, len(recs) // 3)]:
            ctx.sample({"key": r["key"], "kind": r["kind"], "saved": r["saved"], "loaded": r["loaded"],
                        "objects": len(r["before"])})
        if recs:
            path = ctx.trace_file(recs)
            res = ctx.tlc("ObjStore", CFG, label="E: save/load", env={"TRACE_FILE": path}, continue_=True, workers=4,
                          coverage=False)
            ctx.cov["traces_validated_against_impl"] += len(recs)
            seen = set()
            for e in res.errors:
                idx = e.last.get("i")
                if not isinstance(idx, int) or not 1 <= idx <= len(recs):
                    raise tlcmod.MachineryError("ObjStore error without record index: %s\n%s" % (e, e.text[:1500]))
                if (idx, e.name) in seen:
                    continue
                seen.add((idx, e.name))
                r = recs[idx - 1]
                kind = r["key"].split(":")[0] if r["kind"] == "object" else "archive"
                lost = "+".join(sorted(set(_lost(r["before"], r["after"])))[:4]) or "-"
                ctx.violation("C14:%s:%s:%s:%s" % (e.name, kind, lost if e.name == "DebugInfoSurvives" else "-", r["key"]),
                              "%s %s: %s does not hold after save + load (saved %s, loaded %s)" % (
                                  r["kind"], r["key"], e.name, r["saved"], r["loaded"]),
                              {"id": r["key"], "clause": e.name, "members": r.get("members"),
                               "diff": _diff(r["before"], r["after"])[:12]})
        # ---- T: link the reloaded objects
        traces = []
        for job, originals in link_jobs:
            if only is not None and job["id"] != only:
                continue
            via_archive = random.Random("%s:%s" % (ctx.seed, job["id"])).random() < 0.4
            if via_archive:
                saved, loaded, re = roundtrip_archive(originals)
            else:
                re = []
                for o in originals:
                    saved, loaded, o2 = roundtrip_object(o)
                    if o2 is None:
                        re = None
                        break
                    re.append(o2)
            if not re or len(re) != len(originals):
                continue  # reported by the E part
            j2 = dict(job, objects=re, spec_objects=originals)
            tr, out, _ = objgen.run_job(j2, lambda t: c12.REL_SIZES.get(t, 0), job["id"])
            traces.append(tr)
            ctx.count("relink:" + job["id"])
        if traces:
            c12.judge_traces(ctx, traces, False, P, "T: links of reloaded objects",
                             lambda rec, e: "C14:relink:%s:%s:%s" % (e.name, c12.slug(e.last.get("why")), rec["id"]))


def _lost(a, b, cls="?"):
    """names (Class.attribute) of the debug-info attributes whose values differ; for the violation key"""
    out = []
    if isinstance(a, list) and isinstance(b, list):
        if len(a) != len(b):
            return [cls + ".#"]
        for x, y in zip(a, b):
            out += _lost(x, y, cls)
        return out
    if isinstance(a, dict) and isinstance(b, dict):
        if "debug" in a and "debug" in b:
            return _lost(a["debug"], b["debug"], cls)
        if a.get("k") != b.get("k") or a.get("none") != b.get("none"):
            return [cls + ".kind"]
        if a.get("k") == "obj":
            if a["cls"] != b["cls"] or [f[0] for f in a["f"]] != [f[0] for f in b["f"]]:
                return [a["cls"] + ".class"]
            for (n, x), (_, y) in zip(a["f"], b["f"]):
                out += _lost(x, y, a["cls"] + "." + n)
            return out
        if "g" in a and "g" in b:
            return _lost(a["g"], b["g"], cls)
        if a.get("k") in ("seq", "map"):
            return _lost(a["v"], b["v"], cls)
        return [cls] if a != b else []
    return [cls] if a != b else []


def _diff(a, b, path=""):
    """where two projections differ (for the replay file only)"""
    out = []
    if type(a) != type(b):
        return [path + ": kind differs"]
    if isinstance(a, dict):
        for k in sorted(set(a) | set(b)):
            if k not in a or k not in b:
                out.append("%s/%s: only on one side" % (path, k))
            else:
                out += _diff(a[k], b[k], path + "/" + str(k))
    elif isinstance(a, list):
        if len(a) != len(b):
            out.append("%s: %d vs %d elements" % (path, len(a), len(b)))
        for i, (x, y) in enumerate(zip(a, b)):
            out += _diff(x, y, "%s/%d" % (path, i))
    elif a != b:
        out.append("%s: %r -> %r" % (path, a, b))
    return out[:20]
