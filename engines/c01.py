"""C01 — the C front-end preserves the meaning of defined-behaviour C programs.

Deciding method: tla/Src.tla (the C abstract machine, written from ISO C) is refined by tla/IR.tla on the IR that
api.c_to_ir emits.  Python only generates abstract programs, renders them as C, drives ppci, projects the IR and
moves TLC's Src observations into the IR run; TLC + the two specifications decide.

  M   Src_MC.tla      laws of the typing / conversion / operator definitions, exhaustively over all type pairs and
                      boundary values, and hand-written micro programs with outcomes derived from the standard
  G   Src_Run.tla     TLC executes every (program, argument vector) under Src.tla and writes the observation
  T   Src_IR.tla      TLC executes ppci's IR (IR.tla) and checks DefinedStaysDefined / SrcSameReturn / SrcSameGlobals /
                      SrcSameCalls against the Src observation whenever Src ended "ok"
  ref gcc -O0 -fsanitize=undefined (thorough tier): guard only (SPEC-SUSPECT), never changes the verdict otherwise
"""
import io
import json
import logging
import os
import random
import shutil
import subprocess
import tempfile
from concurrent.futures import ThreadPoolExecutor

from harness import absprog, project_ir
from harness.absprog import BITS, TYPES10 as TYPES, flat_fields, is_signed, trange
from harness.tlc import MachineryError

SRC_CFG = """INIT RInit
NEXT RNext
CHECK_DEADLOCK FALSE
INVARIANT TypeOK
INVARIANT NeverStuck
"""
IR_CFG = """INIT Init
NEXT Next
CHECK_DEADLOCK FALSE
INVARIANT DefinedStaysDefined
INVARIANT SrcSameReturn
INVARIANT SrcSameGlobals
INVARIANT SrcSameCalls
"""
logging.getLogger().addHandler(logging.NullHandler())   # ppci warns through logging; keep the check's output clean
IR_INT = {"i8": 1, "u8": 1, "i16": 2, "u16": 2, "i32": 4, "u32": 4, "i64": 8, "u64": 8}
WORKERS = 8
QUICK_PROBES = 500            # sampled probes in the quick tier (plus the sentinels); thorough runs all of them
QUICK_PROBE_VECTORS = 4
QUICK_PROGRAMS = 50
THOROUGH_PROBE_VECTORS = 8
SENTINEL_VECTORS = 24
# probes that are always run, with 24 vectors: they decide which construct classes the random programs avoid
SENTINELS = {"bin:<:c8,u8", "bin:>=:i16,u16", "bin:==:c8,u16", "unary:-:u8", "unary:~:u16", "unary:-:c8",
             "bin:<<:u32,i64", "type-of:<<:i32,u64", "type-of:>>:u16,u32",
             "compound:/=:lhs=u8,rhs=i32", "compound:%=:lhs=i16,rhs=u32", "compound:>>=:lhs=u8,rhs=i32",
             "compound-mem:<<=:lhs=u16,rhs=i32", "compound:/=:lhs=i32,rhs=u32", "compound:+=:lhs=u8,rhs=i32",
             "literal:i32:2147483648", "literal:i32:4294967296", "literal:u32:4294967295",
             # a signed type of higher rank meeting an unsigned type of equal size (long long with unsigned long)
             "bin:<:i64,ul", "bin:/:ul,i64", "bin:>>:i64,ul", "type-of:+:i64,ul", "type-of:%:ul,i64", "type-of:cond:i64,ul",
             "type-of:+:il,u32", "type-of:*:il,ul", "type-of:-:u32,i64", "cond:ul,i64", "compound:/=:lhs=i64,rhs=ul",
             "struct-layout:0:all", "struct-layout:anon:0:all", "struct-layout:anon:1:odd", "struct-layout:anon:2:all",
             "struct-layout:anon:3:odd", "struct-layout:anon-tail:0:all", "struct-layout:anon-tail:1:odd"}


# ------------------------------------------------------------------ AST helpers for the systematic probes
PREC_SENTINELS = {"prec:%s:%s:%s" % (a, b, sh) for a, b in (("==", "<"), ("<", "=="), ("&", "=="), ("==", "&"), ("<<", "+"), ("+", "<<"),
                                                               ("^", "&"), ("|", "^"), ("&&", "|"), ("||", "&&"), ("-", "-"), ("/", "*"),
                                                               ("<", "<<"), ("%", "-"), ("-", "/")) for sh in "lr"} | {
    "literal-hex16:i32:2147483648", "literal-hex16-use:i32:2147483648", "literal-hex16-use:i32:4294967295",
    "literal-hex8:i32:4294967295", "literal-hex16:i32:9223372036854775808", "literal-hex8-use:il:2147483648"}


def V(n):
    return {"k": "var", "n": n}


def L(v, ty="i32"):
    return {"k": "lit", "ty": ty, "v": v}


def B(op, a, b):
    return {"k": "bin", "op": op, "a": a, "b": b}


def U(op, a):
    return {"k": "un", "op": op, "a": a}


def RET(e):
    return {"k": "ret", "e": e}


def ASG(lhs, e, op="="):
    return {"k": "asg", "lhs": lhs, "op": op, "e": e}


def FN(name, ret, params, body):
    return {"n": name, "ret": ret, "params": [{"n": n, "ty": t} for n, t in params], "body": body}


def PROG(funcs, globals_=(), externs=()):
    return {"globals": list(globals_), "externs": list(externs), "funcs": funcs, "main": funcs[-1]["n"]}


BIN_OPS = ["+", "-", "*", "/", "%", "&", "|", "^", "<<", ">>", "<", "<=", ">", ">=", "==", "!=", "&&", "||"]
CASG_OPS = ["+=", "-=", "*=", "/=", "%=", "&=", "|=", "^=", "<<=", ">>="]


def bvals(t, small=False):
    lo, hi = trange(t)
    s = [0, 1, 2, 7, hi, hi - 1, hi // 2 + 1, 100]
    if lo < 0:
        s += [-1, -2, -7, lo, lo + 1]
    if small:
        s = [0, 1, 3, BITS[t] - 1, 7, 31]
    return sorted({v for v in s if lo <= v <= hi})


def type_reveal(e):
    """An expression whose value depends only on the *type* of e (which must be a promoted type):
    int -> 0, long long -> 1, unsigned int -> 2147483647, unsigned long long -> 2^63 - 1."""
    z = B("-", B("*", e, L(0)), L(1))
    return B("+", B("/", z, L(2)), B("<", z, L(0, "u32")))


def probes():
    """Systematic micro programs: every construct of the property over every combination of integer types.
    Yields (construct key, program, small_second_operand)."""
    for op in BIN_OPS:
        for ta in TYPES:
            for tb in TYPES:
                yield ("bin:%s:%s,%s" % (op, ta, tb),
                       PROG([FN("f", "u64", [("a", ta), ("b", tb)], [RET(B(op, V("a"), V("b")))])]), op in ("<<", ">>"))
                # the type of the result, observed through arithmetic that depends on it
                yield ("type-of:%s:%s,%s" % (op, ta, tb),
                       PROG([FN("f", "u64", [("a", ta), ("b", tb)], [RET(type_reveal(B(op, V("a"), V("b"))))])]),
                       op in ("<<", ">>"))
    for op in CASG_OPS:
        for ta in TYPES:
            for tb in TYPES:
                yield ("compound:%s:lhs=%s,rhs=%s" % (op, ta, tb),
                       PROG([FN("f", "u64", [("a", ta), ("b", tb)], [ASG(V("a"), V("b"), op), RET(V("a"))])]),
                       op in ("<<=", ">>="))
                # the same through an array element in memory
                yield ("compound-mem:%s:lhs=%s,rhs=%s" % (op, ta, tb),
                       PROG([FN("f", "u64", [("a", ta), ("b", tb)],
                                [ASG({"k": "idx", "a": "ga", "e": L(1)}, V("a")),
                                 ASG({"k": "idx", "a": "ga", "e": L(1)}, V("b"), op),
                                 RET({"k": "idx", "a": "ga", "e": L(1)})])],
                            [{"n": "ga", "ty": ta, "len": 3, "init": [1, 2, 3]}]), op in ("<<=", ">>="))
    for op in ("++", "--"):
        for ta in TYPES:
            yield ("incdec:%s:%s" % (op, ta),
                   PROG([FN("f", "u64", [("a", ta)], [{"k": "inc", "lhs": V("a"), "op": op}, RET(V("a"))])]), False)
    for op in ("-", "~", "!"):
        for ta in TYPES:
            yield ("unary:%s:%s" % (op, ta), PROG([FN("f", "u64", [("a", ta)], [RET(U(op, V("a")))])]), False)
            yield ("type-of:unary%s:%s" % (op, ta), PROG([FN("f", "u64", [("a", ta)], [RET(type_reveal(U(op, V("a"))))])]), False)
    for ta in TYPES:
        for tb in TYPES:
            yield ("cast:%s->%s" % (ta, tb),
                   PROG([FN("f", "u64", [("a", ta)], [RET({"k": "cast", "ty": tb, "a": V("a")})])]), False)
            yield ("conv-return:%s->%s" % (ta, tb), PROG([FN("f", tb, [("a", ta)], [RET(V("a"))])]), False)
            yield ("conv-init:%s->%s" % (ta, tb),
                   PROG([FN("f", "u64", [("a", ta)], [{"k": "decl", "n": "x", "ty": tb, "e": V("a")}, RET(V("x"))])]), False)
            yield ("conv-arg:%s->%s" % (ta, tb),
                   PROG([FN("g", "u64", [("x", tb)], [RET(V("x"))]),
                         FN("f", "u64", [("a", ta)], [RET({"k": "call", "f": "g", "args": [V("a")]})])]), False)
            yield ("conv-store:%s->%s" % (ta, tb),
                   PROG([FN("f", "u64", [("a", ta)], [ASG(V("gs"), V("a")), RET(V("gs"))])],
                        [{"n": "gs", "ty": tb, "len": 0, "init": [5]}]), False)
            yield ("cond:%s,%s" % (ta, tb),
                   PROG([FN("f", "u64", [("a", ta), ("b", tb)],
                            [RET({"k": "cond", "c": B("<", V("b"), L(3)), "a": V("a"), "b": V("b")})])]), False)
            yield ("type-of:cond:%s,%s" % (ta, tb),
                   PROG([FN("f", "u64", [("a", ta), ("b", tb)],
                            [RET(type_reveal(B("+", {"k": "cond", "c": B("<", V("b"), L(3)), "a": V("a"), "b": V("b")}, L(0))))])]), False)
            # pointer arithmetic: p points at ga[1]; p[i] with i of every integer type (i = -1 is in bounds)
            gfun = {"n": "g", "ret": "u64", "params": [{"n": "i", "ty": tb}, {"n": "p", "ty": ta, "ptr": True, "len": 4}],
                    "body": [ASG({"k": "deref", "p": "p", "e": V("i")}, L(9), "+="),
                             RET({"k": "deref", "p": "p", "e": V("i")})]}
            yield ("ptr-index:elem=%s,index=%s" % (ta, tb),
                   PROG([gfun, FN("f", "u64", [("i", tb)],
                                   [RET({"k": "call", "f": "g", "args": [V("i"), {"k": "addr", "a": "ga", "e": L(1)}]})])],
                        [{"n": "ga", "ty": ta, "len": 4, "init": [10, 20, 30, 40]}]), True)
            yield ("array-index:elem=%s,index=%s" % (ta, tb),
                   PROG([FN("f", "u64", [("i", tb)], [ASG({"k": "idx", "a": "ga", "e": V("i")}, L(77)),
                                                       RET({"k": "idx", "a": "ga", "e": B("-", L(3), V("i"))})])],
                        [{"n": "ga", "ty": ta, "len": 4, "init": [10, 20, 30, 40]}]), True)
    # literal typing by suffix and magnitude (6.4.4.1: decimal constants without suffix are int, long, long long)
    for ty, v in (("i32", 2147483647), ("i32", 2147483648), ("i32", 4294967296), ("u32", 4294967295), ("u32", 4294967296),
                  ("i64", 9223372036854775807), ("u64", 18446744073709551615), ("u32", 0), ("i64", 1), ("u64", 2),
                  ("i32", 4294967295), ("i32", 9223372036854775807), ("i64", 2147483648), ("u64", 4294967296),
                  ("il", 1), ("il", 9223372036854775807), ("ul", 2), ("ul", 18446744073709551615)):
        yield ("literal:%s:%d" % (ty, v),
               PROG([FN("f", "u64", [("a", "i32")], [RET(B("+", type_reveal(L(v, ty)), B("*", V("a"), L(0))))])]), True)
        yield ("literal-value:%s:%d" % (ty, v),
               PROG([FN("f", "u64", [("a", "i32")], [RET(B("+", B("/", L(v, ty), L(3)), B("*", V("a"), L(0))))])]), True)
    # hexadecimal / octal constants: the unsigned types join the list (0x80000000 is unsigned int, not long)
    for base in (16, 8):
        for ty, v in (("i32", 0x7FFFFFFF), ("i32", 0x80000000), ("i32", 0xFFFFFFFF), ("i32", 0x100000000), ("i32", 0x7FFFFFFFFFFFFFFF),
                      ("i32", 0x8000000000000000), ("i32", 0xFFFFFFFFFFFFFFFF), ("il", 0x8000000000000000), ("i64", 0xFFFFFFFFFFFFFFFF),
                      ("il", 0x80000000), ("u32", 0xFFFFFFFF), ("u32", 0x100000000), ("i32", 0xFFFF), ("i32", 0)):
            lit = dict(L(v, ty), hex=base)
            yield ("literal-hex%d:%s:%d" % (base, ty, v),
                   PROG([FN("f", "u64", [("a", "i32")], [RET(B("+", type_reveal(lit), B("*", V("a"), L(0))))])]), True)
            # the type decides the arithmetic: -1 / lit, -1 < lit, lit >> 31 differ between unsigned int and long
            yield ("literal-hex%d-use:%s:%d" % (base, ty, v),
                   PROG([FN("f", "u64", [("a", "i32")],
                            [RET(B("+", B("+", B("/", V("a"), lit), B("<", V("a"), lit)), B(">>", lit, L(31))))])]), True)
    # switch on every type, default in the middle, fall-through
    for ta in TYPES:
        cases = [{"v": 1, "b": [ASG(V("r"), L(10), "+=")], "brk": False},
                 {"v": None, "b": [ASG(V("r"), L(100), "+=")], "brk": True},
                 {"v": 2, "b": [ASG(V("r"), L(1000), "+=")], "brk": False},
                 {"v": 7, "b": [ASG(V("r"), L(5), "+=")], "brk": True}]
        yield ("switch:%s" % ta,
               PROG([FN("f", "u64", [("a", ta)], [{"k": "decl", "n": "r", "ty": "i32", "e": L(0)},
                                                   {"k": "switch", "e": V("a"), "cases": cases}, RET(V("r"))])]), True)
    # struct layout: members of mixed size, anonymous struct members in the middle and at the end; every member is
    # written and read back, and observed (with its neighbours) in global memory
    A = lambda *tys: {"anon": list(tys)}      # noqa: E731
    layouts = [("0", ["c8", "i32", "u8", "i64", "i16"]), ("1", ["u16", "u8", "u64", "c8", "u32", "i16"]),
               ("2", ["i64", "c8", "i16", "u32"]), ("3", ["u8", "u16", "u8", "u8", "i32"]),
               # anonymous structs whose size is a multiple of their alignment
               ("anon:0", ["c8", A("i32", "i16", "u16"), "u8", "i64"]), ("anon:1", ["u16", "u8", A("u8", "c8"), A("i64"), "c8"]),
               ("anon:2", ["i32", A("u16", "c8", "u8", "i32"), "i16", A("c8"), "u32"]), ("anon:3", ["il", "c8", A("ul", "i64"), "u8"]),
               # anonymous structs that need tail padding
               ("anon-tail:0", ["c8", A("i32", "c8"), "u8", "i64"]), ("anon-tail:1", ["u8", A("i64", "i16"), "c8", A("u16", "u8"), "u8"])]
    for name, tys in layouts:
        fl, k = [], 0
        for t in tys:
            if isinstance(t, dict):
                sub = []
                for x in t["anon"]:
                    sub.append({"f": "m%d" % k, "ty": x})
                    k += 1
                fl.append({"anon": sub})
            else:
                fl.append({"f": "m%d" % k, "ty": t})
                k += 1
        body = [ASG({"k": "fld", "s": "gs", "f": "m%d" % j}, B("+", V("a"), L(j))) for j in range(k)]
        e = L(0)
        for j in range(k):
            e = B("^", e, {"k": "fld", "s": "gs", "f": "m%d" % j})
        for variant, stmts in (("all", body), ("odd", body[1::2])):
            yield ("struct-layout:%s:%s" % (name, variant),
                   PROG([FN("f", "u64", [("a", "u8")], stmts + [RET(e)])], [{"n": "gs", "struct": fl, "init": list(range(1, k + 1))}]), True)


def prec_probes():
    """Precedence and associativity: for every ordered pair of binary operators both tree shapes of
    `a op1 b op2 k`, written with only the parentheses the C grammar requires (prog["minparen"]), so that the
    parser's priority table decides which tree ppci builds; plus unary / cast / conditional against binary."""
    ops = BIN_OPS
    for i, op1 in enumerate(ops):
        for j, op2 in enumerate(ops):
            k = L(3 if op2 in ("/", "%", "<<", ">>") else 5, "u32")
            for shape, e in (("l", B(op2, B(op1, V("a"), V("b")), k)), ("r", B(op1, V("a"), B(op2, V("b"), k)))):
                prog = PROG([FN("f", "u64", [("a", "u32"), ("b", "u32")], [RET(e)])])
                prog["minparen"] = True
                yield ("prec:%s:%s:%s" % (op1, op2, shape), prog, True)
    for op in ops:
        for name, e in (("neg-left", B(op, U("-", V("a")), V("b"))), ("neg-all", U("-", B(op, V("a"), V("b")))),
                        ("not-left", B(op, U("!", V("a")), V("b"))), ("cast-left", B(op, CAST("u8", V("a")), V("b"))),
                        ("cast-all", CAST("u8", B(op, V("a"), V("b")))),
                        ("cond-in", {"k": "cond", "c": B(op, V("a"), V("b")), "a": V("a"), "b": V("b")}),
                        ("cond-left", B(op, {"k": "cond", "c": V("a"), "a": V("b"), "b": L(7, "u32")}, V("b"))),
                        ("cond-right", B(op, V("a"), {"k": "cond", "c": V("b"), "a": V("a"), "b": L(7, "u32")}))):
            prog = PROG([FN("f", "u64", [("a", "u32"), ("b", "u32")], [RET(e)])])
            prog["minparen"] = True
            yield ("prec:%s:%s" % (op, name), prog, True)


def probe_vectors(f, small_b, rng, n):
    ps = f["params"]
    cands = []
    if len(ps) == 1:
        cands = [[a] for a in (bvals(ps[0]["ty"], small_b) if small_b else bvals(ps[0]["ty"]))]
        if small_b:
            cands += [[a] for a in (-1, 2, 200) if trange(ps[0]["ty"])[0] <= a <= trange(ps[0]["ty"])[1]]
    else:
        for a in bvals(ps[0]["ty"]):
            for b in bvals(ps[1]["ty"], small_b):
                cands.append([a, b])
    if n is None or len(cands) <= n:
        return cands
    return [cands[k] for k in sorted(rng.sample(range(len(cands)), n))]


# ------------------------------------------------------------------ items
def make_item(key, prog, vecs, ext, kind):
    f = [x for x in prog["funcs"] if x["n"] == prog["main"]][0]
    # every second program (by key) is written with only the parentheses the C grammar requires, so that the
    # parser's precedence / associativity table is part of what is judged (render_gcc_main renders the same way)
    import zlib
    if zlib.crc32(key.encode()) & 1:
        prog["minparen"] = True
    return {"key": key, "prog": prog, "f": f, "vecs": vecs, "ext": ext, "kind": kind, "src": absprog.render_c(prog)}


def construct_class(key):
    """The construct class (see absprog.sanitize) that a failing probe key belongs to, or None."""
    parts = key.split(":")
    fam, op = parts[0], parts[1] if len(parts) > 1 else ""
    if fam in ("compound", "compound-mem") or key.startswith("micro:compound"):
        return "compound"
    if key == "micro:dowhile-continue":
        return "dowhile"
    if fam == "unary" or (fam == "type-of" and op.startswith("unary")):
        return "unary"
    if fam in ("bin", "type-of"):
        if op in ("<<", ">>"):
            return "shift"
        if op in ("<", "<=", ">", ">=", "==", "!="):
            return "compare"
    return None


def random_items(ctx, n, nvec, classes=()):
    out = []
    for _ in range(n):
        seed = ctx.rng.randrange(1 << 30)
        prng = random.Random(seed)
        gen = absprog.Gen(prng, max_funcs=3, max_stmts=6, max_depth=3, types=TYPES, features=absprog.C01_FEATURES)
        prog = gen.program()
        if classes:
            prog = absprog.sanitize(prog, classes)
        f, vecs = absprog.arg_vectors(prog, prng, nvec)
        ext = [{"name": x["n"], "rets": [absprog.word(prng.randrange(-5, 40), 4) for _ in range(6)]} for x in prog["externs"]]
        out.append(make_item("prog:c%d" % seed, prog, vecs, ext, "random"))
    return out


# ------------------------------------------------------------------ ppci side
def compile_items(ctx, items):
    """Run the real front-end; attach the IR projection.  Rejections and internal errors are counted (C28/C29)."""
    from ppci import api
    from ppci.common import CompilerError

    ok = []
    for it in items:
        try:
            m = api.c_to_ir(io.StringIO(it["src"]), "x86_64")
            pm = project_ir.project_module(m, 8)
        except CompilerError as e:
            ctx.cov["frontend_rejected"] = ctx.cov.get("frontend_rejected", 0) + 1
            if len(ctx.cov.setdefault("frontend_rejected_samples", [])) < 5:
                ctx.cov["frontend_rejected_samples"].append({"key": it["key"], "msg": str(e)[:200]})
            continue
        except Exception as e:  # internal error of the front-end: property C28's business
            ctx.cov["frontend_internal_error"] = ctx.cov.get("frontend_internal_error", 0) + 1
            if len(ctx.cov.setdefault("frontend_internal_error_samples", [])) < 5:
                ctx.cov["frontend_internal_error_samples"].append({"key": it["key"], "exc": type(e).__name__, "msg": str(e)[:200]})
            continue
        fi = [g for g in pm["funcs"] if g["name"] == it["f"]["n"]]
        if not fi or len(fi[0]["params"]) != len(it["f"]["params"]) or any(p["ty"] not in IR_INT for p in fi[0]["params"]):
            ctx.cov["no_ir_function"] = ctx.cov.get("no_ir_function", 0) + 1
            continue
        # argument words in the width of the IR parameter, value extended according to the C parameter type
        it["ir_argv"] = [[project_ir.limbs(v, IR_INT[q["ty"]]) for v, q in zip(vec, fi[0]["params"])] for vec in it["vecs"]]
        it["pm"] = pm
        ok.append(it)
    return ok


# ------------------------------------------------------------------ TLC: Src observations
def run_src(ctx, items, label):
    """TLC executes every (item, vector) under Src.tla; returns {(item index, vector index): observation}."""
    cases = [{"id": it["key"], "prog": absprog.to_src(it["prog"]), "fn": it["f"]["n"],
              "argv": [absprog.src_args(it["f"], v) for v in it["vecs"]], "ext": it["ext"], "fuel": 3000} for it in items]
    obsdir = tempfile.mkdtemp(prefix="obs_", dir=ctx.workdir)
    path = ctx.trace_file(cases, "src.json")
    # no -coverage: TLC's cost model unfolds the mutually recursive evaluator and exhausts the heap; Src_Run.tla
    # records the actions taken in the variable `acts` instead
    res = ctx.tlc("Src_Run", SRC_CFG, label=label, env={"TRACE_FILE": path, "OBS_DIR": obsdir}, continue_=True,
                  workers=WORKERS, coverage=False)
    os.unlink(path)
    if res.errors:
        e = res.errors[0]
        raise MachineryError("Src.tla could not execute a generated program (%s): %s\n%s" % (
            e.name, {k: str(v)[:200] for k, v in e.last.items() if k in ("i", "av", "status", "why")}, e.text[:1500]))
    obs = {}
    for fn in os.listdir(obsdir):
        with open(os.path.join(obsdir, fn)) as fh:
            r = json.load(fh)
        obs[(r["i"] - 1, r["av"] - 1)] = dict(r["obs"], steps=r["steps"])
        for a in r["acts"]:
            ctx.cov["actions"]["Src." + a] = ctx.cov["actions"].get("Src." + a, 0) + 1
    shutil.rmtree(obsdir, ignore_errors=True)
    want = sum(len(it["vecs"]) for it in items)
    if len(obs) != want:
        raise MachineryError("Src_Run wrote %d observations, expected %d" % (len(obs), want))
    return obs


# ------------------------------------------------------------------ TLC: the judgement
def judge(ctx, items, obs, label):
    cases = []
    for k, it in enumerate(items):
        os_ = [obs[(k, a)] for a in range(len(it["vecs"]))]
        cases.append({"id": it["key"], "mods": [it["pm"]], "fn": it["f"]["n"], "argv": it["ir_argv"], "ext": it["ext"],
                      "fuel": min(60000, 2000 + 100 * max(o["steps"] for o in os_)), "obs": os_})
    path = ctx.trace_file(cases, "ir.json")
    res = ctx.tlc("Src_IR", IR_CFG, label=label, env={"TRACE_FILE": path}, continue_=True, workers=WORKERS, heap="12g",
                  coverage=os.environ.get("C01_COVERAGE", "1") == "1")
    os.unlink(path)
    bad = {}
    for e in res.errors:
        st = e.last
        i, av = st.get("i"), st.get("av")
        if e.kind != "invariant" or not isinstance(i, int) or i < 1 or not isinstance(av, int):
            raise MachineryError("unexpected TLC error in the Src_IR run: %s\n%s" % (e, e.text[:1500]))
        bad.setdefault((i - 1, av - 1), []).append((e.name, st))
    return res, bad


def decode(bs, signed):
    v = sum(b << (8 * k) for k, b in enumerate(bs))
    if signed and bs and bs[-1] >= 128:
        v -= 1 << (8 * len(bs))
    return v


def describe(it, a, o, clause, st):
    return "%s(%s): C semantics (Src.tla) gives ret=%s calls=%s; ppci's IR gives status=%s%s ret=%s calls=%s [%s]" % (
        it["f"]["n"], ", ".join(map(str, it["vecs"][a])), decode(o["ret"], is_signed(it["f"]["ret"])),
        [(c["name"], [decode(x, True) for x in c["args"]]) for c in o["calls"]][:6], st.get("status"),
        (" (%s)" % st.get("why")) if st.get("why") else "",
        decode(st["ret"], is_signed(it["f"]["ret"])) if isinstance(st.get("ret"), list) and st.get("ret") else st.get("ret"),
        str(st.get("calls"))[:160], clause)


# ------------------------------------------------------------------ gcc reference guard
def src_lines(it, o):
    """A Src observation in the format printed by absprog.render_gcc_main."""
    prog, f = it["prog"], it["f"]
    out = []
    extsig = {x["n"]: x for x in prog["externs"]}
    for c in o["calls"]:
        out.append("CALL %s" % c["name"] + "".join(" %d" % decode(a, is_signed(t)) for a, t in zip(c["args"], extsig[c["name"]]["args"])))
    out.append("RET %d" % decode(o["ret"], is_signed(f["ret"])))
    gl = {}
    for g in o["globals"]:
        gl.setdefault(g["name"], []).append(g)
    for g in prog["globals"]:
        ents = gl.get(g["n"], [])
        if "struct" in g:
            for m, e in zip(flat_fields(g), ents):
                out.append("G %s.%s %d" % (g["n"], m["f"], decode(e["bytes"], is_signed(m["ty"]))))
        elif g.get("len"):
            n = BITS[g["ty"]] // 8
            for j in range(g["len"]):
                out.append("G %s[%d] %d" % (g["n"], j, decode(ents[0]["bytes"][j * n:(j + 1) * n], is_signed(g["ty"]))))
        else:
            out.append("G %s %d" % (g["n"], decode(ents[0]["bytes"], is_signed(g["ty"]))))
    return out


def gcc_outputs(it, wd, vec_idx=None):
    """Compile the program natively with UBSan and run it on the selected vectors: {index: (returncode, lines)} or None."""
    d = tempfile.mkdtemp(dir=wd)
    try:
        c, exe = os.path.join(d, "p.c"), os.path.join(d, "p")
        with open(c, "w") as fh:
            fh.write(absprog.render_gcc_main(it["prog"], it["f"], it["vecs"], it["ext"]))
        r = subprocess.run(["gcc", "-O0", "-w", "-fsanitize=undefined", "-fno-sanitize-recover=all", "-o", exe, c],
                           capture_output=True, text=True, timeout=120)
        if r.returncode:
            return None
        outs = {}
        for k in (range(len(it["vecs"])) if vec_idx is None else sorted(vec_idx)):
            try:
                p = subprocess.run([exe, str(k)], capture_output=True, text=True, timeout=60)
                if p.returncode == 0 or "runtime error" in p.stderr:
                    outs[k] = (p.returncode, p.stdout.splitlines())
            except subprocess.TimeoutExpired:
                pass        # overloaded machine: no reference answer for this vector
        return outs
    except (OSError, subprocess.TimeoutExpired):
        return None
    finally:
        shutil.rmtree(d, ignore_errors=True)


def gcc_guard(ctx, items, obs, only=None):
    """Reference guard (DESIGN 3.10): {(k, a): 'agrees' | 'trap' | 'differs'} for Src-ok executions;
    only = None: every execution of every item (thorough tier), else {(k, a)}: just these executions."""
    if shutil.which("gcc") is None:
        return {}
    want = {}
    for k in range(len(items)):
        for a in range(len(items[k]["vecs"])):
            if obs[(k, a)]["status"] == "ok" and (only is None or (k, a) in only):
                want.setdefault(k, set()).add(a)
    sel = sorted(want)
    with ThreadPoolExecutor(max_workers=8) as ex:
        outs = list(ex.map(lambda k: gcc_outputs(items[k], ctx.workdir, want[k]), sel))
    verdict = {}
    for k, o in zip(sel, outs):
        if o is None:
            continue
        for a, (rc, lines) in o.items():
            verdict[(k, a)] = "trap" if rc != 0 else ("agrees" if lines == src_lines(items[k], obs[(k, a)]) else "differs")
    return verdict


# ------------------------------------------------------------------ M: the specification checked by itself
MC_CFG = """CONSTANT NV = %d
INIT MInit
NEXT MNext
CHECK_DEADLOCK FALSE
INVARIANT TypeOK
INVARIANT NeverStuck
INVARIANT LawTyping
INVARIANT LawConvExact
INVARIANT LawConvInt
INVARIANT LawArithInt
INVARIANT LawShiftInt
INVARIANT LawWidth
INVARIANT LawCmpWidth
INVARIANT LawOvf64
INVARIANT LawUnsigned64
INVARIANT ExpectMet
INVARIANT Deterministic
INVARIANT TypesAgree
"""
SRC_ACTIONS = ["Decl", "DeclArr", "ExprStmt", "Assign", "IncDec", "If", "SeqStmt", "While", "DoWhile", "LoopTest", "For",
               "ForTest", "Switch", "SwitchStep", "Break", "Continue", "Return", "BlockEnd", "OutOfFuel"]


def IDX(a, e):
    return {"k": "idx", "a": a, "e": e}


def FLD(s, f):
    return {"k": "fld", "s": s, "f": f}


def DECL(n, ty, e):
    return {"k": "decl", "n": n, "ty": ty, "e": e}


def CALL(f, *args):
    return {"k": "call", "f": f, "args": list(args)}


def IF(c, t, f=()):
    return {"k": "if", "c": c, "t": list(t), "f": list(f)}


def CAST(ty, a):
    return {"k": "cast", "ty": ty, "a": a}


def micro_programs():
    """Hand-written programs with the outcome the C standard prescribes (derived by hand, confirmed with gcc):
    (name, program, [(args, status, return value, [external calls], {global: value})], stub table, fuel)."""
    w = absprog.word
    out = []

    def add(name, prog, runs, ext=(), fuel=400):
        out.append((name, prog, runs, list(ext), fuel))

    EXT = [{"n": "ext_a", "ret": "i32", "args": ["i32"]}, {"n": "ext_b", "ret": "i32", "args": ["i32", "i32"]}]
    STUB = [{"name": "ext_a", "rets": [w(11, 4), w(-3, 4)]}, {"name": "ext_b", "rets": [w(7, 4)]}]
    # for: sum of 0..n-1, the bound is evaluated before every iteration
    add("for-sum", PROG([FN("f", "i32", [("n", "i32")],
                            [DECL("s", "i32", L(0)), {"k": "for", "v": "i", "lo": 0, "hi": V("n"), "b": [ASG(V("s"), V("i"), "+=")]},
                             RET(V("s"))])]),
        [([5], "ok", 10), ([0], "ok", 0), ([-3], "ok", 0)])
    # while with continue and break; do-while runs its body once although the condition is false
    add("while-break-continue",
        PROG([FN("f", "i32", [("n", "i32")],
                 [DECL("s", "i32", L(0)), DECL("k", "i32", L(0)),
                  {"k": "while", "c": B("<", V("k"), V("n")),
                   "b": [{"k": "inc", "lhs": V("k"), "op": "++"},
                         IF(B("==", V("k"), L(2)), [{"k": "continue"}]),
                         IF(B("==", V("k"), L(5)), [{"k": "break"}]),
                         ASG(V("s"), V("k"), "+=")]},
                  {"k": "dowhile", "c": B("<", V("k"), L(0)), "b": [ASG(V("s"), L(100), "+=")]},
                  RET(V("s"))])]),
        [([10], "ok", 1 + 3 + 4 + 100), ([1], "ok", 101), ([0], "ok", 100)])
    # continue in a for loop goes to the increment, break leaves the innermost loop only
    add("for-continue-break",
        PROG([FN("f", "i32", [("n", "i32")],
                 [DECL("s", "i32", L(0)),
                  {"k": "for", "v": "i", "lo": 0, "hi": V("n"),
                   "b": [IF(B("==", V("i"), L(1)), [{"k": "continue"}]),
                         {"k": "for", "v": "j", "lo": 1, "hi": L(4),
                          "b": [IF(B("==", V("j"), L(3)), [{"k": "break"}]), ASG(V("s"), B("*", V("j"), L(10)), "+=")]},
                         IF(B("==", V("i"), L(4)), [{"k": "break"}]),
                         ASG(V("s"), V("i"), "+=")]},
                  RET(V("s"))])]),
        [([10], "ok", 30 * 4 + 0 + 2 + 3), ([2], "ok", 30), ([0], "ok", 0)])
    add("dowhile-continue",
        PROG([FN("f", "i32", [("n", "i32")],
                 [DECL("s", "i32", L(0)), DECL("k", "i32", L(0)),
                  {"k": "dowhile", "c": B("<", V("k"), V("n")),
                   "b": [{"k": "inc", "lhs": V("k"), "op": "++"},
                         IF(B("==", B("%", V("k"), L(2)), L(0)), [{"k": "continue"}]),     # continue re-tests the condition
                         ASG(V("s"), V("k"), "+=")]},
                  RET(V("s"))])]),
        [([5], "ok", 1 + 3 + 5), ([0], "ok", 1), ([2], "ok", 1)])
    # switch: default in the middle, fall-through, break leaves only the switch, continue goes to the loop
    cases = [{"v": 1, "b": [ASG(V("r"), L(10), "+=")], "brk": False},
             {"v": None, "b": [ASG(V("r"), L(100), "+=")], "brk": True},
             {"v": 2, "b": [ASG(V("r"), L(1000), "+=")], "brk": False},
             {"v": 7, "b": [ASG(V("r"), L(5), "+="), IF(B(">", V("a"), L(0)), [{"k": "continue"}])], "brk": True}]
    add("switch",
        PROG([FN("f", "i32", [("a", "c8")],
                 [DECL("r", "i32", L(0)),
                  {"k": "for", "v": "i", "lo": 0, "hi": L(2), "b": [{"k": "switch", "e": V("a"), "cases": cases},
                                                                  ASG(V("r"), L(1), "+=")]},
                  RET(V("r"))])]),
        [([1], "ok", 222), ([2], "ok", 2010), ([7], "ok", 10), ([3], "ok", 202), ([-1], "ok", 202)])
    # a switch nested in the body of another one, followed by further case / default labels of the outer switch
    inner = {"k": "switch", "e": V("b"),
             "cases": [{"v": 11, "b": [ASG(V("r"), L(1), "+=")], "brk": True},       # labels disjoint from the outer ones
                       {"v": None, "b": [ASG(V("r"), L(2), "+=")], "brk": False},
                       {"v": 13, "b": [ASG(V("r"), L(4), "+=")], "brk": True}]}
    outer = [{"v": 1, "b": [ASG(V("r"), L(10), "+="), inner], "brk": False},
             {"v": 2, "b": [ASG(V("r"), L(20), "+=")], "brk": True},
             {"v": 3, "b": [ASG(V("r"), L(30), "+=")], "brk": True},
             {"v": None, "b": [ASG(V("r"), L(40), "+="), dict(inner)], "brk": False},
             {"v": 5, "b": [ASG(V("r"), L(50), "+=")], "brk": True}]
    add("nested-switch",
        PROG([FN("f", "i32", [("a", "i32"), ("b", "u8")],
                 [DECL("r", "i32", L(0)), {"k": "switch", "e": V("a"), "cases": outer}, RET(V("r"))])]),
        [([1, 11], "ok", 31), ([1, 13], "ok", 34), ([1, 9], "ok", 36), ([2, 11], "ok", 20), ([3, 11], "ok", 30), ([3, 13], "ok", 30),
         ([5, 0], "ok", 50), ([4, 11], "ok", 91), ([9, 2], "ok", 96), ([-1, 13], "ok", 94)])
    # calls: sequenced calls are fine, two calls that write the same global in one expression are not
    gfun = FN("g", "i32", [("x", "i32")], [ASG(V("gv"), B("+", V("gv"), V("x"))), RET(V("gv"))])
    GV = [{"n": "gv", "ty": "i32", "len": 0, "init": [1]}]
    add("calls-sequenced",
        PROG([gfun, FN("f", "i32", [("a", "i32")],
                       [DECL("t", "i32", CALL("g", V("a"))), DECL("u", "i32", CALL("g", B("+", V("a"), L(1)))),
                        RET(B("+", B("*", V("t"), L(100)), V("u")))])], GV),
        [([2], "ok", 306, [], {"gv": (6, 4)})])
    add("calls-interfere", PROG([gfun, FN("f", "i32", [("a", "i32")], [RET(B("+", CALL("g", V("a")), CALL("g", L(1))))])], GV),
        [([2], "unspec", 0)])
    add("calls-nested-and-conditional",
        PROG([gfun, FN("h", "i32", [("x", "i32"), ("y", "c8")], [RET(B("-", V("x"), V("y")))]),
              FN("f", "i32", [("a", "i32")],
                 [RET(B("+", CALL("h", CALL("g", V("a")), L(5)),
                        {"k": "cond", "c": B("&&", B(">", V("a"), L(0)), B(">", CALL("h", V("a"), L(1)), L(0))),
                         "a": CALL("h", L(50), L(8)), "b": L(0)}))])], GV),
        [([2], "ok", (3 - 5) + 42, [], {"gv": (3, 4)}), ([0], "ok", (1 - 5) + 0), ([1], "ok", (2 - 5) + 0)])
    add("call-argument-conversion",
        PROG([FN("h", "i32", [("y", "c8")], [RET(V("y"))]), FN("f", "i32", [("a", "i32")], [RET(CALL("h", V("a")))])]),
        [([100], "ok", 100), ([-128], "ok", -128), ([200], "impldef", 0)])
    # external calls: logged in order with converted arguments, results from the stub table
    add("extern-calls",
        PROG([FN("f", "i32", [("a", "u8")],
                 [{"k": "expr", "e": CALL("ext_a", V("a"))}, DECL("t", "i32", CALL("ext_b", CALL("ext_a", L(1)), L(2))),
                  RET(B("+", V("t"), CALL("ext_a", L(9))))])], [], EXT),
        [([200], "ok", 7 + 0, [("ext_a", [200]), ("ext_a", [1]), ("ext_b", [-3, 2]), ("ext_a", [9])])], STUB)
    add("extern-calls-unordered",
        PROG([FN("f", "i32", [("a", "u8")], [RET(CALL("ext_b", CALL("ext_a", L(1)), CALL("ext_a", L(2))))])], [], EXT),
        [([0], "unspec", 0)], STUB)
    # short circuit keeps the division from happening
    add("short-circuit",
        PROG([FN("f", "i32", [("a", "i32")],
                 [RET(B("+", B("&&", B("!=", V("a"), L(0)), B(">", B("/", L(100), V("a")), L(3))),
                        B("*", L(2), B("||", B("==", V("a"), L(0)), B("<", B("%", L(7), V("a")), L(0))))))])]),
        [([0], "ok", 2), ([5], "ok", 1), ([50], "ok", 0), ([-7], "ok", 0)])
    # undefined behaviour
    add("ub-overflow", PROG([FN("f", "i32", [("a", "i32")], [RET(B("+", V("a"), L(1)))])]),
        [([2147483647], "undefined", 0), ([2147483646], "ok", 2147483647)])
    add("ub-divide", PROG([FN("f", "i32", [("a", "i32"), ("b", "i32")], [RET(B("%", V("a"), V("b")))])]),
        [([1, 0], "undefined", 0), ([-2147483648, -1], "undefined", 0), ([-7, 2], "ok", -1), ([7, -2], "ok", 1)])
    add("ub-shift", PROG([FN("f", "i32", [("a", "u8"), ("n", "i32")], [RET(B("<<", V("a"), V("n")))])]),
        [([1, 32], "undefined", 0), ([1, -1], "undefined", 0), ([1, 31], "undefined", 0), ([1, 30], "ok", 1 << 30),
         ([255, 23], "ok", 255 << 23), ([255, 24], "undefined", 0)])
    add("ub-index", PROG([FN("f", "i32", [("k", "i32")], [RET(IDX("ga", V("k")))])], [{"n": "ga", "ty": "i16", "len": 3, "init": [4, 5]}]),
        [([3], "undefined", 0), ([-1], "undefined", 0), ([2], "ok", 0), ([1], "ok", 5)])
    add("ub-no-return", PROG([FN("f", "i32", [("k", "i32")], [IF(B(">", V("k"), L(0)), [RET(L(1))])])]),
        [([1], "ok", 1), ([0], "undefined", 0)])
    # implementation-defined
    add("impldef", PROG([FN("f", "i32", [("a", "i32"), ("m", "i32")],
                            [IF(V("m"), [RET(CAST("c8", V("a")))]), RET(B(">>", V("a"), L(1)))])]),
        [([200, 1], "impldef", 0), ([-1, 0], "impldef", 0), ([-128, 1], "ok", -128), ([255, 0], "ok", 127)])
    # unsigned arithmetic and mixed comparisons
    add("unsigned", PROG([FN("f", "i64", [("a", "i32")],
                             [IF(B("<", V("a"), L(1, "u32")), [RET(B("-", L(0, "u32"), L(1, "u32")))]),
                              RET({"k": "cond", "c": B(">", V("a"), L(5)), "a": U("-", L(1)), "b": L(1, "u32")})])]),
        [([0], "ok", 4294967295), ([-1], "ok", 1), ([9], "ok", 4294967295), ([3], "ok", 1)])
    add("literal-types", PROG([FN("f", "i32", [("a", "i32")],
                                  [RET(B("+", B(">", L(2147483648), U("-", L(1))),
                                         B("*", L(2), B(">", L(2147483648, "u32"), U("-", L(1))))))])]),
        [([0], "ok", 1)])
    # compound assignment and ++ are computed in the converted type, then converted back
    add("compound", PROG([FN("f", "i32", [("a", "u8"), ("b", "i32")],
                             [ASG(V("a"), V("b"), "+="), ASG(V("a"), L(31), ">>="), {"k": "inc", "lhs": V("a"), "op": "--"},
                              RET(V("a"))])]),
        [([200, 100], "ok", 255), ([200, 2147483447], "ok", 255), ([1, 2147483647], "undefined", 0)])
    add("compound-signed", PROG([FN("f", "i32", [("a", "c8"), ("b", "u32")], [ASG(V("a"), V("b"), "/="), RET(V("a"))])]),
        # (unsigned)-2 / 2 = 2147483647 is not representable in signed char; (unsigned)-2 / UINT_MAX = 0
        [([-2, 2], "impldef", 0), ([100, 7], "ok", 14), ([-128, 1], "impldef", 0), ([-2, 4294967295], "ok", 0)])
    # struct layout and arrays through a pointer parameter
    gs = {"n": "gs", "struct": [{"f": "m0", "ty": "c8"}, {"f": "m1", "ty": "i32"}, {"f": "m2", "ty": "u8"}, {"f": "m3", "ty": "i64"}],
          "init": [1, 2, 3]}
    pfun = {"n": "g", "ret": "i32", "params": [{"n": "i", "ty": "c8"}, {"n": "p", "ty": "i16", "ptr": True, "len": 4}],
            "body": [ASG({"k": "deref", "p": "p", "e": V("i")}, L(7), "*="), RET({"k": "deref", "p": "p", "e": L(0)})]}
    add("struct-and-pointer",
        PROG([pfun, FN("f", "i32", [("a", "c8")],
                       [ASG(FLD("gs", "m1"), B("+", FLD("gs", "m2"), V("a"))), ASG(FLD("gs", "m3"), U("-", L(2))),
                        {"k": "declarr", "n": "la", "ty": "u8", "len": 3, "init": [250]},
                        ASG(IDX("la", L(2)), B("+", IDX("la", L(0)), L(10))),
                        RET(B("+", CALL("g", V("a"), {"k": "addr", "a": "ga", "e": L(1)}), IDX("la", L(2))))])],
             [gs, {"n": "ga", "ty": "i16", "len": 4, "init": [10, 20, 30, 40]}]),
        [([-1], "ok", 20 + 4, [], {"gs@4": (2, 4), "gs@8": (3, 1), "gs@16": (-2, 8), "gs@0": (1, 1), "ga": [(70, 2), (20, 2), (30, 2), (40, 2)]}),
         ([2], "ok", 20 + 4, [], {"ga": [(10, 2), (20, 2), (30, 2), (280, 2)], "gs@4": (5, 4)}),
         ([3], "undefined", 0), ([-2], "undefined", 0)])
    # conversion on return; infinite loop runs out of fuel
    add("return-conversion", PROG([FN("f", "u8", [("a", "i32")], [RET(V("a"))])]), [([300], "ok", 44), ([-1], "ok", 255)])
    add("fuel", PROG([FN("f", "i32", [("a", "i32")], [{"k": "while", "c": L(1), "b": [{"k": "seq", "b": [{"k": "expr", "e": V("a")}]}]},
                                                      RET(L(0))])]), [([0], "fuel", 0)], fuel=60)
    return out


def micro_cases():
    cases = []
    for name, prog, runs, ext, fuel in micro_programs():
        f = [x for x in prog["funcs"] if x["n"] == prog["main"]][0]
        extsig = {x["n"]: x for x in prog["externs"]}
        expect = []
        for run in runs:
            args, status, rv = run[0], run[1], run[2]
            calls = run[3] if len(run) > 3 else []
            gl = run[4] if len(run) > 4 else {}
            globs = []
            for gname, val in gl.items():
                if isinstance(val, list):
                    globs.append({"name": gname, "off": 0, "bytes": sum((absprog.word(v, n) for v, n in val), [])})
                else:
                    nm, _, off = gname.partition("@")
                    globs.append({"name": nm, "off": int(off or 0), "bytes": absprog.word(val[0], val[1])})
            expect.append({"status": status, "ret": absprog.word(rv, BITS[f["ret"]] // 8) if status == "ok" else [],
                           "calls": [{"name": n, "args": [absprog.word(a, BITS[t] // 8) for a, t in zip(av, extsig[n]["args"])]}
                                     for n, av in calls],
                           "globals": globs})
        cases.append({"id": name, "prog": absprog.to_src(prog), "fn": f["n"], "argv": [absprog.src_args(f, r[0]) for r in runs],
                      "ext": ext, "fuel": fuel, "expect": expect})
    return cases


def model_check(ctx):
    cases = micro_cases()
    path = ctx.trace_file(cases, "micro.json")
    nv = 13 if ctx.tier == "thorough" else 7
    obsdir = tempfile.mkdtemp(prefix="mcobs_", dir=ctx.workdir)
    res = ctx.tlc("Src_MC", MC_CFG % nv, label="Src_MC laws + micro programs", env={"TRACE_FILE": path, "OBS_DIR": obsdir},
                  continue_=True, workers=WORKERS, coverage=False)
    os.unlink(path)
    covered = {}
    for fn in os.listdir(obsdir):
        with open(os.path.join(obsdir, fn)) as fh:
            for a in json.load(fh)["acts"]:
                covered[a] = covered.get(a, 0) + 1
    shutil.rmtree(obsdir, ignore_errors=True)
    if res.errors:
        msgs = []
        for e in res.errors[:6]:
            st = e.last
            i = st.get("i")
            msgs.append("%s %s case=%s state=%s %s" % (
                e.kind, e.name, cases[i - 1]["id"] if isinstance(i, int) and 0 < i <= len(cases) else "-",
                {k: str(v)[:300] for k, v in st.items() if k in ("i", "av", "lw", "status", "why", "ret", "calls", "glob")},
                e.text[:300] if e.kind == "eval" else ""))
        raise MachineryError("Src.tla fails its own model check:\n" + "\n".join(msgs))
    missing = [a for a in SRC_ACTIONS if a not in covered]
    if missing:
        raise MachineryError("Src_MC micro programs do not take the actions %s" % missing)
    for a, n in covered.items():
        ctx.cov["actions"]["Src_MC." + a] = n
    ctx.cov["mc_micro_programs"] = len(cases)
    ctx.cov["mc_micro_runs"] = sum(len(c["argv"]) for c in cases)
    ctx.cov["mc_law_instances"] = 64 * nv * nv


# ------------------------------------------------------------------ the engine
class Engine:
    LEVEL = "model_checking"

    def run(self, ctx):
        thorough = ctx.tier == "thorough"
        ctx.rule("stage 1, systematic probes: one micro program per construct x integer type combination (18 binary operators and the "
                 "type of their result, 10 compound assignments on locals and on array elements, ++/--, unary operators, casts, "
                 "conversion on return / initialisation / argument passing / store, ?:, p[i] and a[i] with every index type, literal "
                 "typing, switch on every type, struct layouts) on boundary-value argument vectors (quick: the sentinel probes + a seeded "
                 "sample of 500 of the probes, 4 vectors each; thorough: all probes, 8 vectors each).  Stage 2, random programs of "
                 "harness/absprog.py (functions, loops, switch, arrays, structs, pointers into arrays, calls, external calls; 50 x 6 "
                 "vectors quick, 200 x 8 thorough), generated without the construct classes whose probes failed in stage 1.  Every "
                 "(program, vector) is executed by TLC under Src.tla; those ending 'ok' are compared by TLC with the execution of ppci's "
                 "IR under IR.tla (Src_IR.tla).  distinct = distinct (program, vector) pairs compared; undefined / implementation-defined / "
                 "unspecified-order executions are skipped and counted in src_status")
        ctx.assume("harness/absprog.py render_c prints the abstract program faithfully as C; to_src re-encodes it for TLC without interpretation")
        ctx.assume("harness/project_ir.py reports the IR module faithfully; IR.tla is the meaning of ppci IR (as for C02)")
        ctx.assume("Src.tla is the C abstract machine for the LP64 data model of ppci's x86_64 target (cross-validated against gcc -fsanitize=undefined)")
        model_check(ctx)

        # ---- stage 1: systematic probes -------------------------------------------------------------
        allp = list(probes()) + list(prec_probes())
        if thorough:
            chosen = allp
        else:
            # quick: the sentinels (one or two per construct class that the random stage may have to avoid)
            # with 24 vectors + a seeded sample of the rest; the thorough tier runs every probe
            rest = [p for p in allp if p[0] not in SENTINELS and p[0] not in PREC_SENTINELS]
            chosen = [p for p in allp if p[0] in SENTINELS or p[0] in PREC_SENTINELS] + \
                     [rest[k] for k in sorted(ctx.rng.sample(range(len(rest)), min(QUICK_PROBES, len(rest))))]
        items = []
        for key, prog, small in chosen:
            f = [x for x in prog["funcs"] if x["n"] == prog["main"]][0]
            n = None if len(f["params"]) < 2 else SENTINEL_VECTORS if key in SENTINELS else \
                (THOROUGH_PROBE_VECTORS if thorough else QUICK_PROBE_VECTORS)
            items.append(make_item(key, prog, probe_vectors(f, small, ctx.rng, n), [], "probe"))
        # the hand-written micro programs of the model check are also judged against ppci (loops, switch, calls, ...)
        for name, prog, runs, ext, _ in micro_programs():
            if name != "fuel":
                items.append(make_item("micro:" + name, prog, [r[0] for r in runs], ext, "probe"))
        ctx.cov["probes_total"] = len(allp)
        ctx.cov["probes_run"] = len(items)
        stat = {}
        failing = self.stage(ctx, items, "probes", stat, 1500)
        classes = sorted({c for k in failing for c in [construct_class(k)] if c})
        ctx.cov["construct_classes_avoided_in_random_programs"] = classes

        # ---- stage 2: random programs (without the construct classes whose probes failed in stage 1) ------
        rnd = random_items(ctx, 200 if thorough else QUICK_PROGRAMS, 8 if thorough else 6, classes)
        self.stage(ctx, rnd, "random", stat, 250)
        ctx.cov["src_status"] = stat
        tot = sum(v for k, v in stat.items() if ":" not in k)
        ctx.cov["compared_ratio"] = round(stat.get("ok", 0) / max(1, tot), 3)
        rt = sum(v for k, v in stat.items() if k.startswith("random:"))
        ctx.cov["compared_ratio_random_programs"] = round(stat.get("random:ok", 0) / max(1, rt), 3)

    def stage(self, ctx, items, name, stat, batch_size):
        """Compile, execute under Src.tla, judge against the IR; returns the keys of the items with a violation."""
        if ctx.only is not None and (ctx.only.get("case") or {}).get("item"):
            want = ctx.only["case"]["item"]
            items = [it for it in items if it["key"] == want or (name == "probes" and it["key"] in SENTINELS)]
        ctx.cov["programs_generated"] = ctx.cov.get("programs_generated", 0) + len(items)
        items = compile_items(ctx, items)
        ctx.cov["programs_compiled"] = ctx.cov.get("programs_compiled", 0) + len(items)
        failing = set()
        for bi in range(0, len(items), batch_size):
            batch = items[bi:bi + batch_size]
            obs = run_src(ctx, batch, "Src executions (%s %d)" % (name, bi // batch_size))
            res, bad = judge(ctx, batch, obs, "Src vs IR (%s %d)" % (name, bi // batch_size))
            # reference guard: every disagreement; in the thorough tier also every random program and every
            # fourth probe, whether or not ppci agrees with Src.tla (cross-validation of the specification)
            only = set(bad)
            if ctx.tier == "thorough":
                only |= {(k, a) for k, it in enumerate(batch) if name == "random" or k % 4 == 0 for a in range(len(it["vecs"]))}
            guard = gcc_guard(ctx, batch, obs, only) if only else {}
            failing |= self.account(ctx, batch, obs, bad, guard, stat)
        return failing

    def account(self, ctx, batch, obs, bad, guard, stat):
        reported = set()
        failing = set()
        for k, it in enumerate(batch):
            for a in range(len(it["vecs"])):
                o = obs[(k, a)]
                st = o["status"]
                stat[st] = stat.get(st, 0) + 1
                kind = it["kind"] + ":" + st
                stat[kind] = stat.get(kind, 0) + 1
                if st != "ok":
                    ctx.count(None, n=1)
                    continue
                ctx.count("%s|%s" % (it["key"], it["vecs"][a]))
                ctx.cov["traces_validated_against_impl"] += 1
                g = guard.get((k, a))
                if g is not None:
                    ctx.cov["gcc_" + g] = ctx.cov.get("gcc_" + g, 0) + 1
                if g in ("trap", "differs") and (k, a) not in bad:
                    # the reference disagrees with the specification although ppci agrees with it
                    print("SPEC-SUSPECT property=C01 case=%s args=%s (gcc %s, ppci agrees with Src.tla)" % (it["key"], it["vecs"][a], g))
                    ctx.cov["spec_suspect"] = ctx.cov.get("spec_suspect", 0) + 1
                if (k, a) in bad:
                    clause, s = bad[(k, a)][0]
                    if g in ("trap", "differs"):
                        # gcc does not side with the specification on this execution: no verdict (DESIGN 3.10)
                        print("SPEC-SUSPECT property=C01 case=%s args=%s (gcc %s)" % (it["key"], it["vecs"][a], g))
                        ctx.cov["spec_suspect"] = ctx.cov.get("spec_suspect", 0) + 1
                        continue
                    failing.add(it["key"])
                    if it["key"] in reported:
                        continue
                    reported.add(it["key"])
                    ctx.violation("C01:" + it["key"], describe(it, a, o, clause, s),
                                  {"item": it["key"], "source": it["src"], "args": it["vecs"][a], "clause": clause,
                                   "expected": {"ret": o["ret"], "calls": o["calls"], "globals": o["globals"]},
                                   "ir_state": {x: s.get(x) for x in ("status", "why", "ret", "calls")},
                                   "gcc": g})
        for it in batch[:2]:
            ctx.sample({"key": it["key"], "args": it["vecs"][:2], "source": it["src"][:400]}, limit=4)
        return failing
