"""C04 — x86-64 native code reproduces C program behaviour (both link paths).

Generated C programs (harness/absprog.py: integer programs with arrays, structs, pointers into arrays, switch, loops,
calls, external calls) are compiled by ppci for x86_64 at -O0/1/2/s (api.cc) and executed by the host CPU through two
link paths:
  (a) gcc-ld   ppci writes a relocatable ELF object; gcc links it with a gcc-compiled driver;
  (b) ppci-ld  ppci's own linker builds a static ELF executable from the same object, a ppci-compiled driver (-O0),
               start-up code assembled by ppci (entry, write / exit system calls) and a memory layout after
               examples/linux64; ppci's ELF writer emits the executable.
Observed trace of each execution = [output bytes (return value, final bytes of every global, external calls with their
arguments, printed by the driver), exit status].

T: IRNative.tla    the trace must be the one tla/IR.tla prescribes for the IR that api.c_to_ir emits for the program
                   (NativeCompletes / NativeReturn / NativeExit / NativeGlobals / NativeCalls).  Together with C01
                   (Src.tla, the C abstract machine, is refined by that IR) this is C04.
E: SrcNative_Eval  (thorough tier) additionally the trace is compared directly with the observation TLC computes under
                   Src.tla (engines/c01.py run_src) for every execution the C standard fully defines and for which the
                   front-end check of C01 holds (divergences of the front-end are C01's findings, counted here).
"""
import io
import logging
import random

from engines import c05
from harness import absprog, core, native, optcorpus, project_ir
from harness.tlc import MachineryError

logging.getLogger().addHandler(logging.NullHandler())

LEVELS = ("0", "1", "2", "s")
SN_CFG = """INIT Init
NEXT Next
CHECK_DEADLOCK FALSE
INVARIANT SrcCompletes
INVARIANT SrcReturn
INVARIANT SrcGlobals
INVARIANT SrcCalls
"""


def c_programs(ctx, n, nvec, seeds=None):
    rng = random.Random("%d:c04:c" % ctx.seed)
    out = []
    for seed in (seeds or [rng.randrange(1 << 30) for _ in range(n)]):
        prng = random.Random(seed)
        prog = absprog.Gen(prng, max_funcs=3, max_stmts=6, max_depth=3).program()
        src = absprog.render_c(prog)
        f, vecs = absprog.arg_vectors(prog, prng, nvec)
        ext = optcorpus.ext_stubs(prog, prng)
        names = [g["n"] for g in prog["globals"]] + [x["n"] for x in prog["externs"]] + [fn["n"] for fn in prog["funcs"]]
        out.append({"key": "c%d" % seed, "seed": seed, "prog": prog, "csrc": src, "names": names, "fn": f["n"], "vecs": vecs,
                    "ext": ext, "src": "harness/absprog.py Gen(random.Random(%d)).program():\n%s" % (seed, src)})
    return out


def prepare_c(ctx, programs, levels=LEVELS):
    """Per program: IR projection of c_to_ir(source) for the specification; per level the object api.cc produces
    (symbols prefixed so that many programs fit one gcc-linked executable); per distinct object a ppci-linked executable."""
    from ppci import api

    ready = []
    for pi, p in enumerate(programs):
        try:
            pm = project_ir.project_module(api.c_to_ir(io.StringIO(p["csrc"]), "x86_64"), 8)
        except Exception:  # the front-end rejects / crashes: C28's business
            ctx.cov["frontend_rejected"] = ctx.cov.get("frontend_rejected", 0) + 1
            continue
        sig, why = native.sig_of(pm, p["fn"])
        if sig is None:
            ctx.cov["skipped_signature"] = ctx.cov.get("skipped_signature", 0) + 1
            continue
        vecs = [v for v in p["vecs"] if len(v) == len(sig["params"])]
        if not vecs:
            continue
        prefix = "u%d_" % pi
        src = native.rename_c(p["csrc"], p["names"], prefix)
        units = []
        byhash = {}
        for lv in levels:
            label = "O%s+gcc-ld" % lv
            itags = []
            with native.SpillWatch() as sw:
                try:
                    # the steps of api.cc, with the optimised module in hand (to name known defect classes in keys)
                    def work(lv=lv):
                        m = api.c_to_ir(io.StringIO(src), "x86_64")
                        api.optimize(m, level=lv)
                        return native.ir_tags(m), api.ir_to_object([m], "x86_64")

                    itags, obj = native.limited(work, native.COMPILE_LIMIT_S, "x86_64 cc")
                    err = None
                except Exception as e:  # code generation refused the program: C29's business
                    obj, err = None, "codegen:" + type(e).__name__
            if err:
                k = "skipped_" + err.replace(":", "_")
                ctx.cov[k] = ctx.cov.get(k, 0) + 1
                ctx.cov["skipped_codegen"] = ctx.cov.get("skipped_codegen", 0) + 1
                continue
            try:
                elf, err = native.elf_bytes(obj), None
            except Exception as e:
                elf, err = None, "error:elf-writer:" + type(e).__name__
            if elf is not None and native.digest(elf) in byhash:
                byhash[native.digest(elf)].labels.append(label)
                continue
            u = native.Unit("%s|%s" % (p["key"], label), prefix, sig, vecs, p["ext"], elf=elf, err=err, obj=obj,
                            labels=[label], tags=sorted(set(itags + sw.tags())))
            if elf is not None:
                byhash[native.digest(elf)] = u
            units.append(u)
        if not units:
            continue
        if ctx.tier == "thorough":
            # reference (DESIGN 3.10): the same source compiled by gcc -O0; judged by TLC like the other variants, but a
            # disagreement is only printed as SPEC-SUSPECT (it questions Src/IR.tla or ppci's front-end, not the back-end)
            ref = gcc_reference(src)
            if ref is not None:
                units.append(native.Unit("%s|ref:gcc-O0" % p["key"], prefix, sig, vecs, p["ext"], elf=ref, labels=["ref:gcc-O0"]))
        ready.append({"p": p, "pm": pm, "sig": sig, "vecs": vecs, "units": units})
    return ready


def gcc_reference(src):
    import os

    with native.Workdir() as wd:
        try:
            o = native.gcc_compile(wd, src, flags=("-O0", "-fwrapv", "-fno-strict-aliasing"))
            with open(o, "rb") as f:
                return f.read()
        except native.HarnessError:
            return None


def ppci_link_path(wd, ready, results):
    """Link path (b): for every distinct object a static executable built by ppci alone; run through the launcher."""
    from ppci import api

    launcher = native.build_launcher(wd)
    items = []
    for r in ready:
        r["extra_variants"] = []
        head = r["units"][0]
        if head.labels[0].startswith("ref:"):
            continue
        try:
            drv = native.limited(lambda: api.cc(io.StringIO(native.ppci_driver_text(head)), "x86_64", opt_level=0),
                                 native.COMPILE_LIMIT_S, "x86_64 cc")
            derr = None
        except Exception as e:
            drv, derr = None, "error:driver-codegen:" + type(e).__name__
        for u in r["units"]:
            if u.labels and u.labels[0].startswith("ref:"):
                continue
            key = u.key.replace("+gcc-ld", "+ppci-ld")
            data, err = None, derr
            if drv is not None and u.obj is not None:
                try:
                    data = native.limited(lambda: native.ppci_link_exe([u.obj, drv]), native.COMPILE_LIMIT_S, "ppci link")
                except Exception as e:
                    err = "error:ppci-link:" + type(e).__name__
            elif u.obj is None:
                err = u.err or "error:no-object"
            items.append((key, data, err, len(u.vecs)))
            for lab in u.labels:
                r["extra_variants"].append((lab.replace("+gcc-ld", "+ppci-ld"), key, u.tags))
    results.update(native.run_standalone(wd, launcher, items))


# ---------------------------------------------------------------------------------------------------
# thorough tier: native trace against the Src.tla observation (C semantics), E idiom
# ---------------------------------------------------------------------------------------------------
def src_level(ctx, cases, ready):
    from engines import c01

    items = []
    for r in ready:
        p = r["p"]
        f = [x for x in p["prog"]["funcs"] if x["n"] == p["fn"]][0]
        items.append({"key": p["key"], "prog": p["prog"], "f": f, "vecs": r["vecs"], "ext": p["ext"], "kind": "random",
                      "src": p["csrc"]})
    items = c01.compile_items(ctx, items)
    if not items:
        return
    obs = c01.run_src(ctx, items, "Src executions (C04)")
    res, bad = c01.judge(ctx, items, obs, "Src vs IR (C04: which executions the front-end preserves)")
    bykey = {c["id"]: c for c in cases}
    recs = []
    stat = {}
    for k, it in enumerate(items):
        c = bykey.get(it["key"])
        if c is None:
            continue
        for a in range(len(it["vecs"])):
            o = obs[(k, a)]
            stat[o["status"]] = stat.get(o["status"], 0) + 1
            if o["status"] != "ok":
                continue
            if (k, a) in bad:
                ctx.cov["src_frontend_divergent_executions"] = ctx.cov.get("src_frontend_divergent_executions", 0) + 1
                continue
            for vi, lab in enumerate(c["vlabels"]):
                if lab.startswith("ref:"):
                    continue
                recs.append({"key": "C04:src:%s%s:%s" % ("".join(t + ":" for t in c["vtags"][vi]), c["id"], lab),
                             "args": c["vecs"][a], "src": o, "nat": c["nat"][a][vi]})
    ctx.cov["src_status"] = stat
    ctx.cov["src_level_records"] = len(recs)
    seen = set()

    def keyfn(r):
        return r["key"]

    # one violation per (program, variant)
    core.eval_records(ctx, "SrcNative_Eval", SN_CFG, recs, keyfn=keyfn, workers=4,
                      whatfn=lambda r, e: "args %s: native %s; the C abstract machine (Src.tla) gives ret=%s calls=%s" % (
                          r["args"], c05.show_obs(r["nat"]), r["src"]["ret"], str(r["src"]["calls"])[:300]))


class Engine:
    LEVEL = "model_checking"

    def run(self, ctx):
        thorough = ctx.tier == "thorough"
        ctx.rule("generated C programs (harness/absprog.py; functions, loops, switch, arrays, structs, pointers into arrays, "
                 "calls, external calls) compiled by ppci for x86_64 at -O0/1/2/s; every distinct object is executed natively "
                 "through both link paths (gcc/ld with a gcc-compiled driver; ppci's linker + ELF writer with a ppci-compiled "
                 "driver and ppci-assembled start-up code) on 4-8 argument vectors; TLC runs the IR that c_to_ir emits under "
                 "IR.tla and compares return word, exit status, final bytes of every global and the external-call sequence.  "
                 "distinct = (program, vector, level, link path) tuples whose IR execution is defined")
        ctx.assume("harness/project_ir.py reports the IR module faithfully; IR.tla is the meaning of ppci IR (as for C02)")
        ctx.assume("gcc, ld, the Linux kernel's ELF loader and the host CPU behave correctly; the drivers print what the function "
                   "under test returned / left in memory / passed to the external stubs")
        ctx.assume("C-level meaning: Src.tla is refined by the IR (property C01); C04 = C01 composed with native ⊑ IR "
                   "(quick tier); the thorough tier also compares the native trace with the Src.tla observation directly")
        ctx.assume("prefixing the program's external names (to link many programs into one executable) does not change its meaning")
        only = (ctx.only or {}).get("case", {}).get("program") if ctx.only else None
        if ctx.only is not None:
            thorough = ctx.only.get("tier", ctx.tier) == "thorough"
        nvec = 6 if thorough else 4
        if only and only.startswith("c") and only[1:].isdigit():
            programs = c_programs(ctx, 0, nvec, seeds=[int(only[1:])])     # replay: rebuild that program from its seed
        else:
            programs = c_programs(ctx, 80 if thorough else 14, nvec)
        holder = {}

        def post(wd, ready, results):
            ppci_link_path(wd, ready, results)
            holder["ready"] = ready

        cases = c05.run_programs(ctx, programs, "C04", prepare_c, post=post)
        import os

        if (thorough or os.environ.get("C04_SRC_LEVEL") == "1") and ctx.only is None:
            src_level(ctx, cases, holder.get("ready", []))
