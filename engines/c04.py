"""C04 — x86-64 native code reproduces C program behaviour (both link paths).

Generated C programs (harness/absprog.py: integer programs with arrays, structs, pointers into arrays, switch, loops,
calls, external calls) are compiled by ppci for x86_64 at -O0/1/2/s (api.cc) and executed by the host CPU through two
link paths:
  (a) gcc-ld   ppci writes a relocatable ELF object; gcc links it with a gcc-compiled driver;
  (b) ppci-ld  ppci's own linker builds a static ELF executable from the same object, a ppci-compiled driver (-O0),
               start-up code assembled by ppci (entry, write / exit system calls) and a memory layout after
               examples/linux64; ppci's ELF writer emits the executable.
Observed trace of each execution = [output bytes (return value, final bytes of every global, external calls with their
arguments, printed by the driver), exit status].

T: IRNative.tla    the trace must be the one tla/IR.tla prescribes for the IR that api.c_to_ir emits for the program
                   (NativeCompletes / NativeReturn / NativeExit / NativeGlobals / NativeCalls).  Together with C01
                   (Src.tla, the C abstract machine, is refined by that IR) this is C04.
E: SrcNative_Eval  (thorough tier) additionally the trace is compared directly with the observation TLC computes under
                   Src.tla (engines/c01.py run_src) for every execution the C standard fully defines and for which the
                   front-end check of C01 holds (divergences of the front-end are C01's findings, counted here).
"""
import io
import logging
import random

from engines import c05
from harness import absprog, core, native, optcorpus, project_ir
from harness.tlc import MachineryError

logging.getLogger().addHandler(logging.NullHandler())

LEVELS = ("0", "1", "2", "s")
SN_CFG = """INIT Init
NEXT Next
CHECK_DEADLOCK FALSE
INVARIANT SrcCompletes
INVARIANT SrcReturn
INVARIANT SrcGlobals
INVARIANT SrcCalls
"""


def c_programs(ctx, n, nvec, seeds=None):
    rng = random.Random("%d:c04:c" % ctx.seed)
    out = []
    for seed in (seeds or [rng.randrange(1 << 30) for _ in range(n)]):
        prng = random.Random(seed)
        prog = absprog.Gen(prng, max_funcs=3, max_stmts=6, max_depth=3).program()
        src = absprog.render_c(prog)
        f, vecs = absprog.arg_vectors(prog, prng, nvec)
        ext = optcorpus.ext_stubs(prog, prng)
        names = [g["n"] for g in prog["globals"]] + [x["n"] for x in prog["externs"]] + [fn["n"] for fn in prog["funcs"]]
        out.append({"key": "c%d" % seed, "seed": seed, "prog": prog, "csrc": src, "names": names, "fn": f["n"], "vecs": vecs,
                    "ext": ext, "src": "harness/absprog.py Gen(random.Random(%d)).program():\n%s" % (seed, src)})
    return out


DIRECTED_C = {
    # displacements around the disp8 / disp32 switch through a pointer parameter; everything the stores can hit is a
    # global whose final bytes are observed
    "disp": ("""
long long pad0[20] = {0};
struct big { long long a[16]; long long tail; long long after[3]; };
struct big gs = {{1,2,3,4,5,6,7,8,9,10,11,12,13,14,15,16}, 17, {18,19,20}};
long long pad1[4] = {0};
unsigned char bytes[400] = {0};
long long touch(struct big *p, long long v) { p->tail = v; p->a[15] = v + 1; p->after[0] = v + 2; return p->tail * 3 + p->a[15] + p->after[0]; }
int poke(unsigned char *c, int v) { c[-129] = v + 1; c[-128] = v + 2; c[-127] = v + 3; c[127] = v + 4; c[128] = v + 5; c[129] = v + 6; return c[-129] + c[-128] * 2 + c[-127] * 3 + c[127] * 5 + c[128] * 7 + c[129] * 11; }
long long peek(long long *q) { return q[16] * 3 + q[-16] * 5 + q[15] + q[-17]; }
long long f0(long long v, int w) { return touch(&gs, v) + gs.tail + poke(&bytes[200], w) + peek(&pad0[17] + 0) + peek(&gs.a[0] + 1); }
""", ["pad0", "gs", "pad1", "bytes", "touch", "poke", "peek", "f0"], [[0, 0], [1, 1], [-5, 77], [123456789012, 250]], []),
    # do-while / while loops whose exit test uses the old value of the loop variable, with an if inside the body
    "latch": ("""
int g1 = 0;
int f0(int n, int s) {
  int i = s & 3; int acc = 0; int k = n & 7;
  do { if (i & 1) { acc += i * 3; } else { acc ^= i + 7; } g1 += 1; } while (i++ < n % 8);
  while (k-- > 0) { if (k & 1) { acc += k; } else { acc -= 2 * k; } g1 += 2; }
  return acc * 16 + i + k;
}
""", ["g1", "f0"], [[0, 0], [1, 1], [7, 2], [-3, 3], [13, 1], [6, 0]], []),
    # calls through function pointers (table in initialised data naming functions that are also called directly), with
    # values live across the indirect call and callees that call a gcc-compiled external function
    "fnptr": ("""
extern int ext_a(int);
int h1(int x, int y, int z) { return x * y + z + ext_a(x); }
int h2(int x, int y, int z) { return x - y * z + ext_a(y); }
int (*tab[2])(int, int, int) = { h1, h2 };
long long via(int x, int y) {
  int (*f)(int, int, int) = tab[x & 1];
  int a = x * 11 + y; int b = y * 13 + x; int c = x * 17 - y; int d = y * 19 - x; int e = x * 23 + 5; int g = y * 29 + 7;
  int r = f(x, y, 3);
  return a + r * b + c * 3 + d * 5 + e * 7 + g * 11 + (a ^ b ^ c ^ d ^ e ^ g);
}
long long f0(int x, int y) {
  long long v = via(x, y);
  int r2 = tab[(x + 1) & 1](y, x, 4);
  return v + r2 + h1(y, x, 1) + h2(x, 2, y) + via(y, x);
}
""", ["ext_a", "h1", "h2", "tab", "via", "f0"], [[0, 0], [1, 1], [2, 5], [7, -3], [-100, 41]], ["ext_a"]),
    # calls between ppci-compiled functions with 5..12 integer parameters (odd and even numbers of memory arguments),
    # ppci -> gcc calls with 7 / 9 / 12 arguments (external stubs log them), gcc -> ppci with 9 (the driver calls f0)
    "manyint": ('extern int ext_n7(int, int, int, int, int, int, int);\nextern int ext_n9(int, int, int, int, int, int, int, int, int);\nextern int ext_n12(int, int, int, int, int, int, int, int, int, int, int, int);\nlong long h5(int a1, int a2, int a3, int a4, int a5) { return (long long)(a1 * 3 + a2 * 5 + a3 * 7 + a4 * 9 + a5 * 11); }\nlong long h6(int a1, int a2, int a3, int a4, int a5, int a6) { return (long long)(a1 * 3 + a2 * 5 + a3 * 7 + a4 * 9 + a5 * 11 + a6 * 13); }\nlong long h7(int a1, int a2, int a3, int a4, int a5, int a6, int a7) { return (long long)(a1 * 3 + a2 * 5 + a3 * 7 + a4 * 9 + a5 * 11 + a6 * 13 + a7 * 15) + ext_n7(a7, a6, a5, a4, a3, a2, a1); }\nlong long h8(int a1, int a2, int a3, int a4, int a5, int a6, int a7, int a8) { return (long long)(a1 * 3 + a2 * 5 + a3 * 7 + a4 * 9 + a5 * 11 + a6 * 13 + a7 * 15 + a8 * 17); }\nlong long h9(int a1, int a2, int a3, int a4, int a5, int a6, int a7, int a8, int a9) { return (long long)(a1 * 3 + a2 * 5 + a3 * 7 + a4 * 9 + a5 * 11 + a6 * 13 + a7 * 15 + a8 * 17 + a9 * 19) + ext_n9(a9, a8, a7, a6, a5, a4, a3, a2, a1); }\nlong long h10(int a1, int a2, int a3, int a4, int a5, int a6, int a7, int a8, int a9, int a10) { return (long long)(a1 * 3 + a2 * 5 + a3 * 7 + a4 * 9 + a5 * 11 + a6 * 13 + a7 * 15 + a8 * 17 + a9 * 19 + a10 * 21); }\nlong long h11(int a1, int a2, int a3, int a4, int a5, int a6, int a7, int a8, int a9, int a10, int a11) { return (long long)(a1 * 3 + a2 * 5 + a3 * 7 + a4 * 9 + a5 * 11 + a6 * 13 + a7 * 15 + a8 * 17 + a9 * 19 + a10 * 21 + a11 * 23); }\nlong long h12(int a1, int a2, int a3, int a4, int a5, int a6, int a7, int a8, int a9, int a10, int a11, int a12) { return (long long)(a1 * 3 + a2 * 5 + a3 * 7 + a4 * 9 + a5 * 11 + a6 * 13 + a7 * 15 + a8 * 17 + a9 * 19 + a10 * 21 + a11 * 23 + a12 * 25) + ext_n12(a12, a11, a10, a9, a8, a7, a6, a5, a4, a3, a2, a1); }\nlong long f0(int a1, int a2, int a3, int a4, int a5, int a6, int a7, int a8, int a9) {\n  long long r = 0;\n  r = r * 3 + h5(a1, a2, a3, a4, a5);\n  r = r * 3 + h6(a2, a3, a4, a5, a6, a7);\n  r = r * 3 + h7(a1 + 101, a2 + 102, a3 + 103, a4 + 104, a5 + 105, a6 + 106, a7 + 107);\n  r = r * 3 + h8(a9, a8, a7, a6, a5, a4, a3, a2);\n  r = r * 3 + h9(a1 + 201, a2 + 202, a3 + 203, a4 + 204, a5 + 205, a6 + 206, a7 + 207, a8 + 208, a9 + 209);\n  r = r * 3 + h10(a1, a3, a5, a7, a9, a2, a4, a6, a8, 310);\n  r = r * 3 + h11(a1 + 401, a2 + 402, a3 + 403, a4 + 404, a5 + 405, a6 + 406, a7 + 407, a8 + 408, a9 + 409, 410, 411);\n  r = r * 3 + h12(a9, a8, a7, a6, a5, a4, a3, a2, a1, 510, 511, 512);\n  return r + a7 * 1000003 + a8 * 1000033 + a9 * 1000037;\n}\n', ['ext_n7', 'ext_n9', 'ext_n12', 'h5', 'h6', 'h7', 'h8', 'h9', 'h10', 'h11', 'h12', 'f0'], [[1, 2, 3, 4, 5, 6, 7, 8, 9], [0, 0, 0, 0, 0, 0, 0, 0, 0], [-1, 20, -300, 4000, -50000, 600000, -7, 88, -999],
                      [11, 22, 33, 44, 55, 66, 77, 88, 99]], ["ext_n7", "ext_n9", "ext_n12"]),
    # two / three mutually dependent loop-carried variables: the phi copies at the latch form a parallel assignment
    "crossloop": ('\nint g1 = 0;\nint g2 = 0;\nlong long f0(int n, int s) {\n  int a = s; int b = s + 1; int c = 3; int t; int i; int k = n & 7;\n  int x = 1; int y = 2; int z = 3; int w;\n  int p = 0; int q = 1;\n  for (i = 0; i < k; i = i + 1) { t = a; a = b + 1; b = t * 2; }           /* b from the old a */\n  for (i = 0; i < k; i = i + 1) { t = x; x = y; y = t; }                       /* swap */\n  for (i = 0; i < k + 1; i = i + 1) { w = x; x = y; y = z; z = w + i; }        /* rotate three */\n  for (i = 0; i < k + 2; i = i + 1) { t = p + q; p = q; q = t; }               /* fibonacci */\n  i = k;\n  while (i > 0) { t = c; c = a - c; a = t + i; i = i - 1; }\n  g1 = a * 7 + b; g2 = x * 100 + y * 10 + z;\n  return (long long)a * 1000003 + b * 10007 + c * 101 + x * 13 + y * 17 + z * 19 + p * 23 + q * 29;\n}\n', ["g1", "g2", "f0"], [[0, 0], [1, 1], [5, 3], [7, -4], [3, 100], [6, 7]], []),
}


def directed_c_programs(ctx, nvec):
    out = []
    for name, (src, names, vecs, externs) in DIRECTED_C.items():
        ext = [{"name": x, "rets": [project_ir.limbs(v, 4) for v in (5, -2, 9, 30, 1, 0, 12, 3)]} for x in externs]
        out.append({"key": "dirc.%s" % name, "csrc": src, "names": names, "fn": "f0", "vecs": vecs[:max(nvec, 4)], "ext": ext,
                    "src": "engines/c04.py DIRECTED_C[%r]:\n%s" % (name, src)})
    return out


def prepare_c(ctx, programs, levels=LEVELS):
    """Per program: IR projection of c_to_ir(source) for the specification; per level the object api.cc produces
    (symbols prefixed so that many programs fit one gcc-linked executable); per distinct object a ppci-linked executable."""
    from ppci import api

    ready = []
    for pi, p in enumerate(programs):
        try:
            pm = project_ir.project_module(api.c_to_ir(io.StringIO(p["csrc"]), "x86_64"), 8)
        except Exception:  # the front-end rejects / crashes: C28's business
            ctx.cov["frontend_rejected"] = ctx.cov.get("frontend_rejected", 0) + 1
            continue
        sig, why = native.sig_of(pm, p["fn"])
        if sig is None:
            ctx.cov["skipped_signature"] = ctx.cov.get("skipped_signature", 0) + 1
            continue
        vecs = [v for v in p["vecs"] if len(v) == len(sig["params"])]
        if not vecs:
            continue
        prefix = "u%d_" % pi
        src = native.rename_c(p["csrc"], p["names"], prefix)
        units = []
        byhash = {}
        for lv in levels:
            label = "O%s+gcc-ld" % lv
            itags = []
            with native.SpillWatch() as sw:
                try:
                    # the steps of api.cc, with the optimised module in hand (to name known defect classes in keys)
                    def work(lv=lv):
                        m = api.c_to_ir(io.StringIO(src), "x86_64")
                        api.optimize(m, level=lv)
                        return native.ir_tags(m), api.ir_to_object([m], "x86_64")

                    itags, obj = native.limited(work, native.COMPILE_LIMIT_S, "x86_64 cc")
                    err = None
                except Exception as e:  # code generation refused the program: C29's business
                    obj, err = None, "codegen:" + type(e).__name__
            if err:
                k = "skipped_" + err.replace(":", "_")
                ctx.cov[k] = ctx.cov.get(k, 0) + 1
                ctx.cov["skipped_codegen"] = ctx.cov.get("skipped_codegen", 0) + 1
                continue
            try:
                elf, err = native.elf_bytes(obj), None
            except Exception as e:
                elf, err = None, "error:elf-writer:" + type(e).__name__
            if elf is not None and native.digest(elf) in byhash:
                byhash[native.digest(elf)].labels.append(label)
                continue
            u = native.Unit("%s|%s" % (p["key"], label), prefix, sig, vecs, p["ext"], elf=elf, err=err, obj=obj,
                            labels=[label], tags=sorted(set(itags + sw.tags())))
            if elf is not None:
                byhash[native.digest(elf)] = u
            units.append(u)
        if not units:
            continue
        if ctx.tier == "thorough":
            # reference (DESIGN 3.10): the same source compiled by gcc -O0; judged by TLC like the other variants, but a
            # disagreement is only printed as SPEC-SUSPECT (it questions Src/IR.tla or ppci's front-end, not the back-end)
            ref = gcc_reference(src)
            if ref is not None:
                units.append(native.Unit("%s|ref:gcc-O0" % p["key"], prefix, sig, vecs, p["ext"], elf=ref, labels=["ref:gcc-O0"]))
        ready.append({"p": p, "pm": pm, "sig": sig, "vecs": vecs, "units": units})
    return ready


def gcc_reference(src):
    import os

    with native.Workdir() as wd:
        try:
            o = native.gcc_compile(wd, src, flags=("-O0", "-fwrapv", "-fno-strict-aliasing"))
            with open(o, "rb") as f:
                return f.read()
        except native.HarnessError:
            return None


def ppci_link_path(wd, ready, results):
    """Link path (b): for every distinct object a static executable built by ppci alone; run through the launcher."""
    from ppci import api

    launcher = native.build_launcher(wd)
    items = []
    for r in ready:
        r["extra_variants"] = []
        head = r["units"][0]
        if head.labels[0].startswith("ref:"):
            continue
        try:
            drv = native.limited(lambda: api.cc(io.StringIO(native.ppci_driver_text(head)), "x86_64", opt_level=0),
                                 native.COMPILE_LIMIT_S, "x86_64 cc")
            derr = None
        except Exception as e:
            drv, derr = None, "error:driver-codegen:" + type(e).__name__
        for u in r["units"]:
            if u.labels and u.labels[0].startswith("ref:"):
                continue
            key = u.key.replace("+gcc-ld", "+ppci-ld")
            data, err = None, derr
            if drv is not None and u.obj is not None:
                try:
                    data = native.limited(lambda: native.ppci_link_exe([u.obj, drv]), native.COMPILE_LIMIT_S, "ppci link")
                except Exception as e:
                    err = "error:ppci-link:" + type(e).__name__
            elif u.obj is None:
                err = u.err or "error:no-object"
            items.append((key, data, err, len(u.vecs)))
            for lab in u.labels:
                r["extra_variants"].append((lab.replace("+gcc-ld", "+ppci-ld"), key, u.tags))
    results.update(native.run_standalone(wd, launcher, items))


# ---------------------------------------------------------------------------------------------------
# thorough tier: native trace against the Src.tla observation (C semantics), E idiom
# ---------------------------------------------------------------------------------------------------
def src_level(ctx, cases, ready):
    from engines import c01

    items = []
    for r in ready:
        p = r["p"]
        if "prog" not in p:        # hand-written directed sources have no abstract program for Src.tla
            continue
        f = [x for x in p["prog"]["funcs"] if x["n"] == p["fn"]][0]
        items.append({"key": p["key"], "prog": p["prog"], "f": f, "vecs": r["vecs"], "ext": p["ext"], "kind": "random",
                      "src": p["csrc"]})
    items = c01.compile_items(ctx, items)
    if not items:
        return
    obs = c01.run_src(ctx, items, "Src executions (C04)")
    res, bad = c01.judge(ctx, items, obs, "Src vs IR (C04: which executions the front-end preserves)")
    bykey = {c["id"]: c for c in cases}
    recs = []
    stat = {}
    for k, it in enumerate(items):
        c = bykey.get(it["key"])
        if c is None:
            continue
        for a in range(len(it["vecs"])):
            o = obs[(k, a)]
            stat[o["status"]] = stat.get(o["status"], 0) + 1
            if o["status"] != "ok":
                continue
            if (k, a) in bad:
                ctx.cov["src_frontend_divergent_executions"] = ctx.cov.get("src_frontend_divergent_executions", 0) + 1
                continue
            for vi, lab in enumerate(c["vlabels"]):
                if lab.startswith("ref:"):
                    continue
                recs.append({"key": "C04:src:%s%s:%s" % ("".join(t + ":" for t in c["vtags"][vi]), c["id"], lab),
                             "args": c["vecs"][a], "src": o, "nat": c["nat"][a][vi]})
    ctx.cov["src_status"] = stat
    ctx.cov["src_level_records"] = len(recs)
    seen = set()

    def keyfn(r):
        return r["key"]

    # one violation per (program, variant)
    core.eval_records(ctx, "SrcNative_Eval", SN_CFG, recs, keyfn=keyfn, workers=4,
                      whatfn=lambda r, e: "args %s: native %s; the C abstract machine (Src.tla) gives ret=%s calls=%s" % (
                          r["args"], c05.show_obs(r["nat"]), r["src"]["ret"], str(r["src"]["calls"])[:300]))


class Engine:
    LEVEL = "model_checking"

    def run(self, ctx):
        thorough = ctx.tier == "thorough"
        ctx.rule("generated C programs (harness/absprog.py; functions, loops, switch, arrays, structs, pointers into arrays, "
                 "calls, external calls) compiled by ppci for x86_64 at -O0/1/2/s; every distinct object is executed natively "
                 "through both link paths (gcc/ld with a gcc-compiled driver; ppci's linker + ELF writer with a ppci-compiled "
                 "driver and ppci-assembled start-up code) on 4-8 argument vectors; TLC runs the IR that c_to_ir emits under "
                 "IR.tla and compares return word, exit status, final bytes of every global and the external-call sequence.  "
                 "distinct = (program, vector, level, link path) tuples whose IR execution is defined")
        ctx.assume("harness/project_ir.py reports the IR module faithfully; IR.tla is the meaning of ppci IR (as for C02)")
        ctx.assume("gcc, ld, the Linux kernel's ELF loader and the host CPU behave correctly; the drivers print what the function "
                   "under test returned / left in memory / passed to the external stubs")
        ctx.assume("C-level meaning: Src.tla is refined by the IR (property C01); C04 = C01 composed with native ⊑ IR "
                   "(quick tier); the thorough tier also compares the native trace with the Src.tla observation directly")
        ctx.assume("prefixing the program's external names (to link many programs into one executable) does not change its meaning")
        only = (ctx.only or {}).get("case", {}).get("program") if ctx.only else None
        if ctx.only is not None:
            thorough = ctx.only.get("tier", ctx.tier) == "thorough"
        nvec = 6 if thorough else 4
        if only and only.startswith("c") and only[1:].isdigit():
            programs = c_programs(ctx, 0, nvec, seeds=[int(only[1:])])     # replay: rebuild that program from its seed
        elif only:
            programs = [p for p in directed_c_programs(ctx, nvec) if p["key"] == only]
        else:
            programs = directed_c_programs(ctx, nvec) + c_programs(ctx, 80 if thorough else 12, nvec)
        holder = {}

        def post(wd, ready, results):
            ppci_link_path(wd, ready, results)
            holder["ready"] = ready

        cases = c05.run_programs(ctx, programs, "C04", prepare_c, post=post)
        import os

        if (thorough or os.environ.get("C04_SRC_LEVEL") == "1") and ctx.only is None:
            src_level(ctx, cases, holder.get("ready", []))
        c05.quick_exit()
